(* Proofs/XrefTab.v — C13, classic table: the entry parser accepts exactly the fixed 20-byte
   form; a rendered table parses to its entries. *)
From PV Require Import Model.Prim Model.XrefTab Spec.XrefEnc Proofs.XrefBase.
From Coq Require Import ZifyBool ZifyNat ZifyN.
Ltac Zify.zify_post_hook ::= Z.div_mod_to_equations.

(* ---------- numeric fields ---------- *)
Lemma xfield_ok w n s c r :
  at_cur s c (digits w n ++ r) -> (n < 10 ^ N.of_nat w)%N -> (10 ^ N.of_nat w <= usize_lim)%N ->
  xfield w s c = POk n (c + w).
Proof.
  intros H B U. unfold xfield.
  rewrite (extract_at w s c _ _ H (digits_len w n)).
  rewrite (utf8_ascii _ (digit_ascii _ (digits_all w n))). cbn [negb].
  rewrite (count_digits_all _ (digits_all w n)), digits_len, Nat.eqb_refl. cbn [negb].
  rewrite (parse_N_digits w n B).
  destruct (N.leb_spec usize_lim n); [lia|reflexivity].
Qed.

(* every success of xfield: w digits *)
Lemma xfield_inv w s c v c1 : c <= len s -> xfield w s c = POk v c1 ->
  exists r, at_cur s c (digits w v ++ r) /\ (v < 10 ^ N.of_nat w)%N /\ c1 = c + w.
Proof.
  intros L H. unfold xfield in H.
  destruct (extract_inv w s c L) as [(a & r & A & La & E)|[_ E]]; rewrite E in H; [|discriminate].
  destruct (utf8_valid a); cbn [negb] in H; [|discriminate].
  destruct (Nat.eqb_spec (count_digits a) w) as [Hc|]; cbn [negb] in H; [|discriminate].
  destruct (N.leb_spec usize_lim (parse_N a)); [discriminate|]. inversion H; subst v c1.
  rewrite <- La in Hc. apply count_digits_full in Hc. destruct (digits_of_string a Hc) as [Ea Ba].
  exists r. rewrite <- La. rewrite <- Ea. split; [exact A|]. split; [exact Ba|reflexivity].
Qed.

Lemma xspace_ok s c r : at_cur s c (32%N :: r) -> xspace s c = POk tt (S c).
Proof.
  intros H. unfold xspace. change (32%N :: r) with ([32%N] ++ r) in H.
  rewrite (exact_at _ _ _ _ H). cbn. f_equal. lia.
Qed.

Lemma xspace_inv s c u c1 : c <= len s -> xspace s c = POk u c1 -> exists r, at_cur s c (32%N :: r) /\ c1 = S c.
Proof.
  intros L H. unfold xspace in H. destruct (exact [32%N] s c) eqn:E; [|discriminate].
  inversion H; subst. destruct (exact_inv _ _ _ _ L E) as (r & A & ->). exists r. split; [exact A|cbn; lia].
Qed.

(* ---------- one entry ---------- *)
Lemma term_len t : In t xref_eols -> len t = 2.
Proof. cbn. intros [<-|[<-|[<-|[]]]]; reflexivity. Qed.

Lemma term_ok t : In t xref_eols -> existsb (bytes_eqb t) xref_eols = true.
Proof. cbn. intros [<-|[<-|[<-|[]]]]; reflexivity. Qed.

Lemma term_inv t : existsb (bytes_eqb t) xref_eols = true -> In t xref_eols.
Proof.
  intros H. apply existsb_exists in H as (x & Hx & E). apply bytes_eqb_eq in E. subst. exact Hx.
Qed.

Theorem xentp_render obj e s c r :
  wf_ent e -> at_cur s c (render_ent e ++ r) -> xentp obj s c = POk (ent_of obj e) (c + 20).
Proof.
  intros (Bi & Bg & Bt) H. unfold render_ent in H. rewrite <- !app_assoc in H.
  unfold xentp.
  rewrite (xfield_ok _ _ _ _ _ H) by (cbn; lia). apply at_cur_app in H. rewrite digits_len in H.
  cbn [app] in H. rewrite (xspace_ok _ _ _ H). apply at_cur_cons in H.
  rewrite (xfield_ok _ _ _ _ _ H) by (unfold xref_gen_max in *; cbn; lia).
  apply at_cur_app in H. rewrite digits_len in H.
  destruct (N.ltb_spec xref_gen_max (te_gen e)); [lia|].
  rewrite (xspace_ok _ _ _ H). apply at_cur_cons in H.
  change ((if te_inuse e then xref_flag_inuse else xref_flag_free) :: te_term e ++ r)
    with ([if te_inuse e then xref_flag_inuse else xref_flag_free] ++ te_term e ++ r) in H.
  rewrite (extract_at 1 _ _ _ _ H eq_refl). apply at_cur_app in H. cbn [len List.length] in H.
  rewrite (extract_at 2 _ _ _ _ H (term_len _ Bt)). rewrite (term_ok _ Bt). cbn [negb].
  unfold ent_of. unfold xref_info_width, xref_gen_width.
  replace (S (S (c + 10) + 5) + 1 + 2) with (c + 20) by lia.
  destruct (te_inuse e); reflexivity.
Qed.

(* C13_entry_strict: every accepted entry is the rendering of a well-formed written entry *)
Theorem xentp_strict obj s c x c1 :
  c <= len s -> xentp obj s c = POk x c1 ->
  exists e r, wf_ent e /\ at_cur s c (render_ent e ++ r) /\ x = ent_of obj e /\ c1 = c + 20.
Proof.
  intros L H. unfold xentp in H.
  destruct (xfield xref_info_width s c) as [info k1| | |] eqn:E1; try discriminate.
  destruct (xfield_inv _ _ _ _ _ L E1) as (r1 & A1 & B1 & ->).
  pose proof (at_cur_app _ _ _ _ A1) as A2. rewrite digits_len in A2.
  destruct (xspace s (c + xref_info_width)) as [u k2| | |] eqn:E2; try discriminate.
  destruct (xspace_inv _ _ _ _ (proj1 A2) E2) as (r2 & A2' & ->).
  pose proof (at_cur_inj _ _ _ _ A2 A2') as ->. clear A2'.
  pose proof (at_cur_cons _ _ _ _ A2) as A3.
  destruct (xfield xref_gen_width s (S (c + xref_info_width))) as [gen k3| | |] eqn:E3; try discriminate.
  destruct (xfield_inv _ _ _ _ _ (proj1 A3) E3) as (r3 & A3' & B3 & ->).
  pose proof (at_cur_inj _ _ _ _ A3 A3') as ->. clear A3'.
  destruct (N.ltb_spec xref_gen_max gen) as [|G]; [discriminate|].
  pose proof (at_cur_app _ _ _ _ A3) as A4. rewrite digits_len in A4.
  destruct (xspace s (S (c + xref_info_width) + xref_gen_width)) as [u4 k4| | |] eqn:E4; try discriminate.
  destruct (xspace_inv _ _ _ _ (proj1 A4) E4) as (r4 & A4' & ->).
  pose proof (at_cur_inj _ _ _ _ A4 A4') as ->. clear A4'.
  pose proof (at_cur_cons _ _ _ _ A4) as A5.
  destruct (extract_inv 1 s _ (proj1 A5)) as [(a5 & r5 & A5' & La5 & E5)|[_ E5]]; rewrite E5 in H; [|discriminate].
  destruct a5 as [|f0 [|? ?]]; try discriminate La5.
  pose proof (at_cur_inj _ _ _ _ A5 A5') as ->. clear A5'.
  pose proof (at_cur_app _ _ [f0] _ A5) as A6. cbn [len List.length] in A6.
  destruct (extract_inv 2 s _ (proj1 A6)) as [(a6 & r6 & A6' & La6 & E6)|[_ E6]].
  2:{ rewrite E6 in H. destruct (N.eqb f0 xref_flag_free); [discriminate|].
      destruct (N.eqb f0 xref_flag_inuse); discriminate. }
  pose proof (at_cur_inj _ _ _ _ A6 A6') as ->. clear A6'.
  rewrite E6 in H.
  assert (K : exists iu : bool, f0 = (if iu then xref_flag_inuse else xref_flag_free) /\
              existsb (bytes_eqb a6) xref_eols = true /\
              x = mk_xent obj gen (if iu then XInUse info else XFree info) /\
              c1 = S (S (c + xref_info_width) + xref_gen_width) + 1 + 2).
  { destruct (N.eqb_spec f0 xref_flag_free) as [->|N1].
    - destruct (existsb (bytes_eqb a6) xref_eols); cbn [negb] in H; [|discriminate].
      inversion H; subst. exists false. repeat split.
    - destruct (N.eqb_spec f0 xref_flag_inuse) as [->|N2]; [|discriminate].
      destruct (existsb (bytes_eqb a6) xref_eols); cbn [negb] in H; [|discriminate].
      inversion H; subst. exists true. repeat split. }
  destruct K as (iu & -> & T & -> & ->).
  exists (mk_tent info gen iu a6), r6. split; [|split; [|split]].
  - split; [exact B1|]. split; [exact G|]. apply term_inv. exact T.
  - unfold render_ent. cbn [te_info te_gen te_inuse te_term]. rewrite <- !app_assoc. exact A1.
  - reflexivity.
  - unfold xref_info_width, xref_gen_width. lia.
Qed.

(* an entry is parsed from exactly the next 20 bytes *)
Lemma render_ent_len e : wf_ent e -> len (render_ent e) = 20.
Proof.
  intros (_ & _ & T). unfold render_ent, len. rewrite !app_length.
  change (List.length (digits xref_info_width (te_info e))) with (len (digits xref_info_width (te_info e))).
  change (List.length (digits xref_gen_width (te_gen e))) with (len (digits xref_gen_width (te_gen e))).
  rewrite !digits_len. pose proof (term_len _ T) as Q. unfold len in Q. rewrite Q. reflexivity.
Qed.

(* C13_entry_complete: the outcome depends on the next 20 bytes only, and is a success iff they
   are a rendering *)
Theorem xentp_complete obj s c :
  c <= len s ->
  (exists x, xentp obj s c = POk x (c + 20)) <->
  (exists e, wf_ent e /\ sub s c (c + 20) = render_ent e /\ c + 20 <= len s).
Proof.
  intros L. split.
  - intros (x & H). destruct (xentp_strict _ _ _ _ _ L H) as (e & r & W & A & _ & _).
    exists e. split; [exact W|]. rewrite <- (render_ent_len e W). split; [apply (sub_at _ _ _ _ A)|].
    pose proof (at_cur_len _ _ _ A) as Q. unfold len in *. rewrite app_length in Q. lia.
  - intros (e & W & E & B). exists (ent_of obj e). apply (xentp_render obj e s c (skipn (c + 20) s) W).
    split; [exact L|]. rewrite <- E. unfold sub. replace (c + 20 - c) with 20 by lia.
    replace (c + 20) with (20 + c) by lia. rewrite <- (skipn_skipn' 20 c s). apply eq_sym, firstn_skipn.
Qed.

(* whatever happens, no panic and no fuel *)
Lemma xfield_safe w s c : c <= len s -> xfield w s c <> PPanic /\ xfield w s c <> PFuel.
Proof.
  intros L. unfold xfield.
  destruct (extract_inv w s c L) as [(a & r & A & La & E)|[_ E]]; rewrite E; [|split; discriminate].
  destruct (utf8_valid a); cbn [negb]; [|split; discriminate].
  destruct (Nat.eqb (count_digits a) w); cbn [negb]; [|split; discriminate].
  destruct (N.leb usize_lim (parse_N a)); split; discriminate.
Qed.

(* ---------- header tokens ---------- *)
Lemma digit_in_set b : is_digit b = true -> memb b digit_set = true.
Proof.
  unfold is_digit. intros H.
  assert (b = 48 \/ b = 49 \/ b = 50 \/ b = 51 \/ b = 52 \/ b = 53 \/ b = 54 \/ b = 55 \/ b = 56 \/ b = 57)%N by lia.
  repeat (destruct H0 as [->|H0]; [reflexivity|]). subst. reflexivity.
Qed.

Lemma digit_set_in b : memb b digit_set = true -> is_digit b = true.
Proof.
  unfold memb. intros H. apply existsb_exists in H as (x & Hx & E). apply N.eqb_eq in E. subst x.
  cbn in Hx. repeat (destruct Hx as [<-|Hx]; [reflexivity|]). contradiction.
Qed.

Lemma not_digit_set b : is_digit b = false -> memb b digit_set = false.
Proof.
  intros H. destruct (memb b digit_set) eqn:E; [|reflexivity]. apply digit_set_in in E. congruence.
Qed.

Lemma acc_digits_snoc m a d acc :
  acc_digits m (a ++ [d]) acc =
  match acc_digits m a acc with
  | Some v => if (m <? v * 10)%Z then None
              else if (m <? v * 10 + (Z.of_N d - 48))%Z then None else Some (v * 10 + (Z.of_N d - 48))%Z
  | None => None
  end.
Proof.
  revert acc. induction a as [|x a IH]; intros acc; cbn.
  - destruct (m <? acc * 10)%Z; [reflexivity|]. destruct (m <? acc * 10 + (Z.of_N d - 48))%Z; reflexivity.
  - destruct (m <? acc * 10)%Z; [reflexivity|]. destruct (m <? acc * 10 + (Z.of_N x - 48))%Z; [reflexivity|]. apply IH.
Qed.

Lemma acc_digits_digits m w n : (n < 10 ^ N.of_nat w)%N -> (Z.of_N n <= m)%Z ->
  acc_digits m (digits w n) 0 = Some (Z.of_N n).
Proof.
  revert n. induction w as [|w IH]; intros n B M.
  - cbn in *. f_equal. lia.
  - cbn [digits]. rewrite acc_digits_snoc, IH.
    + destruct (Z.ltb_spec m (Z.of_N (n / 10) * 10)); [lia|].
      destruct (Z.ltb_spec m (Z.of_N (n / 10) * 10 + (Z.of_N (48 + n mod 10) - 48))); [lia|]. f_equal. lia.
    + rewrite Nat2N.inj_succ, N.pow_succ_r' in B. lia.
    + lia.
Qed.

Lemma digits_head w n : exists d r, digits (S w) n = d :: r /\ is_digit d = true.
Proof.
  pose proof (digits_all (S w) n) as F. pose proof (digits_len (S w) n) as L.
  destruct (digits (S w) n) as [|d r]; [discriminate|]. inversion F; subst. exists d, r. split; [reflexivity|assumption].
Qed.

Definition stops_digit (r : bytes) : Prop := match r with [] => True | b :: _ => is_digit b = false end.

Lemma integer_ok w n s c r :
  at_cur s c (digits w n ++ r) -> 1 <= w -> (n < 10 ^ N.of_nat w)%N -> (n < i64_lim)%N -> stops_digit r ->
  integer s c = POk (Z.of_N n, c, c + w) (c + w).
Proof.
  intros H W B M St. destruct w as [|w]; [lia|]. destruct (digits_head w n) as (d & dr & E & Hd).
  unfold integer. assert (P : forall x, is_digit x = false -> peek_is s c x = false).
  { intros x Hx. rewrite E in H. cbn [app] in H. rewrite (peek_is_at _ _ _ _ _ H).
    destruct (N.eqb_spec d x); [subst; congruence|reflexivity]. }
  rewrite (P 45%N eq_refl), (P 43%N eq_refl). unfold integer_body.
  assert (A : allowed digit_set s c = S w).
  { rewrite <- (digits_len (S w) n). apply (allowed_at _ _ _ _ r H).
    - eapply Forall_impl; [|apply digits_all]. intros b; apply digit_in_set.
    - destruct r as [|b r]; [exact I|]. cbn in St |- *. apply not_digit_set, St. }
  rewrite A. cbn [Nat.eqb].
  rewrite <- (digits_len (S w) n) at 1. rewrite (sub_at _ _ _ _ H).
  rewrite (acc_digits_digits i64_max (S w) n B) by (unfold i64_lim, i64_max in *; lia).
  reflexivity.
Qed.

Lemma xusize_ok w n s c r :
  at_cur s c (digits w n ++ r) -> 1 <= w -> (n < 10 ^ N.of_nat w)%N -> (n < i64_lim)%N -> stops_digit r ->
  xusize s c = POk n (c + w).
Proof.
  intros H W B M St. unfold xusize. rewrite (integer_ok w n s c r H W B M St).
  unfold int_is_usize. destruct (Z.leb_spec 0 (Z.of_N n)); [|lia]. rewrite N2Z.id. reflexivity.
Qed.

(* integer fails, cursor restored, on anything that does not start with a digit or a sign *)
Lemma integer_fail s c r : at_cur s c r ->
  match r with [] => True | b :: _ => is_digit b = false /\ b <> 45%N /\ b <> 43%N end ->
  integer s c = PErr EGuard c.
Proof.
  intros H R. unfold integer.
  assert (P : forall x, x = 45%N \/ x = 43%N -> peek_is s c x = false).
  { intros x Hx. destruct r as [|b r]; [apply (peek_is_nil _ _ _ H)|].
    rewrite (peek_is_at _ _ _ _ _ H). destruct R as (_ & R1 & R2). destruct (N.eqb_spec b x); [|reflexivity].
    destruct Hx; congruence. }
  rewrite (P 45%N (or_introl eq_refl)), (P 43%N (or_intror eq_refl)). unfold integer_body.
  assert (A : allowed digit_set s c = 0).
  { change 0 with (len (@nil N)). apply (allowed_at _ _ _ [] r); [exact H|constructor|].
    destruct r as [|b r]; [exact I|]. cbn. apply not_digit_set, R. }
  rewrite A. cbn [Nat.eqb]. unfold setc. destruct H as [L _].
  destruct (Nat.leb_spec c (len s)); [reflexivity|lia].
Qed.

Lemma all_in_set set l : all_in set l -> Forall (fun b => memb b set = true) l.
Proof. exact (fun H => H). Qed.

Lemma ws_noeol_ok lead s c r :
  at_cur s c (lead ++ r) -> all_in ws_noeol_set lead -> stops (fun b => memb b ws_noeol_set) r ->
  match r with [] => True | b :: _ => b <> 10%N end ->
  ws_noeol true s c = POk (tt, c, c + len lead) (c + len lead).
Proof.
  intros H F St N10. unfold ws_noeol. rewrite (allowed_at _ _ _ _ _ H F St). rewrite andb_false_r.
  assert (P : peek_is s (c + len lead) 10 = false).
  { apply at_cur_app in H. destruct r as [|b r]; [apply (peek_is_nil _ _ _ H)|].
    rewrite (peek_is_at _ _ _ _ _ H). destruct (N.eqb_spec b 10); [contradiction|reflexivity]. }
  rewrite P, andb_false_r. reflexivity.
Qed.

Lemma ws_eol_ok eo eol s c r :
  at_cur s c (eol ++ r) -> all_in ws_eol_set eol -> no_ws_start r -> eo = true \/ eol <> [] ->
  ws_eol eo s c = POk (tt, c, c + len eol) (c + len eol).
Proof.
  intros H F NS E. unfold ws_eol. cbn [ws_eol_loop].
  assert (St : stops (fun b => memb b ws_eol_set) r).
  { destruct r as [|b r]; [exact I|]. cbn in NS |- *.
    destruct (N.eqb b 32), (N.eqb b 0), (N.eqb b 9), (N.eqb b 13), (N.eqb b 10), (N.eqb b 12); cbn in *; congruence. }
  rewrite (allowed_at _ _ _ _ _ H F St).
  assert (P : peek_is s (c + len eol) 37 = false).
  { apply at_cur_app in H. destruct r as [|b r]; [apply (peek_is_nil _ _ _ H)|].
    rewrite (peek_is_at _ _ _ _ _ H). cbn in NS.
    destruct (N.eqb b 37) eqn:Q; [|reflexivity]. rewrite !orb_true_r in NS. discriminate. }
  rewrite P. destruct E as [->|E].
  - rewrite andb_false_r. reflexivity.
  - destruct eol as [|x eol]; [contradiction|]. cbn [len List.length Nat.eqb]. reflexivity.
Qed.

Lemma ws_noeol_none s c r :
  at_cur s c r -> stops (fun b => memb b ws_noeol_set) r -> ws_noeol true s c = POk (tt, c, c) c.
Proof.
  intros H St. unfold ws_noeol.
  assert (A : allowed ws_noeol_set s c = 0).
  { change 0 with (len (@nil N)). apply (allowed_at _ _ _ [] r H); [constructor|exact St]. }
  rewrite A, Nat.add_0_r. cbn [Nat.eqb negb andb]. unfold sub. rewrite Nat.sub_diag. cbn. rewrite andb_false_r. reflexivity.
Qed.

(* ---------- entries of a subsection ---------- *)
Lemma render_ents_cons e l : render_ents (e :: l) = render_ent e ++ render_ents l.
Proof. reflexivity. Qed.

Lemma render_ents_len l : Forall wf_ent l -> len (render_ents l) = 20 * len l.
Proof.
  induction 1 as [|e l He _ IH]; [reflexivity|]. rewrite render_ents_cons. unfold len in *.
  rewrite app_length, IH. pose proof (render_ent_len e He) as Q. unfold len in Q. rewrite Q. cbn [List.length]. lia.
Qed.

Lemma xents_ok l : forall fuel obj s c r,
  at_cur s c (render_ents l ++ r) -> Forall wf_ent l -> (obj + N.of_nat (len l) <= usize_lim)%N -> len l <= fuel ->
  xents fuel obj (N.of_nat (len l)) s c = POk (number ent_of obj l) (c + 20 * len l).
Proof.
  induction l as [|e l IH]; intros fuel obj s c r H F B Fu.
  - destruct fuel; cbn; f_equal; lia.
  - inversion F as [|? ? He Fl]; subst. rewrite render_ents_cons, <- app_assoc in H.
    destruct fuel as [|fuel]; [cbn in Fu; lia|].
    cbn [xents]. cbn [len List.length] in *.
    destruct (N.eqb_spec (N.of_nat (S (List.length l))) 0); [lia|].
    destruct (N.leb_spec usize_lim obj); [lia|].
    rewrite (xentp_render obj e s c _ He H).
    apply at_cur_app in H. rewrite (render_ent_len e He) in H.
    replace (N.of_nat (S (List.length l)) - 1)%N with (N.of_nat (len l)) by (unfold len; lia).
    rewrite (IH fuel (obj + 1)%N s (c + 20) r H Fl) by (unfold len; lia).
    cbn [number]. f_equal. unfold len. lia.
Qed.

(* ---------- one subsection ---------- *)
Lemma no_ws_digit d r : is_digit d = true -> stops (fun b => memb b ws_noeol_set) (d :: r) /\ d <> 10%N.
Proof.
  unfold is_digit. intros H. split; [|lia]. cbn. lia.
Qed.

Lemma render_sub_len x : wf_sub x ->
  len (render_sub x) = len (ts_lead x) + ts_sw x + 1 + ts_cw x + len (ts_eol x) + 20 * len (ts_ents x).
Proof.
  intros W. unfold render_sub, len. rewrite !app_length.
  change (List.length (digits (ts_sw x) (ts_start x))) with (len (digits (ts_sw x) (ts_start x))).
  change (List.length (digits (ts_cw x) (ts_count x))) with (len (digits (ts_cw x) (ts_count x))).
  rewrite !digits_len.
  pose proof (render_ents_len (ts_ents x)) as Q. unfold len in Q. rewrite Q by apply W. cbn [List.length]. lia.
Qed.

Lemma ent_stops e r : stops_digit (render_ent e ++ r) -> False.
Proof.
  unfold render_ent. unfold xref_info_width. destruct (digits_head 9 (te_info e)) as (d & dr & E & Hd).
  rewrite E. cbn. congruence.
Qed.

Definition render_hdr (x : tsub) : bytes :=
  ts_lead x ++ digits (ts_sw x) (ts_start x) ++ [32%N] ++ digits (ts_cw x) (ts_count x) ++ ts_eol x.

Lemma render_sub_hdr x : render_sub x = render_hdr x ++ render_ents (ts_ents x).
Proof. unfold render_sub, render_hdr. rewrite <- !app_assoc. reflexivity. Qed.

Lemma xsubhdr_ok x s c r :
  at_cur s c (render_hdr x ++ r) -> wf_sub x -> no_ws_start r ->
  xsubhdr s c = POk (ts_start x, ts_count x) (c + len (render_hdr x)).
Proof.
  intros H W NS.
  destruct W as (Wl & Wsw & Bs & Ms & Wcw & Bc & Mc & Ne & We & Fe).
  assert (RL : len (render_hdr x) = len (ts_lead x) + ts_sw x + 1 + ts_cw x + len (ts_eol x)).
  { unfold render_hdr, len. rewrite !app_length.
    change (List.length (digits (ts_sw x) (ts_start x))) with (len (digits (ts_sw x) (ts_start x))).
    change (List.length (digits (ts_cw x) (ts_count x))) with (len (digits (ts_cw x) (ts_count x))).
    rewrite !digits_len. cbn [List.length]. lia. }
  unfold render_hdr in H. rewrite <- !app_assoc in H. unfold xsubhdr.
  destruct (ts_sw x) as [|sw] eqn:Esw; [lia|]. destruct (digits_head sw (ts_start x)) as (d1 & dr1 & E1 & Hd1).
  destruct (ts_cw x) as [|cw] eqn:Ecw; [lia|]. destruct (digits_head cw (ts_count x)) as (d2 & dr2 & E2 & Hd2).
  (* leading blanks *)
  rewrite (ws_noeol_ok (ts_lead x) s c _ H Wl).
  2:{ rewrite E1. cbn [app]. exact (proj1 (no_ws_digit d1 _ Hd1)). }
  2:{ rewrite E1. cbn [app]. exact (proj2 (no_ws_digit d1 [] Hd1)). }
  apply at_cur_app in H.
  (* first object number *)
  rewrite (xusize_ok (S sw) (ts_start x) s _ _ H) by (try lia; try assumption; exact eq_refl).
  apply at_cur_app in H. rewrite digits_len in H.
  cbn [app] in H. rewrite (xspace_ok _ _ _ H). apply at_cur_cons in H.
  (* count *)
  rewrite (xusize_ok (S cw) (ts_count x) s _ _ H); try lia; try assumption.
  2:{ destruct (ts_eol x) as [|b e]; [contradiction|]. cbn. inversion We as [|? ? Hb _]; subst.
      destruct (is_digit b) eqn:Q; [|reflexivity]. unfold is_digit in Q. cbn in Hb.
      destruct (N.eqb_spec b 32), (N.eqb_spec b 0), (N.eqb_spec b 9), (N.eqb_spec b 13), (N.eqb_spec b 10), (N.eqb_spec b 12); try lia; discriminate. }
  apply at_cur_app in H. rewrite digits_len in H.
  (* end of the header line *)
  rewrite (ws_eol_ok false (ts_eol x) s _ _ H We NS (or_intror Ne)).
  f_equal. lia.
Qed.

Lemma xsubents_ok x s c r :
  at_cur s c (render_ents (ts_ents x) ++ r) -> wf_sub x ->
  xsubents (ts_start x) (ts_count x) s c = POk (sub_of x) (c + len (render_ents (ts_ents x))).
Proof.
  intros H W. destruct W as (Wl & Wsw & Bs & Ms & Wcw & Bc & Mc & Ne & We & Fe).
  pose proof (at_cur_len _ _ _ H) as SL. unfold len in SL. rewrite app_length in SL.
  pose proof (render_ents_len _ Fe) as EL. unfold len in EL. rewrite EL in SL.
  unfold xsubents, ts_count in *.
  rewrite (xents_ok (ts_ents x) (S (len s)) (ts_start x) s _ r H Fe).
  - unfold sub_of, ts_count. f_equal. unfold len. lia.
  - unfold usize_lim, i64_lim in *. lia.
  - unfold len. lia.
Qed.

Theorem xsubp_ok x s c r :
  at_cur s c (render_sub x ++ r) -> wf_sub x -> no_ws_start (render_ents (ts_ents x) ++ r) ->
  xsubp s c = POk (sub_of x) (c + len (render_sub x)).
Proof.
  intros H W NS. rewrite render_sub_hdr, <- app_assoc in H. unfold xsubp.
  rewrite (xsubhdr_ok x s c _ H W NS). apply at_cur_app in H.
  rewrite (xsubents_ok x s _ r H W). f_equal. rewrite render_sub_hdr. unfold len. rewrite app_length. lia.
Qed.

(* ---------- the section ---------- *)
Lemma render_table_cons x t : render_table (x :: t) = render_sub x ++ render_table t.
Proof. reflexivity. Qed.

(* what follows the table is not a subsection: the subsection parser fails without consuming *)
Lemma xsubhdr_tail s c tail : at_cur s c tail -> tail_ok tail -> xsubhdr s c = PErr EGuard c.
Proof.
  intros H T. unfold xsubhdr.
  assert (W : ws_noeol true s c = POk (tt, c, c) c).
  { apply (ws_noeol_none s c tail H).
    destruct tail as [|b r]; [exact I|]. cbn in T |- *.
    destruct (N.eqb b 32), (N.eqb b 0), (N.eqb b 9), (N.eqb b 13), (N.eqb b 12); cbn in *; congruence. }
  rewrite W. unfold xusize. rewrite (integer_fail s c tail H); [reflexivity|].
  destruct tail as [|b r]; [exact I|]. cbn in T. unfold is_digit.
  repeat split; [|intros ->; discriminate|intros ->; discriminate].
  destruct (N.eqb_spec b 48), (N.eqb_spec b 49), (N.eqb_spec b 50), (N.eqb_spec b 51), (N.eqb_spec b 52),
    (N.eqb_spec b 53), (N.eqb_spec b 54), (N.eqb_spec b 55), (N.eqb_spec b 56), (N.eqb_spec b 57);
    subst; try (rewrite ?orb_true_r in T; discriminate). lia.
Qed.

Lemma xsubs_ok t : forall fuel first s c tail,
  at_cur s c (render_table t ++ tail) -> wf_subs t tail -> tail_ok tail ->
  len t < fuel -> (t <> [] \/ first = false) ->
  xsubs fuel first s c = POk (List.map sub_of t) (c + len (render_table t)).
Proof.
  induction t as [|x t IH]; intros fuel first s c tail H W T Fu NE.
  - destruct fuel as [|fuel]; [cbn in Fu; lia|]. cbn [xsubs]. cbn [render_table List.map concat app] in H.
    rewrite (xsubhdr_tail s c tail H T). destruct NE as [NE| ->]; [contradiction|]. cbn. f_equal. lia.
  - destruct fuel as [|fuel]; [cbn in Fu; lia|]. cbn [xsubs].
    destruct W as (Wx & NS & Wt). rewrite render_table_cons, <- app_assoc in H.
    assert (NS' : no_ws_start (render_ents (ts_ents x) ++ render_table t ++ tail)) by exact NS.
    rewrite render_sub_hdr, <- app_assoc in H.
    rewrite (xsubhdr_ok x s c _ H Wx NS'). apply at_cur_app in H.
    rewrite (xsubents_ok x s _ _ H Wx). apply at_cur_app in H.
    rewrite (IH fuel false s _ tail H Wt T); [| unfold len in *; cbn [List.length] in Fu; lia | right; reflexivity].
    cbn [List.map]. f_equal. rewrite render_table_cons, render_sub_hdr. unfold len. rewrite !app_length. lia.
Qed.

Lemma render_sub_ge x : wf_sub x -> 1 <= len (render_sub x).
Proof. intros W. rewrite (render_sub_len x W). lia. Qed.

Lemma render_table_ge t tail : wf_subs t tail -> len t <= len (render_table t).
Proof.
  induction t as [|x t IH]; intros W; [cbn; lia|]. destruct W as (Wx & _ & Wt).
  rewrite render_table_cons. unfold len in *. rewrite app_length. cbn [List.length].
  pose proof (render_sub_ge x Wx). unfold len in *. specialize (IH Wt). lia.
Qed.

(* C13_table_rt: a written section (after arbitrary bytes [junk], with the cursor on it, followed
   by [tail]) parses to its subsections; the entries are numbered consecutively from each
   subsection start; the cursor stops exactly at the end of the table *)
Theorem xsectp_ok junk pre eol t tail :
  wf_sect pre eol t tail ->
  let s := junk ++ render_sect pre eol t ++ tail in
  let e := len junk + len (render_sect pre eol t) in
  xsectp s (len junk) = POk (List.map sub_of t, len junk, e) e.
Proof.
  intros (Wp & Ne & We & Nt & NS & Wt & T) s e.
  assert (H : at_cur s (len junk) (pre ++ xref_kw ++ eol ++ render_table t ++ tail)).
  { subst s. unfold render_sect. rewrite <- !app_assoc. apply at_cur_start. }
  unfold xsectp.
  rewrite (ws_eol_ok true pre s _ _ H Wp eq_refl (or_introl eq_refl)). apply at_cur_app in H.
  rewrite (exact_at xref_kw s _ _ H). apply at_cur_app in H.
  rewrite (ws_eol_ok false eol s _ _ H We NS (or_intror Ne)). apply at_cur_app in H.
  pose proof (at_cur_len _ _ _ H) as SL. unfold len in SL. rewrite app_length in SL.
  pose proof (render_table_ge t tail Wt) as TL.
  rewrite (xsubs_ok t (S (len s)) true s _ tail H Wt T) by (unfold len in *; try lia; left; exact Nt).
  subst e. unfold render_sect. unfold len. rewrite !app_length.
  replace (List.length junk + List.length pre + List.length xref_kw + List.length eol + List.length (render_table t))
    with (List.length junk + (List.length pre + (List.length xref_kw + (List.length eol + List.length (render_table t))))) by lia.
  reflexivity.
Qed.

(* the entries delivered by XrefSectT::ents() *)
Corollary xsectp_ents t : sect_ents (List.map sub_of t) = flat_map (fun x => number ent_of (ts_start x) (ts_ents x)) t.
Proof. unfold sect_ents. rewrite flat_map_concat_map, map_map, <- flat_map_concat_map. reflexivity. Qed.

(* ---------- rejections ---------- *)
Definition not_ok {A} (r : pres A) : Prop := forall v c, r <> POk v c.

(* the listed single-field corruptions: none of them is a rendering, hence none is accepted *)
Lemma nth_digits_field pre w n post i :
  len pre <= i < len pre + w -> is_digit (nth i (pre ++ digits w n ++ post) 0%N) = true.
Proof.
  intros Hi. rewrite app_nth2 by (unfold len in *; lia). rewrite app_nth1 by (pose proof (digits_len w n); unfold len in *; lia).
  pose proof (digits_all w n) as F. rewrite Forall_forall in F. apply F. apply nth_In.
  pose proof (digits_len w n). unfold len in *. lia.
Qed.

Lemma nth_digits_first w n post i : i < w -> is_digit (nth i (digits w n ++ post) 0%N) = true.
Proof. intros Hi. apply (nth_digits_field [] w n post i). cbn. lia. Qed.

Lemma sub_mid {A} (a m z : list A) : sub (a ++ m ++ z) (len a) (len a + len m) = m.
Proof.
  unfold sub, len. rewrite skipn_app, skipn_all, Nat.sub_diag. cbn [skipn app].
  replace (List.length a + List.length m - List.length a) with (List.length m) by lia.
  rewrite firstn_app, firstn_all, Nat.sub_diag. cbn. apply app_nil_r.
Qed.

Lemma nth_mid {A} (a z : list A) x d : nth (len a) (a ++ x :: z) d = x.
Proof. unfold len. rewrite app_nth2 by lia. rewrite Nat.sub_diag. reflexivity. Qed.

Theorem xentp_rejects obj s c :
  c <= len s ->
  let b := sub s c (c + 20) in
  ( len s < c + 20
    \/ (exists i, i < 10 /\ is_digit (nth i b 0%N) = false)          (* non-digit / 9 digits in the offset *)
    \/ nth 10 b 0%N <> 32%N                                           (* 11 digits, bad separator *)
    \/ (exists i, 11 <= i < 16 /\ is_digit (nth i b 0%N) = false)    (* non-digit in the generation *)
    \/ (xref_gen_max < parse_N (sub b 11 16))%N                       (* generation above 65535 *)
    \/ nth 16 b 0%N <> 32%N
    \/ (nth 17 b 0%N <> xref_flag_inuse /\ nth 17 b 0%N <> xref_flag_free)     (* type not n / f *)
    \/ ~ In (sub b 18 20) xref_eols ) ->                              (* bad terminator *)
  not_ok (xentp obj s c).
Proof.
  intros L b Bad x c1 H. destruct (xentp_strict _ _ _ _ _ L H) as (e & r & W & A & _ & _).
  pose proof (render_ent_len e W) as RL.
  assert (Eb : b = render_ent e) by (subst b; rewrite <- RL; apply (sub_at _ _ _ _ A)).
  pose proof (at_cur_len _ _ _ A) as SL. unfold len in SL. rewrite app_length in SL. unfold len in RL.
  destruct W as (Bi & Bg & Bt).
  unfold render_ent, xref_info_width, xref_gen_width in Eb.
  set (d10 := digits 10 (te_info e)) in *. set (d5 := digits 5 (te_gen e)) in *.
  set (fl := if te_inuse e then xref_flag_inuse else xref_flag_free) in *.
  assert (Q10 : len d10 = 10) by apply digits_len. assert (Q5 : len d5 = 5) by apply digits_len.
  assert (QT : len (te_term e) = 2) by (apply term_len, Bt).
  destruct Bad as [B|[(i & Hi & B)|[B|[(i & Hi & B)|[B|[B|[[B1 B2]|B]]]]]]].
  - unfold len in B. lia.
  - rewrite Eb in B. unfold d10 in B. rewrite (nth_digits_first 10 (te_info e) _ i Hi) in B. discriminate.
  - apply B. rewrite Eb. rewrite <- Q10. cbn [app]. apply nth_mid.
  - rewrite Eb in B. rewrite app_assoc in B. unfold d5 in B.
    rewrite (nth_digits_field (d10 ++ [32%N]) 5 (te_gen e) _ i) in B; [discriminate|].
    unfold len in *. rewrite app_length, Q10. cbn. lia.
  - assert (Es : sub b 11 16 = d5).
    { rewrite Eb. rewrite app_assoc. replace 11 with (len (d10 ++ [32%N])) by (unfold len in *; rewrite app_length, Q10; reflexivity).
      replace 16 with (len (d10 ++ [32%N]) + len d5) by (unfold len in *; rewrite app_length, Q10, Q5; reflexivity).
      apply sub_mid. }
    rewrite Es in B. unfold d5 in B. rewrite parse_N_digits in B by (unfold xref_gen_max in *; cbn; lia). lia.
  - apply B. rewrite Eb.
    replace (d10 ++ [32%N] ++ d5 ++ [32%N] ++ [fl] ++ te_term e)
      with ((d10 ++ [32%N] ++ d5) ++ 32%N :: ([fl] ++ te_term e)) by (rewrite <- !app_assoc; reflexivity).
    replace 16 with (len (d10 ++ [32%N] ++ d5)) by (unfold len in *; rewrite !app_length, Q10, Q5; reflexivity).
    apply nth_mid.
  - assert (E17 : nth 17 b 0%N = fl).
    { rewrite Eb.
      replace (d10 ++ [32%N] ++ d5 ++ [32%N] ++ [fl] ++ te_term e)
        with ((d10 ++ [32%N] ++ d5 ++ [32%N]) ++ fl :: te_term e) by (rewrite <- !app_assoc; reflexivity).
      replace 17 with (len (d10 ++ [32%N] ++ d5 ++ [32%N])) by (unfold len in *; rewrite !app_length, Q10, Q5; reflexivity).
      apply nth_mid. }
    unfold fl in E17. destruct (te_inuse e); congruence.
  - apply B. replace (sub b 18 20) with (te_term e); [exact Bt|]. symmetry.
    rewrite Eb. replace (d10 ++ [32%N] ++ d5 ++ [32%N] ++ [fl] ++ te_term e)
      with ((d10 ++ [32%N] ++ d5 ++ [32%N] ++ [fl]) ++ te_term e ++ []) by (rewrite app_nil_r, <- !app_assoc; reflexivity).
    replace 20 with (len (d10 ++ [32%N] ++ d5 ++ [32%N] ++ [fl]) + len (te_term e)) by (unfold len in *; rewrite !app_length, Q10, Q5, QT; reflexivity).
    replace 18 with (len (d10 ++ [32%N] ++ d5 ++ [32%N] ++ [fl])) by (unfold len in *; rewrite !app_length, Q10, Q5; reflexivity).
    apply sub_mid.
Qed.

Lemma not_ok_match {A B} (r : pres A) (f : A -> nat -> pres B) :
  not_ok r -> not_ok (match r with POk a c => f a c | PErr k c => PErr k c | PPanic => PPanic | PFuel => PFuel end).
Proof. intros N v c. destruct r; try discriminate. exfalso. eapply N. reflexivity. Qed.

Lemma xents_reject good : forall fuel obj cnt s c r,
  at_cur s c (render_ents good ++ r) -> Forall wf_ent good -> (N.of_nat (len good) < cnt)%N ->
  not_ok (xentp (obj + N.of_nat (len good)) s (c + 20 * len good)) ->
  not_ok (xents fuel obj cnt s c).
Proof.
  induction good as [|e good IH]; intros fuel obj cnt s c r H F B NO v c'.
  - cbn [len List.length] in *. replace (obj + N.of_nat 0)%N with obj in NO by lia.
    replace (c + 20 * 0) with c in NO by lia.
    destruct fuel as [|fuel]; cbn [xents]; destruct (N.eqb_spec cnt 0); try lia; try discriminate.
    destruct (N.leb usize_lim obj); [discriminate|].
    destruct (xentp obj s c) eqn:E; try discriminate. exfalso. eapply NO. reflexivity.
  - inversion F as [|? ? He Fl]; subst. rewrite render_ents_cons, <- app_assoc in H.
    cbn [len List.length] in *.
    destruct fuel as [|fuel]; cbn [xents]; destruct (N.eqb_spec cnt 0); try lia; try discriminate.
    destruct (N.leb usize_lim obj); [discriminate|].
    rewrite (xentp_render obj e s c _ He H). apply at_cur_app in H. rewrite (render_ent_len e He) in H.
    assert (Q : not_ok (xents fuel (obj + 1) (cnt - 1) s (c + 20))).
    { apply (IH fuel (obj + 1)%N (cnt - 1)%N s (c + 20) r H Fl); [unfold len; lia|].
      replace (obj + 1 + N.of_nat (len good))%N with (obj + N.of_nat (S (List.length good)))%N by (unfold len; lia).
      replace (c + 20 + 20 * len good) with (c + 20 * S (List.length good)) by (unfold len; lia). exact NO. }
    destruct (xents fuel (obj + 1) (cnt - 1) s (c + 20)) eqn:E; try discriminate. exfalso. eapply Q. reflexivity.
Qed.

Lemma xsubs_prefix t : forall fuel first s c tail,
  at_cur s c (render_table t ++ tail) -> wf_subs t tail ->
  xsubs (len t + fuel) first s c =
  match xsubs fuel (first && match t with [] => true | _ => false end) s (c + len (render_table t)) with
  | POk l c3 => POk (List.map sub_of t ++ l) c3
  | r => r
  end.
Proof.
  induction t as [|x t IH]; intros fuel first s c tail H W.
  - cbn [len List.length render_table List.map concat Nat.add app]. rewrite andb_true_r, Nat.add_0_r.
    destruct (xsubs fuel first s c); reflexivity.
  - destruct W as (Wx & NS & Wt). rewrite render_table_cons, <- app_assoc in H.
    cbn [len List.length Nat.add xsubs]. rewrite render_sub_hdr, <- app_assoc in H.
    rewrite (xsubhdr_ok x s c _ H Wx NS). apply at_cur_app in H.
    rewrite (xsubents_ok x s _ _ H Wx). apply at_cur_app in H.
    change (List.length t) with (len t). rewrite (IH fuel false s _ tail H Wt).
    rewrite andb_false_r. cbn [andb].
    replace (c + len (render_hdr x) + len (render_ents (ts_ents x)) + len (render_table t))
      with (c + len (render_table (x :: t)))
      by (rewrite render_table_cons, render_sub_hdr; unfold len; rewrite !app_length; lia).
    destruct (xsubs fuel false s (c + len (render_table (x :: t)))); reflexivity.
Qed.

(* C13_table_rejects: in ANY subsection (after any number of well-formed ones), once the header
   is accepted an entry that is not the fixed 20-byte form makes the whole section fail *)
Theorem xsectp_rejects junk pre eol t x good missing rest :
  all_in [32; 0; 9; 13; 10; 12]%N pre -> eol <> [] -> all_in [32; 0; 9; 13; 10; 12]%N eol ->
  let after := render_hdr x ++ render_ents good ++ rest in
  no_ws_start (render_table t ++ after) -> wf_subs t after ->
  wf_sub x -> ts_ents x = good ++ missing -> missing <> [] ->
  no_ws_start (render_ents good ++ rest) ->
  (forall e r, wf_ent e -> rest <> render_ent e ++ r) ->
  not_ok (xsectp (junk ++ pre ++ xref_kw ++ eol ++ render_table t ++ after) (len junk)).
Proof.
  intros Wp Ne We after NS Wt Wx Ex Nm NS2 Bad v c'.
  set (s := junk ++ pre ++ xref_kw ++ eol ++ render_table t ++ after).
  assert (H : at_cur s (len junk) (pre ++ xref_kw ++ eol ++ render_table t ++ after)) by apply at_cur_start.
  unfold xsectp.
  rewrite (ws_eol_ok true pre s _ _ H Wp eq_refl (or_introl eq_refl)). apply at_cur_app in H.
  rewrite (exact_at xref_kw s _ _ H). apply at_cur_app in H.
  rewrite (ws_eol_ok false eol s _ _ H We NS (or_intror Ne)). apply at_cur_app in H.
  pose proof (at_cur_len _ _ _ H) as SL. unfold len in SL. rewrite app_length in SL.
  pose proof (render_table_ge t after Wt) as TL.
  replace (S (len s)) with (len t + S (len s - len t)) by (unfold len in *; lia).
  rewrite (xsubs_prefix t _ true s _ after H Wt). apply at_cur_app in H.
  cbn [xsubs]. unfold after in H.
  rewrite (xsubhdr_ok x s _ _ H Wx NS2). apply at_cur_app in H.
  assert (Q : not_ok (xsubents (ts_start x) (ts_count x) s
                (len junk + len pre + len xref_kw + len eol + len (render_table t) + len (render_hdr x)))).
  { unfold xsubents. apply not_ok_match.
    destruct Wx as (_ & _ & _ & _ & _ & _ & _ & _ & _ & Fe). rewrite Ex in Fe. apply Forall_app in Fe as [Fg Fm].
    apply (xents_reject good _ _ _ s _ rest H Fg).
    - unfold ts_count. rewrite Ex. unfold len. rewrite app_length. destruct missing; [contradiction|]. cbn [List.length]. lia.
    - intros x0 c0 E. pose proof (at_cur_app _ _ _ _ H) as H2. rewrite (render_ents_len good Fg) in H2.
      destruct (xentp_strict _ _ _ _ _ (proj1 H2) E) as (e & r & We' & A & _ & _).
      apply (Bad e r We'). apply (at_cur_inj _ _ _ _ H2 A). }
  destruct (xsubents (ts_start x) (ts_count x) s _) eqn:E.
  - exfalso. eapply Q. reflexivity.
  - intro X. cbv iota in X. discriminate X.
  - intro X. cbv iota in X. discriminate X.
  - intro X. cbv iota in X. discriminate X.
Qed.
