(* Proofs/LoaderBytesSect.v — C03b: the header scan, the two backward scans + StartXrefP, and what the
   abstraction finds at the offset of a written cross-reference section (XrefSectP by C13 xsectp_ok, then
   scan("trailer") and TrailerP with ANY spelling of the trailer dictionary by C02 spelling_sound). *)
From PV Require Import Model.Obj Model.XrefTab Model.Loader Model.LoaderBytes Spec.Spelling Spec.XrefEnc Spec.RenderClassic.
From PV Require Import Proofs.PrimBase Proofs.XrefBase Proofs.XrefTab Proofs.ObjStream Proofs.ObjTok Proofs.PrimTok Proofs.ObjSpell Proofs.ObjC02
     Proofs.LoaderBytesBase Proofs.LoaderBytesObj.
From Coq Require Import Lia.

(* white space bytes only (no comments) *)
Definition plain_ws (w : bytes) : Prop := all_in [32; 0; 9; 13; 10; 12]%N w.

(* ---------- the header ---------- *)
Lemma comment_ok s c r : at_cur s c (37%N :: r) -> exists v c', comment s c = POk v c' /\ c' <= len s.
Proof.
  intros H. unfold comment. rewrite (XrefBase.peek_is_at _ _ _ _ _ H). cbn [N.eqb Pos.eqb negb].
  rewrite (XrefBase.incr_at _ _ _ _ _ H).
  destruct (peek_is s (S c + until comment_stop s (S c)) 10) eqn:P.
  - rewrite (incr_peek _ _ _ _ P). eexists _, _. split; [reflexivity|]. apply peek_is_lt in P. lia.
  - eexists _, _. split; [reflexivity|].
    unfold until. pose proof (at_cur_cons _ _ _ _ H) as [L E]. rewrite E.
    assert (B : forall p (l : bytes), span_n p l <= len l).
    { intros p l. induction l as [|x l IH]; cbn [span_n len List.length]; [lia|]. destruct (p x); unfold len in *; lia. }
    pose proof (B (fun b => negb (memb b comment_stop)) r). pose proof (at_cur_len _ _ _ H) as SL.
    cbn [len List.length] in SL. unfold len in *. lia.
Qed.

Theorem header_found s r : s = kw_pdf ++ r -> exists c', header_p s 0 = POk tt c'.
Proof.
  intros ->. assert (H : at_cur (kw_pdf ++ r) 0 (37%N :: [80; 68; 70; 45]%N ++ r)) by apply at_cur_0.
  destruct (comment_ok _ _ _ H) as (v & c1 & E & L). unfold header_p. rewrite E. cbn [bind].
  pose proof (comment_np _ _ L) as F. destruct (comment (kw_pdf ++ r) c1); try contradiction; eauto.
Qed.

Theorem magic_found g r : find_tag kw_pdf (g ++ kw_pdf) = Some (len g) ->
  scan kw_pdf (g ++ kw_pdf ++ r) 0 = POk (len g) (len g).
Proof. intros H. unfold scan. cbn [kw_pdf skipn]. fold kw_pdf. rewrite (find_tag_app kw_pdf g r H). reflexivity. Qed.

(* ---------- startxref ---------- *)
Lemma plain_ws_not b : In b [32; 0; 9; 13; 10; 12]%N -> b <> 115%N /\ b <> 37%N /\ is_digit b = false.
Proof. intros H. cbn in H. repeat (destruct H as [<-|H]; [repeat split; discriminate|]). contradiction. Qed.

Lemma plain_ws_forall (P : N -> Prop) w : plain_ws w -> (forall b, In b [32; 0; 9; 13; 10; 12]%N -> P b) -> Forall P w.
Proof.
  intros W H. eapply Forall_impl; [|exact W]. intros b Hb. apply H, memb_In, Hb.
Qed.

Lemma digits_not_s w n : Forall (fun b => b <> 115%N) (digits w n).
Proof.
  eapply Forall_impl; [|apply digits_all]. intros b Hb. unfold is_digit in Hb.
  apply andb_true_iff in Hb as [_ H2]. apply N.leb_le in H2. lia.
Qed.

Lemma plain_ws_stops_digit w x r : plain_ws w -> is_digit x = false -> stops_digit (w ++ x :: r).
Proof.
  intros W Hx. destruct w as [|y w]; [exact Hx|]. cbn [app stops_digit]. inversion W; subst.
  apply plain_ws_not, memb_In. assumption.
Qed.

Theorem startxref_found A seol w x eeol tail :
  plain_ws seol -> seol <> [] -> 1 <= w -> (x < 10 ^ N.of_nat w)%N -> (x < i64_lim)%N ->
  plain_ws eeol -> Forall (fun b => b <> 37%N) tail ->
  find_startxref (A ++ kw_startxref ++ seol ++ digits w x ++ eeol ++ kw_eof ++ tail) = Some x.
Proof.
  intros Ws Ns W1 X1 X2 We Nt.
  set (M := seol ++ digits w x ++ eeol).
  set (v := A ++ kw_startxref ++ seol ++ digits w x ++ eeol ++ kw_eof ++ tail).
  assert (Ev1 : v = (A ++ kw_startxref ++ M) ++ kw_eof ++ tail ++ []).
  { unfold v, M. rewrite app_nil_r, <- !app_assoc. reflexivity. }
  assert (Ev2 : v = A ++ kw_startxref ++ M ++ kw_eof ++ tail).
  { unfold v, M. rewrite <- !app_assoc. reflexivity. }
  assert (Lv : len v = len (A ++ kw_startxref ++ M) + len kw_eof + len tail).
  { rewrite Ev1, !len_app. cbn [len List.length]. lia. }
  unfold find_startxref.
  assert (B1 : bscan kw_eof v (len v) = Some (len (A ++ kw_startxref ++ M))).
  { rewrite Lv. rewrite Ev1 at 1. apply bscan_found; [discriminate|].
    intros k K1 K2. destruct k as [|[|j]]; [lia|reflexivity|].
    change (skipn (S (S j)) (kw_eof ++ tail)) with (skipn j ([69; 79; 70]%N ++ tail)).
    apply no_match_first. apply Forall_app. split; [repeat constructor; discriminate|exact Nt]. }
  rewrite B1.
  assert (B2 : bscan kw_startxref v (len (A ++ kw_startxref ++ M)) = Some (len A)).
  { rewrite !len_app, Nat.add_assoc. rewrite Ev2. apply bscan_found; [discriminate|].
    intros k K1 K2. destruct k as [|j]; [lia|].
    change (skipn (S j) (kw_startxref ++ M)) with (skipn j ([116; 97; 114; 116; 120; 114; 101; 102]%N ++ M)).
    apply no_match_first. apply Forall_app. split; [repeat constructor; discriminate|].
    unfold M. apply Forall_app. split; [|apply Forall_app; split].
    - apply (plain_ws_forall _ _ Ws). intros b Hb. apply plain_ws_not, Hb.
    - apply digits_not_s.
    - apply (plain_ws_forall _ _ We). intros b Hb. apply plain_ws_not, Hb. }
  rewrite B2.
  assert (H : at_cur v (len A) (kw_startxref ++ seol ++ digits w x ++ eeol ++ kw_eof ++ tail)) by apply at_cur_mid.
  unfold startxref_p. rewrite (XrefBase.exact_at kw_startxref _ _ _ H). apply at_cur_app in H.
  assert (NS : no_ws_start (digits w x ++ eeol ++ kw_eof ++ tail)).
  { destruct w as [|w']; [lia|]. destruct (digits_head w' x) as (d & dr & -> & Hd). cbn [app no_ws_start].
    unfold is_digit in Hd. apply andb_true_iff in Hd as [H1 H2]. apply N.leb_le in H1, H2.
    cbn [memb existsb].
    repeat match goal with |- context [N.eqb d ?k] => destruct (N.eqb_spec d k); [lia|] end. reflexivity. }
  rewrite (ws_eol_ok false seol v _ _ H Ws NS (or_intror Ns)). cbn [bind]. apply at_cur_app in H.
  rewrite (integer_ok w x v _ _ H W1 X1 X2) by (apply (plain_ws_stops_digit eeol 37%N); [exact We|reflexivity]).
  cbn [bind lv_val fst]. rewrite is_usize_of_N, N2Z.id. reflexivity.
Qed.

(* ---------- the trailer ---------- *)
(* DictP at a cursor where parse_pdf_obj (one level up) reads a dictionary *)
Lemma dict_p_of_parse_obj rel b s c body r td e :
  at_cur s c (60%N :: 60%N :: body ++ r) ->
  parse_obj rel (S b) s c = POk (ODict td, c, e) e ->
  dict_p (parse_obj rel b) s c = POk (ODict td) e.
Proof.
  intros H E. cbn [parse_obj] in E. unfold pdfobj_p in E.
  rewrite (ws_eol_none s c _ H) in E by (apply kw_ws_stop; [reflexivity|discriminate]). cbn [bind] in E.
  unfold parse_internal in E. rewrite (XrefBase.peek_at _ _ _ _ H) in E. cbn [N.eqb Pos.eqb orb] in E.
  rewrite (XrefBase.incr_at _ _ _ _ _ H) in E. rewrite (XrefBase.peek_at _ _ _ _ (at_cur_cons _ _ _ _ H)) in E.
  unfold setc in E. destruct (Nat.leb_spec c (len s)); [|pose proof (at_cur_le _ _ _ H); lia].
  destruct (dict_p (parse_obj rel b) s c) as [v' e'| | |]; cbn [bind] in E; try discriminate.
  injection E as -> ->. reflexivity.
Qed.

Lemma spells_dict_shape n td sp : spells' n (ODict td) sp -> exists body, sp = 60%N :: 60%N :: body ++ [62; 62]%N.
Proof.
  intros H. inversion H; subst; eauto.
  match goal with K : spells_num _ _ |- _ => inversion K end.
Qed.

(* the legal ways of writing the trailer for root [root] *)
Definition wf_trailer (root : oid) (tw tsp : bytes) : Prop :=
  ws tw /\ (Z.of_nat (len tsp) < 2147483000)%Z /\
  exists td, spells' 51 (ODict td) tsp /\
             dict_get td key_Root = Some (ORef (fst root) (snd root)) /\
             dict_usize td key_Prev = None /\ dict_usize td key_XRefStm = None.

Theorem trailer_found rel root s c tw tsp r :
  at_cur s c (kw_trailer ++ tw ++ tsp ++ r) -> wf_trailer root tw tsp ->
  exists nx, trailer_at rel s c = (Some (mktrailer (Some (ORef (fst root) (snd root))) None None), nx).
Proof.
  intros H (Wt & L & td & Sp & Rt & Pv & Xs).
  unfold trailer_at. rewrite (scan_here kw_trailer s c _ ltac:(discriminate) H).
  rewrite (XrefBase.exact_at kw_trailer _ _ _ H). apply at_cur_app in H.
  destruct (spells_first _ _ _ Sp r) as (x & t & Ex & St).
  assert (Sts : ws_stop (tsp ++ r)) by (rewrite Ex; apply starter_ws_stop, St).
  rewrite (ws_eol_at true tw s _ _ H Wt Sts (or_introl eq_refl)).
  apply at_cur_app in H.
  pose proof (parse_obj_at rel 51 (ODict td) tsp s _ r H Sp I L) as E.
  destruct (spells_dict_shape _ _ _ Sp) as (body & Eb). rewrite Eb in H. cbn [app] in H. rewrite <- app_assoc in H.
  rewrite (dict_p_of_parse_obj rel 50 s _ body _ td _ H E). rewrite Rt, Pv, Xs. eauto.
Qed.

(* ---------- the cross-reference section ---------- *)
Theorem item_at_table rel root junk pre eol t tw tsp r :
  wf_sect pre eol t (kw_trailer ++ tw ++ tsp ++ r) -> wf_trailer root tw tsp ->
  exists nx, item_at rel (junk ++ render_sect pre eol t ++ kw_trailer ++ tw ++ tsp ++ r) (len junk) =
             (IXSect (List.map conv_ent (flat_map (fun x => number ent_of (ts_start x) (ts_ents x)) t))
                     (Some (mktrailer (Some (ORef (fst root) (snd root))) None None)), nx).
Proof.
  intros Ws Wt. set (tl := kw_trailer ++ tw ++ tsp ++ r) in *.
  unfold item_at. rewrite (xsectp_ok junk pre eol t tl Ws).
  assert (H : at_cur (junk ++ render_sect pre eol t ++ tl) (len junk + len (render_sect pre eol t)) tl).
  { rewrite app_assoc, <- len_app. apply at_cur_mid. }
  destruct (trailer_found rel root _ _ tw tsp r H Wt) as (nx & E). rewrite E, xsectp_ents. eauto.
Qed.
