(* Proofs/TypeCheckEq.v — the boolean equalities of Model/TypeCheck.v decide Leibniz equality. *)
From PV Require Import Model.TypeCheck.
From Coq Require Import Lia.

Lemma bytes_eqb_refl s : bytes_eqb s s = true.
Proof. apply bytes_eqb_eq. reflexivity. Qed.

Lemma list_eqb_eq {A} (f : A -> A -> bool) :
  (forall x y, f x y = true <-> x = y) -> forall a b, list_eqb f a b = true <-> a = b.
Proof.
  intros Hf. induction a as [|x a IH]; intros [|y b]; simpl; split; intros H; try reflexivity; try discriminate.
  - apply andb_true_iff in H as [H1 H2]. apply Hf in H1. apply IH in H2. congruence.
  - inversion H; subst. apply andb_true_iff. split; [apply Hf; reflexivity | apply IH; reflexivity].
Qed.

Lemma obj_eqb_true : forall a b, obj_eqb a b = true -> a = b.
Proof.
  fix IH 1. intros a b. destruct a as [ | x | x | n d | s | s | s | n g | l | l | l c];
    destruct b as [ | y | y | n' d' | s' | s' | s' | n' g' | l' | l' | l' c']; simpl; try discriminate; intros H.
  - reflexivity.
  - apply Bool.eqb_prop in H. congruence.
  - apply Z.eqb_eq in H. congruence.
  - apply andb_true_iff in H as [H1 H2]. apply Z.eqb_eq in H1, H2. congruence.
  - apply bytes_eqb_eq in H. congruence.
  - apply bytes_eqb_eq in H. congruence.
  - apply bytes_eqb_eq in H. congruence.
  - apply andb_true_iff in H as [H1 H2]. apply N.eqb_eq in H1, H2. congruence.
  - f_equal. revert l' H. induction l as [|x r IHr]; intros [|y r'] H; try discriminate; [reflexivity|].
    apply andb_true_iff in H as [H1 H2]. f_equal; [apply IH; exact H1 | apply IHr; exact H2].
  - f_equal. revert l' H. induction l as [|[k x] r IHr]; intros [|[k' y] r'] H; try discriminate; [reflexivity|].
    apply andb_true_iff in H as [H1 H2]. apply andb_true_iff in H1 as [H0 H1]. apply bytes_eqb_eq in H0.
    f_equal; [f_equal; [exact H0 | apply IH; exact H1] | apply IHr; exact H2].
  - apply andb_true_iff in H as [H Hc]. apply bytes_eqb_eq in Hc. subst c'. f_equal.
    revert l' H. induction l as [|[k x] r IHr]; intros [|[k' y] r'] H; try discriminate; [reflexivity|].
    apply andb_true_iff in H as [H1 H2]. apply andb_true_iff in H1 as [H0 H1]. apply bytes_eqb_eq in H0.
    f_equal; [f_equal; [exact H0 | apply IH; exact H1] | apply IHr; exact H2].
Qed.

Lemma obj_eqb_refl : forall o, obj_eqb o o = true.
Proof.
  fix IH 1. intros [ | b | z | n d | s | s | s | n g | l | l | l c]; simpl;
    rewrite ?Bool.eqb_reflx, ?Z.eqb_refl, ?N.eqb_refl, ?bytes_eqb_refl; try reflexivity.
  - induction l as [|x r IHr]; [reflexivity|]. rewrite IH. exact IHr.
  - induction l as [|[k x] r IHr]; [reflexivity|]. rewrite bytes_eqb_refl, IH. exact IHr.
  - rewrite Bool.andb_true_r.
    induction l as [|[k x] r IHr]; [reflexivity|]. rewrite bytes_eqb_refl, IH. exact IHr.
Qed.

Lemma obj_eqb_eq a b : obj_eqb a b = true <-> a = b.
Proof. split; [apply obj_eqb_true | intros ->; apply obj_eqb_refl]. Qed.

Lemma kspec_eqb_eq a b : kspec_eqb a b = true <-> a = b.
Proof. destruct a, b; simpl; split; intros H; try reflexivity; try discriminate. Qed.
Lemma ispec_eqb_eq a b : ispec_eqb a b = true <-> a = b.
Proof. destruct a, b; simpl; split; intros H; try reflexivity; try discriminate. Qed.
Lemma prim_eqb_eq a b : prim_eqb a b = true <-> a = b.
Proof. destruct a, b; simpl; split; intros H; try reflexivity; try discriminate. Qed.
Lemma onat_eqb_eq a b : onat_eqb a b = true <-> a = b.
Proof.
  destruct a, b; simpl; split; intros H; try reflexivity; try discriminate.
  - apply Nat.eqb_eq in H. congruence.
  - inversion H. apply Nat.eqb_refl.
Qed.
Lemma pred_eqb_eq a b : pred_eqb a b = true <-> a = b.
Proof.
  destruct a, b; simpl; split; intros H; try reflexivity; try discriminate.
  - apply (list_eqb_eq bytes_eqb bytes_eqb_eq) in H. congruence.
  - inversion H. apply (list_eqb_eq bytes_eqb bytes_eqb_eq). reflexivity.
  - apply (list_eqb_eq Z.eqb Z.eqb_eq) in H. congruence.
  - inversion H. apply (list_eqb_eq Z.eqb Z.eqb_eq). reflexivity.
  - apply Nat.eqb_eq in H. congruence.
  - inversion H. apply Nat.eqb_refl.
  - apply N.eqb_eq in H. congruence.
  - inversion H. apply N.eqb_refl.
Qed.
Lemma opred_eqb_eq a b : opred_eqb a b = true <-> a = b.
Proof.
  destruct a, b; simpl; split; intros H; try reflexivity; try discriminate.
  - apply pred_eqb_eq in H. congruence.
  - inversion H. apply pred_eqb_eq. reflexivity.
Qed.

Lemma chk_eqb_true : forall a b, chk_eqb a b = true -> a = b.
Proof.
  fix IH 1. intros a b. destruct a as [t p i | n]; destruct b as [t' p' i' | n']; simpl; try discriminate; intros H.
  2:{ apply bytes_eqb_eq in H. congruence. }
  apply andb_true_iff in H as [H Hp]. apply andb_true_iff in H as [Ht Hi].
  apply opred_eqb_eq in Hp. apply ispec_eqb_eq in Hi. subst p' i'. f_equal.
  destruct t as [ | q | e sz | es | ents star | ents | alts];
    destruct t' as [ | q' | e' sz' | es' | ents' star' | ents' | alts']; simpl in Ht; try discriminate.
  - reflexivity.
  - apply prim_eqb_eq in Ht. congruence.
  - apply andb_true_iff in Ht as [H1 H2]. apply onat_eqb_eq in H2. apply IH in H1. congruence.
  - f_equal. revert es' Ht. induction es as [|x r IHr]; intros [|y r'] H; try discriminate; [reflexivity|].
    apply andb_true_iff in H as [H1 H2]. f_equal; [apply IH; exact H1 | apply IHr; exact H2].
  - apply andb_true_iff in Ht as [H1 H2]. f_equal.
    + revert ents' H1. induction ents as [|[k c o] r IHr]; intros [|[k' c' o'] r'] H; try discriminate; [reflexivity|].
      apply andb_true_iff in H as [Ha Hb]. simpl in Ha.
      apply andb_true_iff in Ha as [Ha Ho]. apply andb_true_iff in Ha as [Hk Hc].
      apply bytes_eqb_eq in Hk. apply kspec_eqb_eq in Ho. apply IH in Hc. subst.
      f_equal. apply IHr. exact Hb.
    + destruct star as [[c o]|], star' as [[c' o']|]; try discriminate; [|reflexivity].
      apply andb_true_iff in H2 as [Hc Ho]. apply kspec_eqb_eq in Ho. apply IH in Hc. congruence.
  - f_equal. revert ents' Ht. induction ents as [|[k c o] r IHr]; intros [|[k' c' o'] r'] H; try discriminate; [reflexivity|].
    apply andb_true_iff in H as [Ha Hb]. simpl in Ha.
    apply andb_true_iff in Ha as [Ha Ho]. apply andb_true_iff in Ha as [Hk Hc].
    apply bytes_eqb_eq in Hk. apply kspec_eqb_eq in Ho. apply IH in Hc. subst.
    f_equal. apply IHr. exact Hb.
  - f_equal. revert alts' Ht. induction alts as [|x r IHr]; intros [|y r'] H; try discriminate; [reflexivity|].
    apply andb_true_iff in H as [H1 H2]. f_equal; [apply IH; exact H1 | apply IHr; exact H2].
Qed.

Lemma chk_eqb_refl : forall c, chk_eqb c c = true.
Proof.
  fix IH 1. intros [t p i | n]; [|apply bytes_eqb_refl].
  simpl. replace (ispec_eqb i i) with true by (symmetry; apply ispec_eqb_eq; reflexivity).
  replace (opred_eqb p p) with true by (symmetry; apply opred_eqb_eq; reflexivity).
  rewrite !Bool.andb_true_r.
  destruct t as [ | p' | e sz | es | ents star | ents | alts]; simpl.
  - reflexivity.
  - apply prim_eqb_eq. reflexivity.
  - rewrite IH. simpl. apply onat_eqb_eq. reflexivity.
  - induction es as [|x r IHr]; [reflexivity|]. rewrite IH. exact IHr.
  - apply andb_true_intro; split.
    + induction ents as [|[k c o] r IHr]; [reflexivity|].
      simpl. rewrite bytes_eqb_refl, IH. replace (kspec_eqb o o) with true by (symmetry; apply kspec_eqb_eq; reflexivity). exact IHr.
    + destruct star as [[c o]|]; [|reflexivity]. rewrite IH. apply kspec_eqb_eq. reflexivity.
  - induction ents as [|[k c o] r IHr]; [reflexivity|].
    simpl. rewrite bytes_eqb_refl, IH. replace (kspec_eqb o o) with true by (symmetry; apply kspec_eqb_eq; reflexivity). exact IHr.
  - induction alts as [|x r IHr]; [reflexivity|]. rewrite IH. exact IHr.
Qed.

Lemma chk_eqb_eq a b : chk_eqb a b = true <-> a = b.
Proof. split; [apply chk_eqb_true | intros ->; apply chk_eqb_refl]. Qed.

Lemma pend_eqb_eq a b : pend_eqb a b = true <-> a = b.
Proof.
  unfold pend_eqb. destruct a as [o c], b as [o' c']. simpl. split.
  - intros H. apply andb_true_iff in H as [H1 H2]. apply obj_eqb_eq in H1. apply chk_eqb_eq in H2. congruence.
  - intros H. inversion H. subst. apply andb_true_iff. split; [apply obj_eqb_refl | apply chk_eqb_refl].
Qed.

Lemma pend_eqb_refl p : pend_eqb p p = true.
Proof. apply pend_eqb_eq. reflexivity. Qed.

(* membership in the memo is list membership *)
Lemma have_examined_in ex p : have_examined ex p = true <-> In p ex.
Proof.
  unfold have_examined. rewrite existsb_exists. split.
  - intros (x & Hx & E). apply pend_eqb_eq in E. subst. exact Hx.
  - intros H. exists p. split; [exact H | apply pend_eqb_refl].
Qed.

Lemma have_examined_not_in ex p : have_examined ex p = false <-> ~ In p ex.
Proof.
  split.
  - intros H Hin. apply have_examined_in in Hin. congruence.
  - intros H. destruct (have_examined ex p) eqn:E; [|reflexivity]. apply have_examined_in in E. contradiction.
Qed.
