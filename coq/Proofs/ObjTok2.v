(* Proofs/ObjTok2.v — C02, token level (continued): names with #-escapes, hexadecimal strings,
   keywords, references. *)
From PV Require Import Model.Obj Spec.Spelling Proofs.PrimBase Proofs.PrimTok Proofs.PrimWs Proofs.PrimLit Proofs.PrimExtra
     Proofs.ObjDepth Proofs.ObjStream Proofs.ObjTok Proofs.ObjNum.
From Coq Require Import Lia ZifyBool ZifyN.

(* ------------------------------------------------------------------ hex digits: Spec vs Model *)
Lemma hexb_is_hex b : hexb b = is_hex_b b.
Proof. reflexivity. Qed.

Lemma hexb_cases b : hexb b = true -> (48 <= b <= 57)%N \/ (97 <= b <= 102)%N \/ (65 <= b <= 70)%N.
Proof. unfold hexb. lia. Qed.

Lemma hex_not_stop b : hexb b = true -> memb b name_stops = false.
Proof.
  intros H. destruct (memb b name_stops) eqn:E; [|reflexivity]. apply memb_In in E. vm_compute in E.
  apply hexb_cases in H. repeat (destruct E as [<-|E]; [lia|]). contradiction.
Qed.

Lemma from_hex_hexval b : hexb b = true -> from_hex (to_lower b) = hexval b.
Proof.
  intros H. apply hexb_cases in H. unfold from_hex, to_lower, hexval, is_digit_b.
  destruct H as [H|[H|H]].
  - replace ((65 <=? b) && (b <=? 90))%N with false by lia.
    replace ((48 <=? b) && (b <=? 57))%N with true by lia. reflexivity.
  - replace ((65 <=? b) && (b <=? 90))%N with false by lia.
    replace ((48 <=? b) && (b <=? 57))%N with false by lia.
    replace ((97 <=? b) && (b <=? 102))%N with true by lia. lia.
  - replace ((65 <=? b) && (b <=? 90))%N with true by lia.
    replace ((48 <=? b + 32) && (b + 32 <=? 57))%N with false by lia.
    replace ((48 <=? b) && (b <=? 57))%N with false by lia.
    replace ((97 <=? b) && (b <=? 102))%N with false by lia. lia.
Qed.

Lemma hex_code_hexval h1 h2 : hexb h1 = true -> hexb h2 = true -> hex_code h1 h2 = (16 * hexval h1 + hexval h2)%N.
Proof. intros H1 H2. unfold hex_code. rewrite !from_hex_hexval by assumption. reflexivity. Qed.

Lemma int_of_hex_hexval b : hexb b = true -> int_of_hex b = Some (hexval b).
Proof.
  intros H. unfold int_of_hex. change (is_hex_b b) with (hexb b). rewrite H. cbn [negb].
  apply hexb_cases in H. unfold is_digit_b, hexval.
  destruct H as [H|[H|H]].
  - replace ((48 <=? b) && (b <=? 57))%N with true by lia. reflexivity.
  - replace ((48 <=? b) && (b <=? 57))%N with false by lia.
    replace ((97 <=? b) && (b <=? 102))%N with true by lia. f_equal. lia.
  - replace ((48 <=? b) && (b <=? 57))%N with false by lia.
    replace ((97 <=? b) && (b <=? 102))%N with false by lia. f_equal. lia.
Qed.

(* ------------------------------------------------------------------ names *)
Lemma name_enc_nonstop bs enc : name_enc bs enc -> Forall (fun b => memb b name_stops = false) enc.
Proof.
  induction 1; [constructor|constructor; assumption|].
  constructor; [reflexivity|]. constructor; [apply hex_not_stop; assumption|].
  constructor; [apply hex_not_stop; assumption|assumption].
Qed.

Lemma name_enc_short bs enc : name_enc bs enc -> len enc < 3 -> bs = enc.
Proof.
  induction 1 as [|b bs enc Hb Ha _ IH|]; intros Hl; [reflexivity| |unfold len in Hl; cbn in Hl; lia].
  f_equal. apply IH. unfold len in *. cbn in Hl. lia.
Qed.

Lemma simple_dec_enc bs enc : name_enc bs enc -> forall f, len enc <= f -> simple_dec f enc = Some bs.
Proof.
  induction 1 as [|b bs enc Hb Ha He IH|b h1 h2 bs enc H1 H2 Hv Hz He IH]; intros f Hf.
  - destruct f; reflexivity.
  - destruct f as [|f]; [unfold len in Hf; cbn in Hf; lia|].
    destruct enc as [|x [|y r]].
    + inversion He; subst. reflexivity.
    + apply name_enc_short in He; [subst bs|unfold len; cbn; lia]. reflexivity.
    + rewrite simple_dec_cons.
      replace (N.eqb b 35 && is_hex_b x && is_hex_b y)%bool with false.
      2:{ symmetry. destruct (N.eqb_spec b 35) as [->|]; [|reflexivity]. cbn [andb].
          destruct (is_hex_b x) eqn:Ex; [|reflexivity]. destruct (is_hex_b y) eqn:Ey; [|reflexivity].
          exfalso. apply Ha. split; [reflexivity|]. split; assumption. }
      rewrite IH by (unfold len in *; cbn in *; lia). reflexivity.
  - destruct f as [|f]; [unfold len in Hf; cbn in Hf; lia|].
    rewrite simple_dec_cons. change (is_hex_b h1) with (hexb h1). change (is_hex_b h2) with (hexb h2).
    rewrite H1, H2. cbn [N.eqb Pos.eqb andb].
    rewrite hex_code_hexval by assumption. rewrite <- Hv.
    destruct (N.eqb_spec b 0); [contradiction|].
    rewrite IH by (unfold len in *; cbn in *; lia). reflexivity.
Qed.

Theorem name_spec bs enc pre rest :
  name_enc bs enc -> term_stop rest ->
  name (pre ++ (47%N :: enc) ++ rest) (len pre) =
  POk (bs, len pre, len pre + S (len enc)) (len pre + S (len enc)).
Proof.
  intros He Hr. unfold name. cbn [app]. rewrite peek_is_at. cbn [N.eqb Pos.eqb negb].
  rewrite incr_ok by (rewrite len_app; cbn; lia).
  replace (pre ++ 47%N :: enc ++ rest) with ((pre ++ [47%N]) ++ enc ++ rest) by (rewrite <- app_assoc; reflexivity).
  rewrite <- len_snoc with (x := 47%N).
  rewrite (until_run name_stops _ enc rest (name_enc_nonstop _ _ He)).
  2:{ destruct rest; [exact I|exact Hr]. }
  rewrite sub_at, name_decode_is_simple. unfold simple_decode. rewrite (simple_dec_enc _ _ He) by lia.
  rewrite len_snoc. replace (S (len pre) + len enc) with (len pre + S (len enc)) by lia. reflexivity.
Qed.

(* ------------------------------------------------------------------ hexadecimal strings *)
Lemma hexws_in_set b : hexws b = true -> memb b hexws_set = true /\ memb b hex_ws = true.
Proof.
  unfold hexws. intros H. apply memb_In in H. vm_compute in H.
  repeat (destruct H as [<-|H]; [split; reflexivity|]). contradiction.
Qed.

Lemma hexb_in_set b : hexb b = true -> memb b hexws_set = true /\ memb b hex_ws = false.
Proof.
  intros H. split.
  - apply hexb_cases in H. unfold hexws_set, memb. cbn [existsb].
    assert (E : forall k, N.eqb b k = true <-> b = k) by (intros; apply N.eqb_eq).
    destruct H as [H|[H|H]].
    + assert (b = 48 \/ b = 49 \/ b = 50 \/ b = 51 \/ b = 52 \/ b = 53 \/ b = 54 \/ b = 55 \/ b = 56 \/ b = 57)%N by lia.
      repeat (destruct H0 as [->|H0]; [reflexivity|]). subst; reflexivity.
    + assert (b = 97 \/ b = 98 \/ b = 99 \/ b = 100 \/ b = 101 \/ b = 102)%N by lia.
      repeat (destruct H0 as [->|H0]; [reflexivity|]). subst; reflexivity.
    + assert (b = 65 \/ b = 66 \/ b = 67 \/ b = 68 \/ b = 69 \/ b = 70)%N by lia.
      repeat (destruct H0 as [->|H0]; [reflexivity|]). subst; reflexivity.
  - destruct (memb b hex_ws) eqn:E; [|reflexivity]. apply memb_In in E. vm_compute in E.
    apply hexb_cases in H. repeat (destruct E as [<-|E]; [lia|]). contradiction.
Qed.

Definition hexfilter (l : bytes) : bytes := filter (fun b => negb (memb b hex_ws)) l.

Lemma hexfilter_gap g : hex_gap g -> hexfilter g = [] /\ Forall (fun b => memb b hexws_set = true) g.
Proof.
  induction 1 as [|b r Hb _ [IH1 IH2]]; [split; [reflexivity|constructor]|].
  destruct (hexws_in_set _ Hb) as [A B]. unfold hexfilter in *. cbn [filter]. rewrite B. cbn [negb].
  split; [assumption|constructor; assumption].
Qed.

Lemma hexfilter_app a b : hexfilter (a ++ b) = hexfilter a ++ hexfilter b.
Proof. apply filter_app. Qed.

Lemma hexfilter_digit h r : hexb h = true -> hexfilter (h :: r) = h :: hexfilter r.
Proof. intros H. destruct (hexb_in_set _ H) as [_ B]. unfold hexfilter. cbn [filter]. rewrite B. reflexivity. Qed.

Lemma mod2_SS n : Nat.modulo (S (S n)) 2 = Nat.modulo n 2.
Proof. replace (S (S n)) with (n + 1 * 2) by lia. apply Nat.mod_add. lia. Qed.

Lemma hex_enc_value bs body : hex_enc bs body ->
  Forall (fun b => memb b hexws_set = true) body /\ hex_value body = Some bs.
Proof.
  unfold hex_value. fold (hexfilter body).
  induction 1 as [g Hg|g1 h g2 Hg1 Hh Hg2|g1 h1 g2 h2 bs body Hg1 Hh1 Hg2 Hh2 _ [IH1 IH2]].
  - destruct (hexfilter_gap _ Hg) as [-> F]. split; [assumption|reflexivity].
  - destruct (hexfilter_gap _ Hg1) as [E1 F1]. destruct (hexfilter_gap _ Hg2) as [E2 F2].
    split.
    + apply Forall_app. split; [assumption|]. constructor; [apply hexb_in_set; assumption|assumption].
    + rewrite hexfilter_app, E1, hexfilter_digit, E2 by assumption. cbn [app len length Nat.modulo Nat.divmod fst snd Nat.eqb].
      cbn. rewrite int_of_hex_hexval by assumption. cbn. rewrite N.add_0_r. reflexivity.
  - destruct (hexfilter_gap _ Hg1) as [E1 F1]. destruct (hexfilter_gap _ Hg2) as [E2 F2].
    split.
    + apply Forall_app. split; [assumption|]. constructor; [apply hexb_in_set; assumption|].
      apply Forall_app. split; [assumption|]. constructor; [apply hexb_in_set; assumption|assumption].
    + rewrite hexfilter_app, E1, hexfilter_digit by assumption. rewrite hexfilter_app, E2, hexfilter_digit by assumption.
      cbn [app]. unfold len in *. cbn [length]. rewrite mod2_SS.
      destruct (Nat.eqb (Nat.modulo (length (hexfilter body)) 2) 0).
      * cbn [hex_pairs]. rewrite !int_of_hex_hexval by assumption. rewrite IH2. reflexivity.
      * cbn [app hex_pairs]. rewrite !int_of_hex_hexval by assumption. rewrite IH2. reflexivity.
Qed.

Theorem hexstring_spec bs body pre rest :
  hex_enc bs body ->
  hexstring (pre ++ (60%N :: body ++ [62%N]) ++ rest) (len pre) =
  POk (bs, len pre, len pre + len body + 2) (len pre + len body + 2).
Proof.
  intros He. destruct (hex_enc_value _ _ He) as [Hf Hv].
  unfold hexstring. cbn [app]. rewrite peek_is_at. cbn [N.eqb Pos.eqb negb].
  rewrite incr_ok by (rewrite len_app; cbn; lia).
  replace (pre ++ 60%N :: (body ++ [62%N]) ++ rest) with ((pre ++ [60%N]) ++ body ++ 62%N :: rest)
    by (rewrite <- !app_assoc; reflexivity).
  rewrite <- len_snoc with (x := 60%N).
  rewrite (allowed_run hexws_set _ body (62%N :: rest) Hf) by reflexivity.
  replace ((pre ++ [60%N]) ++ body ++ 62%N :: rest) with (((pre ++ [60%N]) ++ body) ++ 62%N :: rest)
    by (rewrite <- !app_assoc; reflexivity).
  replace (len (pre ++ [60%N]) + len body) with (len ((pre ++ [60%N]) ++ body)) by (rewrite len_app; reflexivity).
  rewrite peek_is_at. cbn [N.eqb Pos.eqb negb].
  rewrite incr_ok by (rewrite !len_app; cbn; lia).
  replace (sub (((pre ++ [60%N]) ++ body) ++ 62%N :: rest) (len (pre ++ [60%N])) (len ((pre ++ [60%N]) ++ body))) with body.
  2:{ rewrite <- app_assoc. rewrite (len_app (pre ++ [60%N]) body). rewrite sub_at. reflexivity. }
  rewrite Hv. rewrite !len_app. cbn [len length]. unfold len.
  replace (S (length pre + 1 + length body)) with (length pre + length body + 2) by lia. reflexivity.
Qed.

(* ------------------------------------------------------------------ keywords *)
Theorem boolean_spec_true pre rest : boolean (pre ++ kw_true ++ rest) (len pre) = POk (true, len pre, len pre + 4) (len pre + 4).
Proof. unfold boolean. rewrite exact_at. reflexivity. Qed.

Theorem boolean_spec_false pre rest : boolean (pre ++ kw_false ++ rest) (len pre) = POk (false, len pre, len pre + 5) (len pre + 5).
Proof.
  unfold boolean. replace (exact kw_true (pre ++ kw_false ++ rest) (len pre)) with (@None nat).
  - rewrite exact_at. reflexivity.
  - unfold exact. replace (len pre) with (len pre + 0) by lia. rewrite skipn_app_len. reflexivity.
Qed.

Theorem null_spec pre rest : null (pre ++ kw_null ++ rest) (len pre) = POk (tt, len pre, len pre + 4) (len pre + 4).
Proof. unfold null. rewrite exact_at. reflexivity. Qed.
