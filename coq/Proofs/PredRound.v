(* Proofs/PredRound.v — C07, reversal: the predictor stage of Model/Pred.v applied to rows filtered by
   the specification's forward filters (Spec/Png.v) returns the original rows. *)
From PV Require Import Model.Pred Spec.Png Proofs.PredLoop.
From Coq Require Import ZifyBool ZifyNat ZifyN.
Ltac Zify.zify_post_hook ::= Z.div_mod_to_equations.

Lemma at_map_seq (f : nat -> N) n i : i < n -> at_ (List.map f (seq 0 n)) i = f i.
Proof.
  intros H. unfold at_. rewrite (nth_indep _ 0%N (f 0)) by (rewrite map_length, seq_length; lia).
  rewrite map_nth. rewrite seq_nth by lia. reflexivity.
Qed.

Lemma filter_row_length ft bpp prev cur : List.length (filter_row ft bpp prev cur) = List.length cur.
Proof. unfold filter_row. rewrite map_length, seq_length. reflexivity. Qed.

(* ---------- one PNG row ---------- *)
Section PngRow.
  Variables (ft : N) (bpp : nat) (dprev sprev cur : list N).
  Let rl := S (List.length cur).
  Let t := ft :: cur.
  Let row0 := ft :: filter_row ft bpp sprev cur.
  Hypothesis Hbpp1 : 1 <= bpp.
  Hypothesis Hbpp : bpp < rl.
  Hypothesis Hdl : List.length dprev = rl.
  Hypothesis Hrel : forall i, at_ dprev (S i) = at_ sprev i.
  Hypothesis Hcur : bytes_ok cur.
  Hypothesis Hsp : bytes_ok sprev.

  (* the decoder's view of "left" and "upper left" at row index j (tag at 0) *)
  Definition Lt (j : nat) : N := if j <=? bpp then 0%N else at_ t (j - bpp).
  Definition Lp (j : nat) : N := if j <=? bpp then 0%N else at_ dprev (j - bpp).

  Lemma Hlen : List.length t = List.length row0.
  Proof. unfold t, row0. cbn [List.length]. rewrite filter_row_length. reflexivity. Qed.

  Lemma t_len : List.length t = rl.
  Proof. reflexivity. Qed.

  Lemma at_row0 j : 1 <= j < rl ->
    at_ row0 j = ((at_ t j + 256 - predict ft (Lt j) (at_ dprev j) (Lp j)) mod 256)%N.
  Proof.
    intros Hj. destruct j as [|i]; [lia|]. unfold row0, t. rewrite !at_cons.
    unfold filter_row. rewrite at_map_seq by (unfold rl in Hj; lia).
    rewrite Hrel. unfold Lt, Lp, left.
    destruct (Nat.ltb_spec i bpp) as [L|G]; destruct (Nat.leb_spec (S i) bpp) as [L'|G']; try lia; try reflexivity.
    replace (S i - bpp) with (S (i - bpp)) by lia. unfold t. rewrite at_cons, Hrel. reflexivity.
  Qed.

  Lemma t_lt j : 1 <= j -> (at_ t j < 256)%N.
  Proof. intros H. destruct j; [lia|]. unfold t. rewrite at_cons. apply at_lt, Hcur. Qed.
  Lemma dprev_lt j : 1 <= j -> (at_ dprev j < 256)%N.
  Proof. intros H. destruct j; [lia|]. rewrite Hrel. apply at_lt, Hsp. Qed.
  Lemma Lt_lt j : (Lt j < 256)%N.
  Proof. unfold Lt. destruct (Nat.leb_spec j bpp); [lia|]. apply t_lt. lia. Qed.
  Lemma Lp_lt j : (Lp j < 256)%N.
  Proof. unfold Lp. destruct (Nat.leb_spec j bpp); [lia|]. apply dprev_lt. lia. Qed.

  Lemma dec_step j : 1 <= j < rl ->
    wadd (at_ row0 j) (predict ft (Lt j) (at_ dprev j) (Lp j)) = at_ t j.
  Proof.
    intros Hj. rewrite at_row0 by exact Hj. apply unfilt.
    - apply t_lt; lia.
    - apply predict_lt; [apply Lt_lt | apply dprev_lt; lia | apply Lp_lt].
  Qed.

  Lemma mix1 : mix t row0 1 = row0.
  Proof. reflexivity. Qed.

  Lemma mixrl : mix t row0 rl = t.
  Proof. rewrite <- t_len. apply mix_all, Hlen. Qed.

  Lemma row0_eq_upto k :
    (forall j, 1 <= j < k -> predict ft (Lt j) (at_ dprev j) (Lp j) = 0%N) ->
    forall i, i < k -> i < rl -> at_ row0 i = at_ t i.
  Proof.
    intros H i Hi Hr. destruct i as [|i]; [reflexivity|].
    rewrite at_row0 by lia. rewrite H by lia.
    assert (at_ t (S i) < 256)%N by (apply t_lt; lia). lia.
  Qed.

  (* None *)
  Lemma png_row_none : ft = 0%N -> png_row 10 rl bpp dprev row0 = ROk t.
  Proof.
    intros F. unfold png_row. change (get row0 0) with (Some ft). rewrite F. cbn [N.eqb Pos.eqb].
    f_equal. symmetry. apply list_ext; [apply Hlen|].
    intros i Hi. change (i < rl) in Hi. symmetry. apply (row0_eq_upto rl); [|lia|exact Hi].
    intros j Hj. rewrite F. reflexivity.
  Qed.

  (* Sub *)
  Lemma png_row_sub : ft = 1%N -> png_row 11 rl bpp dprev row0 = ROk t.
  Proof.
    intros F. unfold png_row. change (get row0 0) with (Some ft). rewrite F. cbn [N.eqb Pos.eqb negb].
    assert (E : mix t row0 (1 + bpp) = row0).
    { apply mix_start; [apply Hlen | rewrite t_len; lia |].
      intros i Hi. apply (row0_eq_upto (1 + bpp)); [|exact Hi|lia].
      intros j Hj. rewrite F. unfold predict, Lt. destruct (Nat.leb_spec j bpp); [reflexivity|lia]. }
    rewrite <- E at 1. rewrite (for_inv (mix t row0)); [rewrite mixrl; reflexivity | lia |].
    intros j Hj. unfold body_sub.
    rewrite (mix_get_hi _ _ Hlen) by (rewrite ?t_len; lia).
    rewrite (mix_get_lo _ _ Hlen) by (rewrite ?t_len; lia). cbn [bind].
    apply (mix_set _ _ Hlen); [rewrite t_len; lia|].
    rewrite <- (dec_step j) by lia. rewrite F. unfold predict, Lt.
    destruct (Nat.leb_spec j bpp); [lia|reflexivity].
  Qed.

  (* Up *)
  Lemma png_row_up : ft = 2%N -> png_row 12 rl bpp dprev row0 = ROk t.
  Proof.
    intros F. unfold png_row. change (get row0 0) with (Some ft). rewrite F. cbn [N.eqb Pos.eqb negb].
    rewrite <- mix1 at 1. rewrite (for_inv (mix t row0)); [rewrite mixrl; reflexivity | unfold rl; lia |].
    intros j Hj. unfold body_up.
    rewrite (mix_get_hi _ _ Hlen) by (rewrite ?t_len; lia).
    rewrite get_lt by lia. cbn [bind].
    apply (mix_set _ _ Hlen); [rewrite t_len; lia|].
    rewrite <- (dec_step j) by lia. rewrite F. reflexivity.
  Qed.

  (* Average *)
  Lemma png_row_avg : ft = 3%N -> png_row 13 rl bpp dprev row0 = ROk t.
  Proof.
    intros F. unfold png_row. change (get row0 0) with (Some ft). rewrite F. cbn [N.eqb Pos.eqb negb].
    rewrite <- mix1 at 1. rewrite (for_inv (mix t row0)); [cbn [bind] | lia |].
    - rewrite (for_inv (mix t row0)); [rewrite mixrl; reflexivity | lia |].
      intros j Hj. unfold body_avg.
      rewrite (mix_get_lo _ _ Hlen) by (rewrite ?t_len; lia).
      rewrite get_lt by lia.
      rewrite (mix_get_hi _ _ Hlen) by (rewrite ?t_len; lia). cbn [bind].
      apply (mix_set _ _ Hlen); [rewrite t_len; lia|].
      rewrite <- (dec_step j) by lia. rewrite F. unfold predict, Lt.
      destruct (Nat.leb_spec j bpp); [lia|].
      assert (at_ t (j - bpp) < 256)%N by (apply t_lt; lia).
      assert (at_ dprev j < 256)%N by (apply dprev_lt; lia).
      f_equal. lia.
    - intros j Hj. unfold body_avg0.
      rewrite (mix_get_hi _ _ Hlen) by (rewrite ?t_len; lia).
      rewrite get_lt by lia. cbn [bind].
      apply (mix_set _ _ Hlen); [rewrite t_len; lia|].
      rewrite <- (dec_step j) by lia. rewrite F. unfold predict, Lt.
      destruct (Nat.leb_spec j bpp); [|lia]. reflexivity.
  Qed.

  (* Paeth: loop state (row, a, c) *)
  Definition Ipaeth (j : nat) : list N * N * N :=
    (mix t row0 j, if j <=? S bpp then 0%N else at_ t (j - 1 - bpp), if j <=? S bpp then 0%N else at_ dprev (j - 1 - bpp)).

  Lemma png_row_paeth : ft = 4%N -> png_row 14 rl bpp dprev row0 = ROk t.
  Proof.
    intros F. unfold png_row. change (get row0 0) with (Some ft). rewrite F. cbn [N.eqb Pos.eqb negb].
    change (row0, 0%N, 0%N) with (Ipaeth 1).
    rewrite (for_inv Ipaeth); [unfold Ipaeth; rewrite mixrl; reflexivity | unfold rl; lia |].
    intros j Hj. unfold body_paeth, Ipaeth.
    rewrite get_lt by lia. cbn [bind].
    assert (V : wadd (at_ row0 j) (paeth_i (Lt j) (at_ dprev j) (Lp j)) = at_ t j).
    { rewrite <- (dec_step j) by lia. rewrite F. unfold predict. rewrite paeth_i_spec. reflexivity. }
    assert (Hjt : j < List.length t) by (change (j < rl); lia).
    destruct (Nat.ltb_spec bpp j) as [G|L].
    - rewrite (mix_get_lo _ _ Hlen) by (rewrite ?t_len; lia).
      rewrite get_lt by lia. cbn [bind fst snd].
      rewrite (mix_get_hi _ _ Hlen) by (rewrite ?t_len; lia). cbn [bind].
      unfold Lt, Lp in V. destruct (Nat.leb_spec j bpp); [lia|].
      rewrite (mix_set _ _ Hlen _ _ Hjt V). cbn [bind].
      destruct (Nat.leb_spec (S j) (S bpp)); [lia|].
      replace (S j - 1 - bpp) with (j - bpp) by lia. reflexivity.
    - destruct (Nat.leb_spec j (S bpp)); [|lia]. cbn [bind fst snd].
      rewrite (mix_get_hi _ _ Hlen) by (rewrite ?t_len; lia). cbn [bind].
      unfold Lt, Lp in V. destruct (Nat.leb_spec j bpp); [|lia].
      rewrite (mix_set _ _ Hlen _ _ Hjt V). cbn [bind].
      destruct (Nat.leb_spec (S j) (S bpp)); [|lia]. reflexivity.
  Qed.

  Lemma png_row_round : (ft <= 4)%N -> png_row (10 + ft) rl bpp dprev row0 = ROk t.
  Proof.
    intros H.
    assert (C : (ft = 0 \/ ft = 1 \/ ft = 2 \/ ft = 3 \/ ft = 4)%N) by lia.
    destruct C as [F|[F|[F|[F|F]]]]; rewrite F at 1.
    - apply png_row_none, F.
    - apply png_row_sub, F.
    - apply png_row_up, F.
    - apply png_row_avg, F.
    - apply png_row_paeth, F.
  Qed.
End PngRow.

(* ---------- all PNG rows ---------- *)
Lemma firstn_app_len {A} (a b : list A) n : List.length a = n -> firstn n (a ++ b) = a.
Proof. intros <-. rewrite firstn_app, Nat.sub_diag, firstn_all. cbn. apply app_nil_r. Qed.

Lemma skipn_app_len {A} (a b : list A) n : List.length a = n -> skipn n (a ++ b) = b.
Proof. intros <-. rewrite skipn_app, Nat.sub_diag, skipn_all. reflexivity. Qed.

Definition rows_ok (m : nat) (rows : list (list N)) : Prop :=
  Forall (fun r => List.length r = m /\ bytes_ok r) rows.

Lemma png_encode_length ft bpp m rows : forall prev,
  rows_ok m rows -> List.length (png_encode ft bpp prev rows) = List.length rows * S m.
Proof.
  induction rows as [|cur rest IH]; intros prev H; [reflexivity|].
  inversion H as [|? ? [Hm _] Hr]; subst. cbn [png_encode List.length].
  rewrite app_length, filter_row_length, IH by exact Hr. lia.
Qed.

Lemma png_rows_round ft bpp m rows : forall dprev sprev,
  (ft <= 4)%N -> 1 <= bpp -> bpp <= m ->
  List.length dprev = S m -> (forall i, at_ dprev (S i) = at_ sprev i) -> bytes_ok sprev ->
  rows_ok m rows ->
  png_rows (List.length rows) (10 + ft) (N.of_nat (S m)) (N.of_nat bpp) dprev (png_encode ft bpp sprev rows)
  = Ok (concat rows).
Proof.
  induction rows as [|cur rest IH]; intros dprev sprev Hft H1 Hb Hdl Hrel Hsp Hrows; [reflexivity|].
  inversion Hrows as [|? ? [Hm Hcur] Hr]; subst x l.
  cbn [png_rows png_encode List.length concat]. rewrite !Nat2N.id.
  change (ft :: filter_row ft bpp sprev cur ++ png_encode ft bpp cur rest)
    with ((ft :: filter_row ft bpp sprev cur) ++ png_encode ft bpp cur rest).
  rewrite firstn_app_len by (cbn [List.length]; rewrite filter_row_length; lia).
  rewrite skipn_app_len by (cbn [List.length]; rewrite filter_row_length; lia).
  rewrite <- Hm at 1.
  rewrite (png_row_round ft bpp dprev sprev cur) by (try assumption; lia).
  rewrite IH; try assumption.
  - reflexivity.
  - cbn [List.length]. lia.
  - intros i. apply at_cons.
Qed.

(* ---------- TIFF, 8-bit samples ---------- *)
Lemma diff_samples_length m colors s : List.length (diff_samples m colors s) = List.length s.
Proof. unfold diff_samples. rewrite map_length, seq_length. reflexivity. Qed.

Lemma at_diff_samples m colors s i : i < List.length s ->
  at_ (diff_samples m colors s) i = ((at_ s i + m - left colors s i) mod m)%N.
Proof. intros H. unfold diff_samples. rewrite at_map_seq by exact H. reflexivity. Qed.

Lemma tiff_row8_round colors cur :
  1 <= colors -> colors <= List.length cur -> bytes_ok cur ->
  for_ colors (List.length cur) (body_sub colors) (diff_samples 256 colors cur) = Some cur.
Proof.
  intros H1 Hc Hb. set (row0 := diff_samples 256 colors cur).
  assert (Hlen : List.length cur = List.length row0) by (unfold row0; rewrite diff_samples_length; reflexivity).
  assert (E : mix cur row0 colors = row0).
  { apply mix_start; [exact Hlen | exact Hc |]. intros i Hi. unfold row0.
    rewrite at_diff_samples by lia. unfold left. destruct (Nat.ltb_spec i colors); [|lia].
    assert (at_ cur i < 256)%N by (apply at_lt, Hb). lia. }
  rewrite <- E. rewrite (for_inv (mix cur row0)); [rewrite (mix_all _ _ Hlen); reflexivity | exact Hc |].
  intros j Hj. unfold body_sub.
  rewrite (mix_get_hi _ _ Hlen) by lia. rewrite (mix_get_lo _ _ Hlen) by lia. cbn [bind].
  apply (mix_set _ _ Hlen); [lia|]. unfold row0. rewrite at_diff_samples by lia.
  unfold left. destruct (Nat.ltb_spec j colors); [lia|].
  assert (at_ cur j < 256)%N by (apply at_lt, Hb).
  assert (at_ cur (j - colors) < 256)%N by (apply at_lt, Hb).
  unfold wadd. lia.
Qed.

(* ---------- TIFF, 16-bit samples ---------- *)
Definition samples_ok (s : list N) : Prop := Forall (fun x => (x < 65536)%N) s.

Lemma bytes16_length s : List.length (bytes16 s) = 2 * List.length s.
Proof. induction s as [|x s IH]; [reflexivity|]. cbn [bytes16 List.length]. rewrite IH. lia. Qed.

Lemma at_bytes16_hi s i : at_ (bytes16 s) (2 * i) = (at_ s i / 256)%N.
Proof.
  revert i; induction s as [|x s IH]; intros i.
  - unfold at_. cbn [bytes16]. destruct (2 * i), i; reflexivity.
  - destruct i as [|i]; [reflexivity|]. replace (2 * S i) with (S (S (2 * i))) by lia.
    cbn [bytes16]. rewrite !at_cons. apply IH.
Qed.

Lemma at_bytes16_lo s i : i < List.length s -> at_ (bytes16 s) (2 * i + 1) = (at_ s i mod 256)%N.
Proof.
  revert i; induction s as [|x s IH]; intros i H; [cbn in H; lia|].
  destruct i as [|i]; [reflexivity|]. replace (2 * S i + 1) with (S (S (2 * i + 1))) by lia.
  cbn [bytes16]. rewrite !at_cons. apply IH. cbn in H. lia.
Qed.

Lemma samples_at_lt s i : samples_ok s -> (at_ s i < 65536)%N.
Proof.
  intros H. unfold at_. destruct (Nat.lt_ge_cases i (List.length s)) as [Hi|Hi].
  - unfold samples_ok in H. rewrite Forall_forall in H. apply H, nth_In, Hi.
  - rewrite nth_overflow by exact Hi. lia.
Qed.

Lemma tiff_row16_round colors sm :
  1 <= colors -> colors <= List.length sm -> samples_ok sm ->
  for_ colors (List.length (bytes16 sm) / 2) (body_tiff16 colors) (bytes16 (diff_samples 65536 colors sm))
  = Some (bytes16 sm).
Proof.
  intros H1 Hc Hs. set (t := bytes16 sm). set (row0 := bytes16 (diff_samples 65536 colors sm)).
  assert (Lt : List.length t = 2 * List.length sm) by apply bytes16_length.
  assert (Hlen : List.length t = List.length row0).
  { unfold row0. rewrite bytes16_length, diff_samples_length. exact Lt. }
  replace (List.length t / 2) with (List.length sm) by (rewrite Lt; clear; lia).
  assert (E : mix t row0 (2 * colors) = row0).
  { apply mix_start; [exact Hlen | lia |]. intros i Hi.
    assert (Hd : forall k, k < colors -> at_ (diff_samples 65536 colors sm) k = at_ sm k).
    { intros k Hk. rewrite at_diff_samples by lia. unfold left. destruct (Nat.ltb_spec k colors); [|lia].
      assert (at_ sm k < 65536)%N by (apply samples_at_lt, Hs). lia. }
    destruct (Nat.Even_or_Odd i) as [[k ->]|[k ->]]; unfold row0, t.
    - rewrite !at_bytes16_hi. rewrite Hd by lia. reflexivity.
    - rewrite !at_bytes16_lo by (rewrite ?diff_samples_length; lia). rewrite Hd by lia. reflexivity. }
  rewrite <- E.
  rewrite (for_inv (fun s => mix t row0 (2 * s))).
  - replace (2 * List.length sm) with (List.length t) by lia. rewrite (mix_all _ _ Hlen). reflexivity.
  - exact Hc.
  - intros s Hs'. unfold body_tiff16.
    rewrite (mix_get_lo _ _ Hlen) by lia. rewrite (mix_get_lo _ _ Hlen) by lia.
    rewrite (mix_get_hi _ _ Hlen) by lia. rewrite (mix_get_hi _ _ Hlen) by lia. cbn [bind].
    assert (T1 : at_ t (2 * (s - colors)) = (at_ sm (s - colors) / 256)%N) by (unfold t; apply at_bytes16_hi).
    assert (T2 : at_ t (2 * (s - colors) + 1) = (at_ sm (s - colors) mod 256)%N) by (unfold t; apply at_bytes16_lo; lia).
    assert (R1 : at_ row0 (2 * s) = (at_ (diff_samples 65536 colors sm) s / 256)%N) by (unfold row0; apply at_bytes16_hi).
    assert (R2 : at_ row0 (2 * s + 1) = (at_ (diff_samples 65536 colors sm) s mod 256)%N)
      by (unfold row0; apply at_bytes16_lo; rewrite diff_samples_length; lia).
    rewrite T1, T2, R1, R2. clear T1 T2 R1 R2.
    rewrite at_diff_samples by lia. unfold left. destruct (Nat.ltb_spec s colors); [lia|].
    assert (B1 : (at_ sm s < 65536)%N) by (apply samples_at_lt, Hs).
    assert (B2 : (at_ sm (s - colors) < 65536)%N) by (apply samples_at_lt, Hs).
    set (x := at_ sm s) in *. set (y := at_ sm (s - colors)) in *.
    assert (V : ((((x + 65536 - y) mod 65536 / 256 * 256 + (x + 65536 - y) mod 65536 mod 256)
                 + (y / 256 * 256 + y mod 256)) mod 65536 = x)%N) by lia.
    rewrite V.
    rewrite (mix_set _ _ Hlen (2 * s) ((x / 256) mod 256)%N); [cbn [bind] | lia |].
    + replace (2 * S s) with (S (2 * s + 1)) by lia. replace (S (2 * s)) with (2 * s + 1) by lia.
      apply (mix_set _ _ Hlen); [lia|]. unfold t. rewrite at_bytes16_lo by lia. reflexivity.
    + unfold t. rewrite at_bytes16_hi. fold x. lia.
Qed.

Lemma bytes16_samples16 n : forall cur,
  List.length cur = 2 * n -> bytes_ok cur -> bytes16 (samples16 cur) = cur /\ samples_ok (samples16 cur)
  /\ List.length (samples16 cur) = n.
Proof.
  induction n as [|n IH]; intros cur Hl Hb.
  - destruct cur; [|cbn in Hl; lia]. repeat split. constructor.
  - destruct cur as [|a [|b r]]; try (cbn in Hl; lia).
    inversion Hb as [|? ? Ha Hb']; subst. inversion Hb' as [|? ? Hb0 Hr]; subst.
    destruct (IH r) as [E [S L]]; [cbn in Hl; lia | exact Hr |].
    cbn [samples16 bytes16 List.length]. rewrite E, L. repeat split.
    + f_equal; [lia|]. f_equal. lia.
    + constructor; [lia | exact S].
Qed.

Lemma spec_tiff_row_length bits colors cur :
  (bits = 16%N -> Nat.Even (List.length cur)) -> List.length (Png.tiff_row bits colors cur) = List.length cur.
Proof.
  intros He. unfold Png.tiff_row. destruct (N.eqb_spec bits 16) as [E|E].
  - destruct (He E) as [n Hn]. rewrite bytes16_length, diff_samples_length.
    clear He. revert cur Hn. induction n as [|n IH]; intros cur Hn.
    + destruct cur; [reflexivity | cbn in Hn; lia].
    + destruct cur as [|a [|b r]]; try (cbn in Hn; lia). cbn [samples16 List.length].
      rewrite <- (IH r) by (cbn in Hn; lia). lia.
  - apply diff_samples_length.
Qed.

Lemma tiff_row_round bits colors cur :
  (bits = 8 \/ bits = 16)%N -> 1 <= colors -> bytes_ok cur ->
  (bits = 8%N -> colors <= List.length cur) ->
  (bits = 16%N -> exists ns, List.length cur = 2 * ns /\ colors <= ns) ->
  Pred.tiff_row bits (List.length cur) colors (Png.tiff_row bits colors cur) = Some cur.
Proof.
  intros Hb H1 Hok H8 H16. unfold Pred.tiff_row, Png.tiff_row.
  destruct Hb as [-> | ->]; cbn [N.eqb Pos.eqb].
  - apply tiff_row8_round; auto.
  - destruct (H16 eq_refl) as [ns [Hl Hc]].
    destruct (bytes16_samples16 ns cur Hl Hok) as [E [S L]].
    rewrite <- E at 1 3. apply tiff_row16_round; [exact H1 | lia | exact S].
Qed.

Lemma tiff_rows_round bits colors m rows :
  (bits = 8 \/ bits = 16)%N -> 1 <= colors ->
  (bits = 8%N -> colors <= m) -> (bits = 16%N -> exists ns, m = 2 * ns /\ colors <= ns) ->
  rows_ok m rows ->
  tiff_rows (List.length rows) bits (N.of_nat m) (N.of_nat colors)
            (concat (List.map (Png.tiff_row bits colors) rows)) = Ok (concat rows).
Proof.
  intros Hb H1 H8 H16. induction rows as [|cur rest IH]; intros Hrows; [reflexivity|].
  inversion Hrows as [|? ? [Hm Hcur] Hr]; subst x l.
  cbn [tiff_rows List.map concat List.length]. rewrite !Nat2N.id.
  assert (Ls : List.length (Png.tiff_row bits colors cur) = m).
  { rewrite spec_tiff_row_length; [exact Hm|]. intros E. destruct (H16 E) as [ns [-> _]]. rewrite Hm. exists ns. lia. }
  rewrite firstn_app_len by exact Ls. rewrite skipn_app_len by exact Ls.
  rewrite <- Hm at 1. rewrite tiff_row_round; try assumption.
  - rewrite IH by exact Hr. reflexivity.
  - intros E. rewrite Hm. auto.
  - intros E. rewrite Hm. auto.
Qed.

(* ---------- the layout ---------- *)
Lemma row_layout_ok colors columns bits :
  (1 <= colors)%N -> (1 <= columns)%N -> In bits [1; 2; 4; 8; 16]%N ->
  (columns * colors * bits + 7 < two64)%N ->
  row_layout colors columns bits = Some (((colors * bits + 7) / 8)%N, ((columns * colors * bits + 7) / 8)%N).
Proof.
  intros Hc Hk Hb Hs. unfold row_layout, checked_mul, checked_add, two64 in *.
  assert (M : (colors * 1 <= colors * columns)%N) by (apply N.mul_le_mono_l; lia).
  destruct (N.ltb_spec colors 1); [lia|]. destruct (N.ltb_spec columns 1); [lia|].
  cbn [orb]. cbn in Hb.
  destruct Hb as [<-|[<-|[<-|[<-|[<-|[]]]]]]; cbn [memb existsb N.eqb Pos.eqb orb negb bind];
    repeat match goal with
           | |- context [(?a <? ?b)%N] => destruct (N.ltb_spec a b); [|lia]; cbn [bind]
           end; f_equal; f_equal; f_equal; lia.
Qed.

Lemma png_shape k m :
  let n := N.of_nat (S k * S m) in let rl := (N.of_nat m + 1)%N in
  ((n =? 0) = false /\ (n <? rl) = false /\ (n mod rl =? 0) = true /\ N.to_nat (n / rl) = S k /\ rl = N.of_nat (S m))%N.
Proof.
  cbv zeta. assert (E : (N.of_nat m + 1 = N.of_nat (S m))%N) by lia. rewrite E.
  rewrite Nat2N.inj_mul.
  assert (Hm : (N.of_nat (S m) <> 0)%N) by lia.
  rewrite N.mod_mul by exact Hm. rewrite N.div_mul by exact Hm.
  repeat split; try lia.
Qed.

Lemma tiff_shape k m : 1 <= m ->
  let n := N.of_nat (k * m) in let rl := N.of_nat m in
  ((rl <? 1) = false /\ (n mod rl =? 0) = true /\ N.to_nat (n / rl) = k)%N.
Proof.
  intros H. cbv zeta. rewrite Nat2N.inj_mul.
  assert (Hm : (N.of_nat m <> 0)%N) by lia.
  rewrite N.mod_mul by exact Hm. rewrite N.div_mul by exact Hm.
  repeat split; try lia.
Qed.

Lemma shape_facts colors columns bits :
  (1 <= colors)%N -> (1 <= columns)%N -> In bits [1; 2; 4; 8; 16]%N ->
  (1 <= (colors * bits + 7) / 8 <= row_bytes columns colors bits)%N /\
  (bits = 8%N -> row_bytes columns colors bits = (columns * colors)%N /\ (colors <= columns * colors)%N) /\
  (bits = 16%N -> row_bytes columns colors bits = (2 * (columns * colors))%N /\ (colors <= columns * colors)%N).
Proof.
  intros Hc Hk Hb. unfold row_bytes.
  assert (M : (colors * 1 <= colors * columns)%N) by (apply N.mul_le_mono_l; lia).
  assert (M2 : (colors * bits <= columns * colors * bits)%N).
  { replace (columns * colors * bits)%N with (columns * (colors * bits))%N by lia.
    rewrite <- (N.mul_1_l (colors * bits)) at 1. apply N.mul_le_mono_r. lia. }
  assert (B1 : (1 <= bits)%N) by (cbn in Hb; intuition lia).
  assert (M3 : (1 * 1 <= colors * bits)%N) by (apply N.mul_le_mono; lia).
  repeat split; try lia.
Qed.

(* ---------- C07: reversal ---------- *)
Theorem roundtrip (pred colors columns bits : N) (rows : list (list N)) :
  In pred [2; 10; 11; 12; 13; 14]%N ->
  (1 <= colors)%N -> (1 <= columns)%N ->
  In bits (if (pred =? 2)%N then [8; 16]%N else [1; 2; 4; 8; 16]%N) ->
  (columns * colors * bits + 7 < two64)%N ->
  rows_ok (N.to_nat (row_bytes columns colors bits)) rows ->
  flate_lzw_filter pred colors columns bits (encode_rows pred colors bits rows) = Ok (concat rows).
Proof.
  intros Hp Hc Hk Hb Hs Hrows.
  assert (Hb' : In bits [1; 2; 4; 8; 16]%N).
  { destruct (pred =? 2)%N; [|exact Hb]. cbn in *. intuition. }
  pose proof (row_layout_ok colors columns bits Hc Hk Hb' Hs) as HL.
  destruct (shape_facts colors columns bits Hc Hk Hb') as [[Hp1 Hp2] [F8 F16]].
  set (m := N.to_nat (row_bytes columns colors bits)) in *.
  assert (Erb : ((columns * colors * bits + 7) / 8 = N.of_nat m)%N) by (unfold m, row_bytes; lia).
  unfold flate_lzw_filter, encode_rows.
  destruct (N.eqb_spec pred 2) as [P2|P2].
  - (* TIFF *)
    subst pred. cbn [N.eqb Pos.eqb].
    assert (B : (bits = 8 \/ bits = 16)%N) by (cbn in Hb; intuition).
    replace (negb (bits =? 8)%N && negb (bits =? 16)%N) with false
      by (destruct B as [-> | ->]; reflexivity).
    rewrite HL, Erb.
    assert (H8 : bits = 8%N -> N.to_nat colors <= m).
    { intros E. destruct (F8 E) as [E1 E2]. unfold m. rewrite E1. lia. }
    assert (H16 : bits = 16%N -> exists ns, m = 2 * ns /\ N.to_nat colors <= ns).
    { intros E. destruct (F16 E) as [E1 E2]. exists (N.to_nat (columns * colors)). unfold m. rewrite E1. lia. }
    assert (Hlen : len (concat (List.map (Png.tiff_row bits (N.to_nat colors)) rows)) = List.length rows * m).
    { clear - Hrows H16. unfold len. induction rows as [|cur rest IH]; [reflexivity|].
      inversion Hrows as [|? ? [Hm Hcur] Hr]; subst. cbn [List.map concat List.length].
      rewrite app_length, IH by exact Hr. rewrite spec_tiff_row_length; [lia|].
      intros E. destruct (H16 E) as [ns [E1 _]]. exists ns. lia. }
    rewrite Hlen.
    destruct (tiff_shape (List.length rows) m) as [S1 [S2 S3]]; [unfold m; lia|].
    rewrite S1, S2, S3. cbn [negb].
    rewrite <- (N2Nat.id colors) at 1.
    apply tiff_rows_round; try assumption. lia.
  - (* PNG *)
    assert (P : (10 <= pred <= 14)%N) by (cbn in Hp; intuition lia).
    replace (pred =? 1)%N with false by (symmetry; apply N.eqb_neq; lia).
    replace (pred =? 2)%N with false by (symmetry; apply N.eqb_neq; lia).
    replace ((10 <=? pred)%N && (pred <=? 15)%N) with true
      by (symmetry; apply andb_true_iff; split; apply N.leb_le; lia).
    rewrite HL, Erb.
    assert (Epix : N.to_nat (pix_bytes colors bits) = N.to_nat ((colors * bits + 7) / 8)) by (unfold pix_bytes; lia).
    rewrite Epix.
    destruct rows as [|r0 rest]; [reflexivity|].
    assert (Hlen : len (png_encode (pred - 10) (N.to_nat ((colors * bits + 7) / 8)) [] (r0 :: rest))
                   = S (List.length rest) * S m).
    { unfold len. rewrite (png_encode_length _ _ m) by exact Hrows. reflexivity. }
    rewrite Hlen.
    destruct (png_shape (List.length rest) m) as [S1 [S2 [S3 [S4 S5]]]].
    rewrite S1, S2, S3, S4, S5. cbn [negb].
    replace pred with (10 + (pred - 10))%N at 1 by lia.
    rewrite <- (N2Nat.id ((colors * bits + 7) / 8)) at 1.
    apply (png_rows_round (pred - 10) _ m (r0 :: rest)); try assumption; try lia.
    + rewrite Nat2N.id. apply repeat_length.
    + intros i. unfold at_. rewrite nth_repeat. destruct i; reflexivity.
    + constructor.
Qed.

Lemma as_usize_of_N n : (n < two64)%N -> as_usize (Z.of_N n) = n.
Proof. intros H. unfold as_usize, two64 in *. rewrite Z.mod_small by lia. apply N2Z.id. Qed.

Theorem roundtrip_parms o (pred colors columns bits : N) (rows : list (list N)) :
  int_param o (B "Predictor") 1 = Z.of_N pred -> int_param o (B "Colors") 1 = Z.of_N colors ->
  int_param o (B "Columns") 1 = Z.of_N columns -> int_param o (B "BitsPerComponent") 8 = Z.of_N bits ->
  In pred [2; 10; 11; 12; 13; 14]%N ->
  (1 <= colors)%N -> (1 <= columns)%N ->
  In bits (if (pred =? 2)%N then [8; 16]%N else [1; 2; 4; 8; 16]%N) ->
  (columns * colors * bits + 7 < two64)%N ->
  rows_ok (N.to_nat (row_bytes columns colors bits)) rows ->
  flate_post o (encode_rows pred colors bits rows) = Ok (concat rows).
Proof.
  intros E1 E2 E3 E4 Hp Hc Hk Hb Hs Hrows. unfold flate_post. rewrite E1, E2, E3, E4.
  assert (Hb' : In bits [1; 2; 4; 8; 16]%N).
  { destruct (pred =? 2)%N; [|exact Hb]. cbn in *. intuition. }
  assert (B1 : (1 <= bits <= 16)%N) by (cbn in Hb'; intuition lia).
  assert (M1 : (columns * 1 * 1 <= columns * colors * bits)%N) by (repeat apply N.mul_le_mono; lia).
  assert (M2 : (1 * colors * 1 <= columns * colors * bits)%N) by (repeat apply N.mul_le_mono; lia).
  rewrite !as_usize_of_N by (unfold two64 in *; cbn in Hp; intuition lia).
  apply roundtrip; assumption.
Qed.
