(* Proofs/LoaderBytesHybridEx.v — C03b: the hypotheses of the end-to-end theorem for hybrid files are satisfiable: the
   two-object document of Proofs/LoaderBytesEx.v, listed by a /W [1 1 1] cross-reference stream that the trailer of a
   classic table (one free entry) names through /XRefStm. *)
From PV Require Import Model.Obj Model.XrefTab Model.XrefStm Model.Loader Model.LoaderBytes Spec.Spelling Spec.XrefEnc
     Spec.RenderClassic Spec.RenderXrefStm Spec.RenderHybrid.
From PV Require Import Proofs.XrefBase Proofs.XrefTab Proofs.XrefStm Proofs.ObjStream Proofs.ObjSpell Proofs.ObjC02
     Proofs.LoaderBytesBase Proofs.LoaderBytesObj Proofs.LoaderBytesSect Proofs.LoaderBytesMain Proofs.LoaderBytesEx
     Proofs.LoaderBytesHistEx Proofs.LoaderBytesXstm Proofs.LoaderBytesXstmEx Proofs.LoaderBytesHybrid.
From Coq Require Import Lia.
Close Scope N_scope.

Lemma hy_sp_trailer : spells' 51 (ODict [(B "Root", ORef 1 0); (B "XRefStm", OInt 94)]) (B "<</Root 1 0 R/XRefStm 94>>").
Proof.
  apply (sp_dict _ 50 [(B "Root", ORef 1 0); (B "XRefStm", OInt 94)] (B "/Root 1 0 R/XRefStm 94")); [|reflexivity].
  apply (entries_cons _ 50 [] (B "Root") (B "Root") (B " ") (ORef 1 0) (B "1 0 R") [(B "XRefStm", OInt 94)] (B "/XRefStm 94")).
  - constructor.
  - apply ex_name_raw. repeat constructor; discriminate.
  - repeat constructor.
  - discriminate.
  - apply (sp_ref _ 49 1 0 (B "1") (B " ") (B "0") (B " ")); [exact ex_nat1|repeat constructor|discriminate|exact ex_nat0|repeat constructor|discriminate].
  - apply (entries_cons _ 50 [] (B "XRefStm") (B "XRefStm") (B " ") (OInt 94) (B "94") [] []).
    + constructor.
    + apply ex_name_raw. repeat constructor; discriminate.
    + repeat constructor.
    + discriminate.
    + apply sp_number. apply (sp_int false [] (B "94")); [constructor|discriminate|repeat constructor|vm_compute; split; discriminate].
    + repeat constructor.
    + intros outer. split; [reflexivity|]. apply int_follow_ws_stop. split; [reflexivity|discriminate].
  - intros outer. reflexivity.
Qed.

Definition ex_hylayout : hylayout :=
  mk_hylayout [] (B "1.5" ++ [10%N]) (l_objs ex_layout)
    (3, 0)%N xx_dict (xl_lo ex_xlayout) (1, 1, 1) [(0%N, [RFree 0 0; RInUse 0 0; RInUse 0 0])]
    [] [10%N] [mk_tsub [] 5 1 1 [10%N] [mk_tent 0 0 false [32; 10]%N]]
    [10%N] (B "<</Root 1 0 R/XRefStm 94>>") [10%N]
    [10%N] 3 [10%N] [10%N].

Lemma ex_wf_hylayout : wf_hylayout ex_doc ex_hylayout.
Proof.
  constructor.
  - vm_compute. reflexivity.
  - reflexivity.
  - exact (wl_objs _ _ ex_wf_layout).
  - unfold wide. cbn. lia.
  - repeat constructor; cbn; try lia; try reflexivity.
  - vm_compute. reflexivity.
  - exact (xf_xobj _ _ _ (wx_frame _ _ ex_wf_xlayout)).
  - exists 3%N. unfold xref_dict_ok. repeat split; try reflexivity.
  - intros e Hin a b. vm_compute in Hin. destruct Hin as [<-|[<-|[<-|[]]]]; discriminate.
  - assert (We : forall i g u t, (i < 100)%N -> (g <= 65535)%N -> In t xref_eols -> wf_ent (mk_tent i g u t)).
    { intros i g u t Hi Hg Ht. unfold wf_ent. cbn. split; [lia|]. split; [unfold xref_gen_max; lia|exact Ht]. }
    cbn [ex_hylayout hy_xpre hy_xeol hy_table].
    unfold wf_sect, wf_subs, wf_sub, all_in. cbn -[wf_ent].
    repeat split; try discriminate; try lia; try (repeat constructor; fail); auto;
      repeat apply Forall_cons; try apply Forall_nil; apply We; try lia; cbn; tauto.
  - vm_compute. reflexivity.
  - split; [repeat constructor|]. split; [vm_compute; reflexivity|].
    exists [(B "Root", ORef 1 0); (B "XRefStm", OInt 94)]. split; [exact hy_sp_trailer|]. repeat split; reflexivity.
  - vm_compute. repeat constructor; cbn; intuition discriminate.
  - intros e Hin U. vm_compute in Hin. repeat (destruct Hin as [<-|Hin]); try destruct Hin; vm_compute in U; try discriminate; cbn; tauto.
  - intros id Hin. cbn in Hin. destruct Hin as [<-|[<-|[]]].
    + exists (mk_xent 1 0 (XrefTab.XInUse 0)). split; [vm_compute; tauto|]. split; reflexivity.
    + exists (mk_xent 2 0 (XrefTab.XInUse 0)). split; [vm_compute; tauto|]. split; reflexivity.
  - split; [repeat constructor|discriminate].
  - split; [cbn; lia|]. split; vm_compute; reflexivity.
  - repeat constructor.
  - repeat constructor; discriminate.
Qed.

Example ex_hybrid_computed :
  load_bytes false (render_hybrid (d_objs ex_doc) ex_hylayout) =
  Loaded [((1, 0)%N, VObj (OName (B "Catalog"))); ((2, 0)%N, VObj (OStream [(B "Length", OInt 3)] (B "abc")))] (1, 0)%N.
Proof. vm_compute. reflexivity. Qed.

(* ---------- representation independence: ONE document written in the three in-file representations (classic
   table, cross-reference stream, hybrid), each with any legal layout, built in either profile, loads to the same root
   and the same bindings ---------- *)
Theorem load_bytes_representation_independent rel1 rel2 rel3 d l X H :
  wf_doc d -> wf_layout d l -> wf_xlayout d X -> wf_hylayout d H ->
  exists c1 c2 c3,
    load_bytes rel1 (render_classic (d_objs d) l) = Loaded c1 (d_root d) /\
    load_bytes rel2 (render_xrefstm (d_objs d) X) = Loaded c2 (d_root d) /\
    load_bytes rel3 (render_hybrid (d_objs d) H) = Loaded c3 (d_root d) /\
    forall id, ctx_get c1 id = ctx_get c2 id /\ ctx_get c2 id = ctx_get c3 id.
Proof.
  intros Wd Wl Wx Wh.
  destruct (load_bytes_classic rel1 d l Wd Wl) as (c1 & L1 & K1).
  destruct (load_bytes_xrefstm rel2 d X Wd Wx) as (c2 & L2 & K2).
  destruct (load_bytes_hybrid rel3 d H Wd Wh) as (c3 & L3 & K3).
  exists c1, c2, c3. repeat split; try assumption; rewrite ?K1, ?K2, ?K3; reflexivity.
Qed.

Lemma ex_representations : wf_doc ex_doc /\ wf_layout ex_doc ex_layout /\ wf_xlayout ex_doc ex_xlayout /\ wf_hylayout ex_doc ex_hylayout.
Proof. exact (conj ex_wf_doc (conj ex_wf_layout (conj ex_wf_xlayout ex_wf_hylayout))). Qed.
