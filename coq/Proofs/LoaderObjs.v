(* Proofs/LoaderObjs.v — parse_objects on a well-formed set of xref entries: the two passes over
   the in-file objects (forward-referenced /Length included) bind exactly the objects found at the
   entries' offsets; the object-stream pass binds exactly the members. *)
From PV Require Import Model.Loader Proofs.Loader.

(* what IndirectP registers for an item *)
Definition item_val (it : item) : option (oid * cval) :=
  match it with
  | IObj id v => Some (id, VObj v)
  | IObjStm id _ _ ms => Some (id, VObjStm ms)
  | IXStm id _ _ _ => Some (id, VXStm)
  | _ => None
  end.

(* parses without looking anything up *)
Definition simple (it : item) : Prop :=
  match it with
  | IObj _ (OStream d content) => dict_get d Length_key = Some (OInt (Z.of_nat (len content)))
  | IObj _ _ => True
  | IObjStm _ _ None _ => True
  | IXStm _ _ _ _ => True
  | _ => False
  end.

(* its /Length is the reference [r]; the payload has [n] bytes *)
Definition needs (it : item) (r : oid) (n : N) : Prop :=
  match it with
  | IObj _ (OStream d content) => dict_get d Length_key = Some (ORef (fst r) (snd r)) /\ n = N.of_nat (len content)
  | IObjStm _ clen (Some r') _ => r' = r /\ n = clen
  | _ => False
  end.

Lemma indirect_simple c it id v :
  simple it -> item_val it = Some (id, v) -> ctx_get c id = None -> indirect c it = IR_ok (ctx_set c id v) id v.
Proof.
  intros S V G. destruct it as [| | id' o | id' clen [r|] ms |]; cbn [simple item_val] in *; try contradiction; try discriminate.
  - inversion V; subst. cbn [indirect]. apply reg_res_fresh, G.
  - inversion V; subst. destruct o; cbn [indirect]; try (apply reg_res_fresh, G).
    rewrite S. rewrite Z.eqb_refl. apply reg_res_fresh, G.
  - inversion V; subst. cbn [indirect]. apply reg_res_fresh, G.
Qed.

Lemma indirect_needs_none c it r n : needs it r n -> ctx_get c r = None -> indirect c it = IR_ctx.
Proof.
  intros Nd G. destruct it as [| | id' o | id' clen [r'|] ms |]; cbn [needs] in *; try contradiction.
  - destruct o; try contradiction. destruct Nd as [L _]. cbn [indirect]. rewrite L.
    destruct r as [r1 r2]. cbn [fst snd] in *. rewrite G. reflexivity.
  - destruct Nd as [-> _]. cbn [indirect]. rewrite G. reflexivity.
Qed.

Lemma indirect_needs_some c it r n id v :
  needs it r n -> ctx_get c r = Some (VObj (OInt (Z.of_N n))) -> item_val it = Some (id, v) -> ctx_get c id = None ->
  indirect c it = IR_ok (ctx_set c id v) id v.
Proof.
  intros Nd Gr V G. destruct it as [| | id' o | id' clen [r'|] ms |]; cbn [needs item_val] in *; try contradiction; try discriminate.
  - destruct o; try contradiction. destruct Nd as [L ->]. inversion V; subst. cbn [indirect]. rewrite L.
    destruct r as [r1 r2]. cbn [fst snd] in *. rewrite Gr. cbn [length_ok]. rewrite Z.eqb_refl. apply reg_res_fresh, G.
  - destruct Nd as [-> ->]. inversion V; subst. cbn [indirect]. rewrite Gr. cbn [length_ok]. rewrite Z.eqb_refl.
    apply reg_res_fresh, G.
Qed.

Lemma needs_not_simple it r n : needs it r n -> simple it -> False.
Proof.
  destruct it as [| | id' o | id' clen [r'|] ms |]; cbn [needs simple]; try tauto.
  destruct o; try tauto. intros [L _] S. congruence.
Qed.

Lemma needs_fun it r n r' n' : needs it r n -> needs it r' n' -> r = r' /\ n = n'.
Proof.
  destruct it as [| | id' o | id' clen [r0|] ms |]; cbn [needs]; try tauto.
  - destruct o; try tauto. intros [L ->] [L' ->]. split; [|reflexivity].
    rewrite L in L'. inversion L'. destruct r, r'; cbn [fst snd] in *; congruence.
  - intros [<- ->] [<- ->]. split; reflexivity.
Qed.

Fixpoint files (I : list objinfo) : list (oid * N) :=
  match I with
  | [] => []
  | InFile id ofs :: r => (id, ofs) :: files r
  | InStm _ :: r => files r
  end.

Fixpoint ostms_of (I : list objinfo) (acc : list oid) : list oid :=
  match I with
  | [] => acc
  | InStm id :: r => ostms_of r (set_insert id acc)
  | InFile _ _ :: r => ostms_of r acc
  end.

Lemma NoDup_fst_inj {A B} (l : list (A * B)) a b b' : NoDup (map fst l) -> In (a, b) l -> In (a, b') l -> b = b'.
Proof.
  induction l as [|[x y] l IH]; cbn [map In fst]; [tauto|].
  intros ND H1 H2. inversion ND as [|? ? Hn ND']; subst.
  destruct H1 as [H1|H1], H2 as [H2|H2].
  - congruence.
  - inversion H1; subst. exfalso. apply Hn. change a with (fst (a, b')). apply in_map, H2.
  - inversion H2; subst. exfalso. apply Hn. change a with (fst (a, b)). apply in_map, H1.
  - eapply IH; eauto.
Qed.

Definition bound (c : ctx) (id : oid) : Prop := ctx_get c id <> None.

Section Passes.
  Variables (f : file) (flen : N) (c0 : ctx) (I : list objinfo).
  Let FI := files I.
  Hypothesis ND : NoDup (map fst FI).

  (* the value the entry for [id] leads to *)
  Definition tgt (id : oid) (v : cval) : Prop :=
    exists ofs it nx, In (id, ofs) FI /\ find f ofs = Some (it, nx) /\ item_val it = Some (id, v).

  (* [r] is an in-file integer object of value [n], listed by an entry *)
  Definition holder (r : oid) (n : N) : Prop :=
    exists ofs nx, In (r, ofs) FI /\ ctx_get c0 r = None /\ find f ofs = Some (IObj r (OInt (Z.of_N n)), nx).

  Definition good (id : oid) (ofs : N) : Prop :=
    (ofs <? flen)%N = true /\
    exists it nx v, find f ofs = Some (it, nx) /\ item_val it = Some (id, v) /\
                    (simple it \/ exists r n, needs it r n /\ holder r n).

  Hypothesis Good : forall id ofs, In (id, ofs) FI -> ctx_get c0 id = None -> good id ofs.

  Definition Inv (c : ctx) : Prop :=
    (forall id v, ctx_get c0 id = Some v -> ctx_get c id = Some v) /\
    (forall id v, ctx_get c id = Some v -> ctx_get c0 id = Some v \/ (ctx_get c0 id = None /\ tgt id v)).

  Definition deferred (s : list (oid * N)) : Prop :=
    forall id ofs, In (id, ofs) s ->
      In (id, ofs) FI /\ ctx_get c0 id = None /\ exists it nx r n, find f ofs = Some (it, nx) /\ needs it r n.

  Lemma tgt_unique id v v' : tgt id v -> tgt id v' -> v = v'.
  Proof.
    intros (o1 & it1 & n1 & I1 & F1 & V1) (o2 & it2 & n2 & I2 & F2 & V2).
    assert (o1 = o2) by (eapply NoDup_fst_inj; eauto). subst o2. rewrite F1 in F2. inversion F2; subst.
    rewrite V1 in V2. inversion V2. reflexivity.
  Qed.

  Lemma holder_tgt r n : holder r n -> tgt r (VObj (OInt (Z.of_N n))).
  Proof. intros (ofs & nx & Hin & _ & F). exists ofs, (IObj r (OInt (Z.of_N n))), nx. repeat split; auto. Qed.

  Lemma Inv_c0_none c id : Inv c -> ctx_get c id = None -> ctx_get c0 id = None.
  Proof. intros [M _] G. destruct (ctx_get c0 id) eqn:E; [apply M in E; congruence | reflexivity]. Qed.

  Lemma Inv_set c id v : Inv c -> ctx_get c id = None -> tgt id v -> Inv (ctx_set c id v).
  Proof.
    intros IV G T. pose proof (Inv_c0_none _ _ IV G) as G0. destruct IV as [M K]. split.
    - intros id' w H. destruct (oid_dec id' id) as [->|Ne]; [congruence|].
      rewrite ctx_get_set_other by exact Ne. apply M, H.
    - intros id' w H. destruct (oid_dec id' id) as [->|Ne].
      + rewrite ctx_get_set_same in H. inversion H; subst. right. split; assumption.
      + rewrite ctx_get_set_other in H by exact Ne. apply K, H.
  Qed.

  Lemma bound_set c id v x : bound c x -> bound (ctx_set c id v) x.
  Proof.
    unfold bound. intros H. destruct (oid_dec x id) as [->|Ne].
    - rewrite ctx_get_set_same. discriminate.
    - rewrite ctx_get_set_other by exact Ne. exact H.
  Qed.

  Lemma load_one_step c id ofs :
    Inv c -> In (id, ofs) FI -> ctx_get c id = None ->
    (exists c', load_one f flen c id ofs = OneOk c' /\ Inv c' /\ bound c' id /\ (forall x, bound c x -> bound c' x) /\
                (forall x w, ctx_get c x = Some w -> ctx_get c' x = Some w))
    \/ (load_one f flen c id ofs = OneDefer /\ exists it nx r n, find f ofs = Some (it, nx) /\ needs it r n).
  Proof.
    intros IV Hin G. pose proof (Inv_c0_none _ _ IV G) as G0.
    destruct (Good id ofs Hin G0) as (Hb & it & nx & v & F & V & Cases).
    assert (T : tgt id v) by (exists ofs, it, nx; auto).
    assert (OKcase : indirect c it = IR_ok (ctx_set c id v) id v ->
                     exists c', load_one f flen c id ofs = OneOk c' /\ Inv c' /\ bound c' id /\ (forall x, bound c x -> bound c' x) /\
                                (forall x w, ctx_get c x = Some w -> ctx_get c' x = Some w)).
    { intros E. exists (ctx_set c id v). unfold load_one. rewrite Hb. cbn [negb]. rewrite F, E, oid_eqb_refl.
      split; [reflexivity|]. split; [apply Inv_set; assumption|]. split; [unfold bound; rewrite ctx_get_set_same; discriminate|].
      split; [intros x; apply bound_set|].
      intros x w Hx. destruct (oid_dec x id) as [->|Ne]; [congruence|]. rewrite ctx_get_set_other by exact Ne. exact Hx. }
    destruct Cases as [S | (r & n & Nd & Ho)].
    - left. apply OKcase. apply indirect_simple; assumption.
    - destruct (ctx_get c r) as [l|] eqn:Gr.
      + assert (El : l = VObj (OInt (Z.of_N n))).
        { destruct IV as [_ K]. destruct (K _ _ Gr) as [H0|[_ Tl]].
          - destruct Ho as (? & ? & _ & H0' & _). congruence.
          - apply (tgt_unique _ _ _ Tl (holder_tgt _ _ Ho)). }
        subst l. left. apply OKcase. eapply indirect_needs_some; eauto.
      + right. split.
        * unfold load_one. rewrite Hb. cbn [negb]. rewrite F. rewrite (indirect_needs_none _ _ _ _ Nd Gr). reflexivity.
        * exists it, nx, r, n. auto.
  Qed.

  Lemma pass1_ok todo : forall c ostms second,
    (forall id ofs, In (id, ofs) (files todo) -> In (id, ofs) FI) -> Inv c -> deferred second ->
    exists c1 second1,
      pass1 f flen todo c ostms second = Some (c1, ostms_of todo ostms, second1) /\ Inv c1 /\ deferred second1 /\
      (forall x, bound c x -> bound c1 x) /\ (forall x, In x second -> In x second1) /\
      (forall id ofs, In (id, ofs) (files todo) -> bound c1 id \/ In (id, ofs) second1).
  Proof.
    induction todo as [|[id ofs|sid] todo IH]; intros c ostms second Sub IV Df.
    - exists c, second. cbn [pass1 ostms_of files].
      split; [reflexivity|]. split; [exact IV|]. split; [exact Df|]. split; [auto|]. split; [auto|]. intros ? ? [].
    - cbn [pass1 ostms_of files]. cbn [files] in Sub.
      assert (Sub' : forall id0 ofs0, In (id0, ofs0) (files todo) -> In (id0, ofs0) FI) by (intros; apply Sub; right; assumption).
      destruct (ctx_get c id) as [w|] eqn:G; cbn [is_some].
      + destruct (IH c ostms second Sub' IV Df) as (c1 & s1 & E & IV1 & D1 & Mo & Inc & Cov).
        exists c1, s1. split; [exact E|]. split; [exact IV1|]. split; [exact D1|]. split; [exact Mo|]. split; [exact Inc|].
        intros id0 ofs0 [H|H]; [inversion H; subst; left; apply Mo; unfold bound; congruence | apply Cov, H].
      + destruct (load_one_step c id ofs IV (Sub _ _ (or_introl eq_refl)) G) as [(c' & E' & IV' & B' & Mo' & _) | (E' & it & nx & r & n & F & Nd)].
        * rewrite E'. destruct (IH c' ostms second Sub' IV' Df) as (c1 & s1 & E & IV1 & D1 & Mo & Inc & Cov).
          exists c1, s1. split; [exact E|]. split; [exact IV1|]. split; [exact D1|].
          split; [intros x Hx; apply Mo, Mo', Hx|]. split; [exact Inc|].
          intros id0 ofs0 [H|H]; [inversion H; subst; left; apply Mo, B' | apply Cov, H].
        * rewrite E'.
          assert (Df' : deferred (second ++ [(id, ofs)])).
          { intros i o Hi. apply in_app_iff in Hi as [Hi|[Hi|[]]]; [apply Df, Hi|]. inversion Hi; subst.
            split; [apply Sub; left; reflexivity|]. split; [eapply Inv_c0_none; eauto|]. exists it, nx, r, n. auto. }
          destruct (IH c ostms (second ++ [(id, ofs)]) Sub' IV Df') as (c1 & s1 & E & IV1 & D1 & Mo & Inc & Cov).
          exists c1, s1. split; [exact E|]. split; [exact IV1|]. split; [exact D1|]. split; [exact Mo|].
          split; [intros x Hx; apply Inc, in_app_iff; left; exact Hx|].
          intros id0 ofs0 [H|H]; [inversion H; subst; right; apply Inc, in_app_iff; right; left; reflexivity | apply Cov, H].
    - cbn [pass1 ostms_of files]. apply IH; assumption.
  Qed.

  Lemma pass2_ok second : forall c,
    Inv c -> deferred second ->
    (forall id ofs it nx r n, In (id, ofs) second -> find f ofs = Some (it, nx) -> needs it r n ->
                              ctx_get c r = Some (VObj (OInt (Z.of_N n)))) ->
    exists c2, pass2 f flen second c = Some c2 /\ Inv c2 /\ (forall x, bound c x -> bound c2 x) /\
               (forall id ofs, In (id, ofs) second -> bound c2 id).
  Proof.
    induction second as [|[id ofs] second IH]; intros c IV Df HB.
    - exists c. cbn [pass2]. split; [reflexivity|]. split; [exact IV|]. split; [auto|]. intros ? ? [].
    - cbn [pass2].
      assert (Df' : deferred second) by (intros i o Hi; apply Df; right; exact Hi).
      destruct (ctx_get c id) as [w|] eqn:G; cbn [is_some].
      + destruct (IH c IV Df') as (c2 & E & IV2 & Mo & Cov); [intros; eapply HB; eauto; right; eassumption|].
        exists c2. split; [exact E|]. split; [exact IV2|]. split; [exact Mo|].
        intros id0 ofs0 [H|H]; [inversion H; subst; apply Mo; unfold bound; congruence | eapply Cov, H].
      + destruct (Df id ofs (or_introl eq_refl)) as (Hin & _ & _).
        destruct (load_one_step c id ofs IV Hin G) as [(c' & E' & IV' & B' & Mo' & Keep) | (E' & it & nx & r & n & F & Nd)].
        * rewrite E'. destruct (IH c' IV' Df') as (c2 & E & IV2 & Mo & Cov).
          { intros i o it0 nx0 r0 n0 Hi F0 N0. apply Keep. eapply HB; eauto. right. exact Hi. }
          exists c2. split; [exact E|]. split; [exact IV2|]. split; [intros x Hx; apply Mo, Mo', Hx|].
          intros id0 ofs0 [H|H]; [inversion H; subst; apply Mo, B' | eapply Cov, H].
        * exfalso. (* the holder is bound, so the parse cannot defer again *)
          pose proof (HB id ofs it nx r n (or_introl eq_refl) F Nd) as Gr.
          unfold load_one in E'. pose proof (Inv_c0_none _ _ IV G) as G0.
          destruct (Good id ofs Hin G0) as (Hb & it' & nx' & v & F' & V & _).
          rewrite F in F'. inversion F'; subst it' nx'.
          rewrite Hb in E'. cbn [negb] in E'. rewrite F in E'.
          rewrite (indirect_needs_some c it r n id v Nd Gr V G) in E'. rewrite oid_eqb_refl in E'. discriminate.
  Qed.

  (* both passes: the context afterwards *)
  Theorem passes12 :
    Inv c0 ->
    exists c1 second c2,
      pass1 f flen I c0 [] [] = Some (c1, ostms_of I [], second) /\ pass2 f flen second c1 = Some c2 /\
      (forall id v, ctx_get c0 id = Some v -> ctx_get c2 id = Some v) /\
      (forall id v, ctx_get c0 id = None -> (ctx_get c2 id = Some v <-> tgt id v)).
  Proof.
    intros IV0.
    destruct (pass1_ok I c0 [] [] (fun _ _ H => H) IV0) as (c1 & s1 & E1 & IV1 & D1 & Mo1 & _ & Cov1); [intros ? ? []|].
    assert (HB : forall id ofs it nx r n, In (id, ofs) s1 -> find f ofs = Some (it, nx) -> needs it r n ->
                                          ctx_get c1 r = Some (VObj (OInt (Z.of_N n)))).
    { intros id ofs it nx r n Hin F Nd. destruct (D1 _ _ Hin) as (HinF & G0 & _).
      destruct (Good id ofs HinF G0) as (_ & it' & nx' & v & F' & V & Cases). rewrite F in F'. inversion F'; subst it' nx'.
      destruct Cases as [S | (r' & n' & Nd' & Ho)]; [exfalso; eapply needs_not_simple; eauto|].
      destruct (needs_fun _ _ _ _ _ Nd Nd') as [<- <-].
      pose proof Ho as (ofr & nxr & Hinr & G0r & Fr).
      destruct (Cov1 r ofr Hinr) as [B|Hd].
      - destruct (ctx_get c1 r) as [l|] eqn:Gr; [|exfalso; apply B; exact Gr].
        destruct IV1 as [_ K]. destruct (K _ _ Gr) as [H0|[_ Tl]]; [congruence|].
        rewrite (tgt_unique _ _ _ Tl (holder_tgt _ _ Ho)). reflexivity.
      - exfalso. destruct (D1 _ _ Hd) as (_ & _ & it2 & nx2 & r2 & n2 & F2 & N2). rewrite Fr in F2. inversion F2; subst.
        cbn [needs] in N2. exact N2. }
    destruct (pass2_ok s1 c1 IV1 D1 HB) as (c2 & E2 & IV2 & Mo2 & Cov2).
    exists c1, s1, c2. split; [exact E1|]. split; [exact E2|]. destruct IV2 as [M K]. split; [exact M|].
    intros id v G0. split.
    - intros H. destruct (K _ _ H) as [H0|[_ T]]; [congruence | exact T].
    - intros T. pose proof T as (ofs & it & nx & Hin & F & V).
      assert (B : bound c2 id).
      { destruct (Cov1 id ofs Hin) as [B|Hd]; [apply Mo2, B | eapply Cov2, Hd]. }
      destruct (ctx_get c2 id) as [w|] eqn:G; [|exfalso; apply B; exact G].
      destruct (K _ _ G) as [H0|[_ T']]; [congruence|]. rewrite (tgt_unique _ _ _ T T'). reflexivity.
  Qed.
End Passes.

(* ---------- the object-stream pass ---------- *)
Fixpoint assocN (ms : list (N * obj)) (n : N) : option obj :=
  match ms with
  | [] => None
  | (k, v) :: r => if N.eqb k n then Some v else assocN r n
  end.

(* members are registered under generation 0 *)
Definition mget (ms : list (N * obj)) (id : oid) : option obj :=
  if N.eqb (snd id) 0 then assocN ms (fst id) else None.

Lemma assocN_none ms n : ~ In n (map fst ms) -> assocN ms n = None.
Proof.
  induction ms as [|[k v] ms IH]; cbn [assocN map In fst]; [reflexivity|].
  intros H. destruct (N.eqb k n) eqn:E; [apply N.eqb_eq in E; tauto | apply IH; tauto].
Qed.

Lemma assocN_app a b n : assocN (a ++ b) n = match assocN a n with Some v => Some v | None => assocN b n end.
Proof. induction a as [|[k v] a IH]; cbn [app assocN]; [reflexivity|]. destruct (N.eqb k n); [reflexivity | exact IH]. Qed.

Lemma assocN_In ms n v : assocN ms n = Some v -> In (n, v) ms.
Proof.
  induction ms as [|[k w] ms IH]; cbn [assocN In]; [discriminate|].
  destruct (N.eqb k n) eqn:E; [apply N.eqb_eq in E; intros H; inversion H; subst; auto | intros H; right; apply IH, H].
Qed.

Lemma In_assocN ms n v : NoDup (map fst ms) -> In (n, v) ms -> assocN ms n = Some v.
Proof.
  induction ms as [|[k w] ms IH]; cbn [assocN In map fst]; [tauto|].
  intros ND [H|H]; inversion ND as [|? ? Hn ND']; subst.
  - inversion H; subst. rewrite N.eqb_refl. reflexivity.
  - destruct (N.eqb k n) eqn:E; [|apply IH; assumption].
    apply N.eqb_eq in E. subst. exfalso. apply Hn. change n with (fst (n, v)). apply in_map, H.
Qed.

Lemma reg_members_fresh ms : forall c,
  (forall n v, In (n, v) ms -> ctx_get c (n, 0%N) = None) -> NoDup (map fst ms) ->
  forall id, ctx_get (reg_members ms c) id = match mget ms id with Some v => Some (VObj v) | None => ctx_get c id end.
Proof.
  induction ms as [|[n v] ms IH]; intros c Fr ND id; cbn [reg_members].
  - unfold mget. cbn [assocN]. destruct (N.eqb (snd id) 0); reflexivity.
  - rewrite register_fresh by (apply (Fr n v); left; reflexivity).
    cbn [map fst] in ND. inversion ND as [|? ? Hn ND']; subst.
    rewrite IH.
    + unfold mget. cbn [assocN]. destruct id as [i g]. cbn [fst snd].
      destruct (N.eqb g 0) eqn:Eg.
      * apply N.eqb_eq in Eg. subst g. destruct (N.eqb n i) eqn:Ei.
        -- apply N.eqb_eq in Ei. subst i. rewrite assocN_none by exact Hn. rewrite ctx_get_set_same. reflexivity.
        -- destruct (assocN ms i); [reflexivity|]. apply ctx_get_set_other. intros H. inversion H; subst. rewrite N.eqb_refl in Ei. discriminate.
      * apply ctx_get_set_other. intros H. inversion H; subst. cbn in Eg. discriminate.
    + intros n' v' Hin. rewrite ctx_get_set_other; [apply (Fr n' v'); right; exact Hin|].
      intros H. inversion H; subst. apply Hn. change n with (fst (n, v')). apply in_map, Hin.
    + exact ND'.
Qed.

Lemma NoDup_app_l {A} (a b : list A) : NoDup (a ++ b) -> NoDup a.
Proof.
  induction a as [|x a IH]; cbn [app]; [constructor|]. intros H. inversion H; subst.
  constructor; [intros Hx; apply H2, in_app_iff; left; exact Hx | apply IH; assumption].
Qed.
Lemma NoDup_app_r {A} (a b : list A) : NoDup (a ++ b) -> NoDup b.
Proof. induction a as [|x a IH]; cbn [app]; [auto|]. intros H. inversion H; subst. apply IH; assumption. Qed.

Definition members_of (c0 : ctx) (cid : oid) : list (N * obj) :=
  match ctx_get c0 cid with Some (VObjStm ms) => ms | _ => [] end.
Definition all_members (c0 : ctx) (ostms : list oid) : list (N * obj) := concat (map (members_of c0) ostms).

Lemma pass3_spec ostms : forall c0 c,
  (forall n v, In (n, v) (all_members c0 ostms) -> ctx_get c (n, 0%N) = None) -> NoDup (map fst (all_members c0 ostms)) ->
  forall id, ctx_get (pass3 ostms c0 c) id =
             match mget (all_members c0 ostms) id with Some v => Some (VObj v) | None => ctx_get c id end.
Proof.
  induction ostms as [|cid ostms IH]; intros c0 c Fr ND id; cbn [pass3].
  - unfold all_members, mget. cbn. destruct (N.eqb (snd id) 0); reflexivity.
  - unfold all_members in *. cbn [map concat] in *. rewrite map_app in ND.
    assert (Eq : pass3 (cid :: ostms) c0 c = pass3 ostms c0 (reg_members (members_of c0 cid) c)).
    { cbn [pass3]. unfold members_of. destruct (ctx_get c0 cid) as [[| |ms]|]; reflexivity. }
    cbn [pass3] in Eq. rewrite Eq. clear Eq.
    assert (ND1 : NoDup (map fst (members_of c0 cid))) by (eapply NoDup_app_l; exact ND).
    assert (ND2 : NoDup (map fst (concat (map (members_of c0) ostms)))) by (eapply NoDup_app_r; exact ND).
    assert (Fr1 : forall n v, In (n, v) (members_of c0 cid) -> ctx_get c (n, 0%N) = None).
    { intros n v H. apply (Fr n v). apply in_app_iff. left. exact H. }
    rewrite IH.
    + rewrite reg_members_fresh by assumption. unfold mget. destruct (N.eqb (snd id) 0); [|reflexivity].
      rewrite assocN_app. destruct (assocN (members_of c0 cid) (fst id)) eqn:A1.
      * (* then it is not a member of a later stream *)
        rewrite assocN_none; [reflexivity|]. intros Hin. apply assocN_In in A1.
        clear -ND Hin A1. induction (members_of c0 cid) as [|[k w] L IHL]; [destruct A1|].
        cbn [map app fst] in ND. inversion ND as [|? ? Hn ND']; subst. destruct A1 as [H|H].
        -- inversion H; subst. apply Hn. apply in_app_iff. right. exact Hin.
        -- apply IHL; assumption.
      * reflexivity.
    + intros n v Hin. rewrite reg_members_fresh by assumption. unfold mget. cbn [fst snd]. rewrite N.eqb_refl.
      rewrite assocN_none; [apply (Fr n v); apply in_app_iff; right; exact Hin|].
      intros H. clear -ND H Hin. induction (members_of c0 cid) as [|[k w] L IHL]; [destruct H|].
      cbn [map app fst In] in *. inversion ND as [|? ? Hn ND']; subst. destruct H as [->|H].
      -- apply Hn. apply in_app_iff. right. change n with (fst (n, v)). apply in_map, Hin.
      -- apply IHL; assumption.
    + exact ND2.
Qed.
