(* Proofs/ObjStream.v — C05: stream framing in IndirectP.
   - framing: for EVERY payload, `stream` EOL payload [EOL] `endstream` with the declared length
     equal to the payload's length yields exactly the payload, located right after the EOL;
   - soundness: whatever is accepted as a stream was framed by its declared length (content is the
     [size] bytes at [start], size = declared length, `stream` EOL before, [EOL] `endstream` after);
   - the error classes of a bad /Length; CR alone / anything but [CR] LF after `stream` is rejected. *)
From PV Require Import Model.Obj Proofs.PrimBase Proofs.PrimTok Proofs.ObjDepth.
From Coq Require Import Lia.

(* ------------------------------------------------------------------ positions in pre ++ post *)
Lemma skipn_app_len {A} (pre post : list A) i : skipn (len pre + i) (pre ++ post) = skipn i post.
Proof. unfold len. induction pre; cbn; [reflexivity|assumption]. Qed.

Lemma peek_app pre post i : peek (pre ++ post) (len pre + i) = peek post i.
Proof. unfold peek, len. rewrite nth_error_app2 by lia. f_equal. lia. Qed.

Lemma peek_is_app pre post i b : peek_is (pre ++ post) (len pre + i) b = peek_is post i b.
Proof. unfold peek_is. rewrite peek_app. reflexivity. Qed.

Lemma opt_byte_app pre post i x : opt_byte (pre ++ post) (len pre + i) x = len pre + opt_byte post i x.
Proof. unfold opt_byte. rewrite peek_is_app. destruct (peek_is post i x); lia. Qed.

Lemma exact_app tag pre post i :
  exact tag (pre ++ post) (len pre + i) =
  match exact tag post i with Some e => Some (len pre + e) | None => None end.
Proof. unfold exact. rewrite skipn_app_len. destruct (prefixb tag (skipn i post)); f_equal; lia. Qed.

Lemma sub_app (pre post : bytes) i j : sub (pre ++ post) (len pre + i) (len pre + j) = sub post i j.
Proof. unfold sub. rewrite skipn_app_len. f_equal. lia. Qed.

Lemma len_app (a b : bytes) : len (a ++ b) = len a + len b.
Proof. apply app_length. Qed.

(* StreamContentP is translation invariant *)
Definition shift_res (k : nat) (r : pres (lv streamT)) : pres (lv streamT) :=
  match r with
  | POk ((st, sz, v), a, b) c => POk ((k + st, sz, v), k + a, k + b) (k + c)
  | PErr e c => PErr e (k + c)
  | PPanic => PPanic
  | PFuel => PFuel
  end.

Lemma stream_flat_app n e pre post i :
  stream_flat n e (pre ++ post) (len pre + i) = shift_res (len pre) (stream_flat n e post i).
Proof.
  unfold stream_flat. rewrite exact_app.
  destruct (exact kw_stream post i) as [c1|]; [|reflexivity]. cbv zeta.
  rewrite opt_byte_app, peek_is_app.
  destruct (peek_is post (opt_byte post c1 13) 10); cbn [negb]; [|reflexivity].
  rewrite len_app.
  replace (len pre + len post - S (len pre + opt_byte post c1 13)) with (len post - S (opt_byte post c1 13)) by lia.
  destruct (Nat.ltb _ n); [reflexivity|].
  replace (S (len pre + opt_byte post c1 13) + n) with (len pre + (S (opt_byte post c1 13) + n)) by lia.
  rewrite !opt_byte_app.
  replace (Nat.eqb (len pre + (S (opt_byte post c1 13) + n)) (len pre + opt_byte post (opt_byte post (S (opt_byte post c1 13) + n) 13) 10))
    with (Nat.eqb (S (opt_byte post c1 13) + n) (opt_byte post (opt_byte post (S (opt_byte post c1 13) + n) 13) 10)).
  2:{ match goal with |- Nat.eqb ?a ?b = Nat.eqb ?x ?y => destruct (Nat.eqb_spec a b), (Nat.eqb_spec x y); try reflexivity; lia end. }
  destruct (e && _)%bool; [reflexivity|].
  rewrite exact_app. destruct (exact kw_endstream post _); [|reflexivity].
  cbn [shift_res].
  replace (S (len pre + opt_byte post c1 13)) with (len pre + S (opt_byte post c1 13)) by lia.
  replace (len pre + S (opt_byte post c1 13) + n) with (len pre + (S (opt_byte post c1 13) + n)) by lia.
  rewrite sub_app. reflexivity.
Qed.

(* ------------------------------------------------------------------ framing *)
Definition eol1_ok (e : bytes) : Prop := e = [10%N] \/ e = [13%N; 10%N].
Definition eol2_ok (e : bytes) : Prop := e = [] \/ e = [13%N] \/ e = [10%N] \/ e = [13%N; 10%N].

Lemma prefixb_app_self tag rest : prefixb tag (tag ++ rest) = true.
Proof. induction tag; cbn; [reflexivity|]. rewrite N.eqb_refl. assumption. Qed.

Lemma exact_self tag rest : exact tag (tag ++ rest) 0 = Some (len tag).
Proof. unfold exact. cbn [skipn]. rewrite prefixb_app_self. reflexivity. Qed.

Lemma firstn_app_len {A} (a b : list A) : firstn (len a) (a ++ b) = a.
Proof. unfold len. induction a; cbn; [reflexivity|]. f_equal. assumption. Qed.

(* at cursor 0 of  "stream" eol1 payload eol2 "endstream" rest *)
Lemma stream_flat_framing0 eol1 payload eol2 rest :
  eol1_ok eol1 -> eol2_ok eol2 ->
  stream_flat (len payload) false (kw_stream ++ eol1 ++ payload ++ eol2 ++ kw_endstream ++ rest) 0 =
  POk ((6 + len eol1, len payload, payload), 0, 6 + len eol1 + len payload + len eol2 + 9)
      (6 + len eol1 + len payload + len eol2 + 9).
Proof.
  intros H1 H2.
  set (U := eol2 ++ kw_endstream ++ rest).
  (* the head is concrete *)
  assert (G : forall H, H = kw_stream ++ eol1 ->
          exact kw_stream (H ++ payload ++ U) 0 = Some 6 /\
          S (opt_byte (H ++ payload ++ U) 6 13) = len H /\
          peek_is (H ++ payload ++ U) (opt_byte (H ++ payload ++ U) 6 13) 10 = true).
  { intros H ->. destruct H1 as [->| ->]; cbn; repeat split; reflexivity. }
  (* the tail is concrete up to [rest] *)
  assert (T : exists k, k = len eol2 /\ opt_byte U (opt_byte U 0 13) 10 = k /\
                        exact kw_endstream U k = Some (k + 9)).
  { exists (len eol2). split; [reflexivity|]. split.
    - unfold U. destruct H2 as [->|[->|[->| ->]]]; reflexivity.
    - unfold U. replace (len eol2) with (len eol2 + 0) at 1 by lia. rewrite exact_app, exact_self. reflexivity. }
  destruct T as (k & Ek & Eo & Ee).
  specialize (G (kw_stream ++ eol1) eq_refl). destruct G as (G1 & G2 & G3).
  set (H := kw_stream ++ eol1) in *.
  replace (kw_stream ++ eol1 ++ payload ++ U) with (H ++ payload ++ U) by (unfold H; rewrite <- app_assoc; reflexivity).
  assert (LH : len H = 6 + len eol1) by (unfold H; rewrite len_app; reflexivity).
  unfold stream_flat. rewrite G1. cbv zeta. rewrite G3. cbn [negb].
  rewrite G2.
  assert (LT : len (H ++ payload ++ U) = len H + len payload + len U) by (rewrite !len_app; lia).
  rewrite LT. destruct (Nat.ltb_spec (len H + len payload + len U - len H) (len payload)); [lia|].
  cbn [andb].
  (* positions behind the payload *)
  replace (H ++ payload ++ U) with ((H ++ payload) ++ U) by (rewrite <- app_assoc; reflexivity).
  replace (len H + len payload) with (len (H ++ payload) + 0) by (rewrite len_app; lia).
  rewrite !opt_byte_app. rewrite Eo. rewrite exact_app, Ee.
  assert (Es : sub ((H ++ payload) ++ U) (len H) (len (H ++ payload) + 0) = payload).
  { rewrite <- app_assoc. replace (len (H ++ payload) + 0) with (len H + len payload) by (rewrite len_app; lia).
    replace (len H) with (len H + 0) at 1 by lia. rewrite sub_app. unfold sub. cbn [skipn].
    rewrite Nat.sub_0_r. apply firstn_app_len. }
  rewrite Es, len_app, LH, Ek.
  replace (6 + len eol1 + len payload + (len eol2 + 9)) with (6 + len eol1 + len payload + len eol2 + 9) by lia.
  reflexivity.
Qed.

(* C05_framing at the StreamContentP level: any prefix, ANY payload *)
Theorem stream_content_framing s0 eol1 payload eol2 rest :
  eol1_ok eol1 -> eol2_ok eol2 ->
  let s := s0 ++ kw_stream ++ eol1 ++ payload ++ eol2 ++ kw_endstream ++ rest in
  let e := len s0 + 6 + len eol1 + len payload + len eol2 + 9 in
  stream_content (len payload) false s (len s0) =
  POk ((len s0 + 6 + len eol1, len payload, payload), len s0, e) e.
Proof.
  intros H1 H2 s e. unfold s.
  rewrite stream_content_flat by (rewrite len_app; lia).
  replace (len s0) with (len s0 + 0) at 1 by lia.
  rewrite stream_flat_app, stream_flat_framing0 by assumption.
  cbn [shift_res]. unfold e.
  replace (len s0 + (6 + len eol1)) with (len s0 + 6 + len eol1) by lia.
  replace (len s0 + 0) with (len s0) by lia.
  replace (len s0 + (6 + len eol1 + len payload + len eol2 + 9)) with (len s0 + 6 + len eol1 + len payload + len eol2 + 9) by lia.
  reflexivity.
Qed.

(* lengths beyond the buffer all fail alike: the clamp in Model/Obj.v changes nothing *)
Lemma stream_content_clamp l e s c :
  c <= len s -> (0 <= l)%Z -> stream_content (clamp_len s l) e s c = stream_content (Z.to_nat l) e s c.
Proof.
  intros Hc Hl. unfold clamp_len.
  destruct (Z.leb_spec l (Z.of_nat (S (len s)))) as [Hle|Hgt].
  - rewrite Z.min_l by assumption. reflexivity.
  - rewrite Z.min_r by lia. rewrite Nat2Z.id.
    rewrite !stream_content_flat by assumption. unfold stream_flat.
    destruct (exact kw_stream s c); [|reflexivity]. cbv zeta.
    destruct (negb _); [reflexivity|].
    destruct (Nat.ltb_spec (len s - S (opt_byte s n 13)) (S (len s))); [|lia].
    destruct (Nat.ltb_spec (len s - S (opt_byte s n 13)) (Z.to_nat l)); [reflexivity|lia].
Qed.

(* the declared length of a stream dictionary: Some l iff the /Length lookup succeeds *)
Definition declared (ctx : octx) (d : list (bytes * obj)) : option Z :=
  match stream_length ctx d with Ok l => Some l | _ => None end.

Lemma stream_length_nonneg ctx d l : stream_length ctx d = Ok l -> (0 <= l)%Z.
Proof.
  unfold stream_length, convert_stream_length, int_is_usize. intros H.
  destruct (dict_get d key_Length) as [v|]; [|discriminate].
  destruct v; try discriminate.
  - destruct (Z.leb_spec 0 z); [injection H as <-; assumption|discriminate].
  - destruct (octx_get ctx (num, gen)) as [o|]; [|discriminate].
    destruct o; try discriminate.
    destruct (Z.leb_spec 0 z); [injection H as <-; assumption|discriminate].
Qed.

Theorem stream_tail_framing ctx d os s0 eol1 payload eol2 rest :
  declared ctx d = Some (Z.of_nat (len payload)) ->
  eol1_ok eol1 -> eol2_ok eol2 ->
  let s := s0 ++ kw_stream ++ eol1 ++ payload ++ eol2 ++ kw_endstream ++ rest in
  let e := len s0 + 6 + len eol1 + len payload + len eol2 + 9 in
  stream_tail ctx d os s (len s0) =
  POk (OStream d payload, os, e, Some (len s0 + 6 + len eol1, len payload)) e.
Proof.
  intros Hd H1 H2 s e. unfold stream_tail. unfold declared in Hd.
  destruct (stream_length ctx d) as [l| | |] eqn:El; try discriminate. injection Hd as ->.
  rewrite stream_content_clamp by (unfold s; rewrite ?len_app; lia).
  rewrite Nat2Z.id. unfold s. rewrite stream_content_framing by assumption. reflexivity.
Qed.

(* ------------------------------------------------------------------ soundness (inversion) *)
Theorem stream_tail_sound ctx d os s c v os' oe' strm c' :
  c <= len s ->
  stream_tail ctx d os s c = POk (v, os', oe', strm) c' ->
  exists l st sz,
    declared ctx d = Some l /\ Z.of_nat sz = l /\
    strm = Some (st, sz) /\ v = OStream d (sub s st (st + sz)) /\ st + sz <= len s /\
    os' = os /\ oe' = c' /\
    (* `stream`, optional CR, LF, then the data *)
    exact kw_stream s c = Some (c + 6) /\ st = S (opt_byte s (c + 6) 13) /\ peek_is s (st - 1) 10 = true /\
    (* optional CR, optional LF, `endstream` right behind the data *)
    exact kw_endstream s (opt_byte s (opt_byte s (st + sz) 13) 10) = Some c'.
Proof.
  intros Hc H. unfold stream_tail in H.
  destruct (stream_length ctx d) as [l| | |] eqn:El; try discriminate.
  pose proof (stream_length_nonneg _ _ _ El) as Hl.
  apply bind_ok in H as (st0 & c1 & Es & H).
  destruct st0 as [[[[sstart ssize] content] a0] send]. cbn in H.
  injection H as <- <- <- <- <-.
  rewrite stream_content_flat in Es by assumption. unfold stream_flat in Es.
  destruct (exact kw_stream s c) as [k1|] eqn:E1; [|discriminate].
  destruct (exact_some _ _ _ _ E1) as [-> _]. change (len kw_stream) with 6 in *. cbv zeta in Es.
  destruct (peek_is s (opt_byte s (c + 6) 13) 10) eqn:E2; cbn [negb] in Es; [|discriminate].
  destruct (Nat.ltb_spec (len s - S (opt_byte s (c + 6) 13)) (clamp_len s l)) as [|Hn]; [discriminate|].
  cbn [andb] in Es.
  destruct (exact kw_endstream s _) as [k7|] eqn:E7; [|discriminate].
  injection Es as <- <- <- _ <- <-.
  pose proof (peek_is_lt _ _ _ E2) as Lt.
  assert (Hcl : clamp_len s l = Z.to_nat l).
  { unfold clamp_len in *. destruct (Z.leb_spec l (Z.of_nat (S (len s)))); [rewrite Z.min_l by assumption; reflexivity|].
    rewrite Z.min_r in Hn by lia. rewrite Nat2Z.id in Hn. lia. }
  exists l, (S (opt_byte s (c + 6) 13)), (clamp_len s l).
  unfold declared. rewrite El.
  split; [reflexivity|]. split; [rewrite Hcl; apply Z2Nat.id; assumption|].
  split; [reflexivity|]. split; [reflexivity|]. split; [lia|].
  split; [reflexivity|]. split; [reflexivity|]. split; [reflexivity|]. split; [reflexivity|].
  split; [|assumption].
  replace (S (opt_byte s (c + 6) 13) - 1) with (opt_byte s (c + 6) 13) by lia. assumption.
Qed.

(* ------------------------------------------------------------------ error classes *)
Definition not_int_or_ref (o : obj) : Prop :=
  match o with OInt _ | ORef _ _ => False | _ => True end.
Definition not_usize_int (o : obj) : Prop :=
  match o with OInt i => (i < 0)%Z | _ => True end.

Theorem stream_tail_len_errors ctx d os s c :
  (dict_get d key_Length = None -> stream_tail ctx d os s c = PErr EGuard c) /\
  (forall i, dict_get d key_Length = Some (OInt i) -> (i < 0)%Z -> stream_tail ctx d os s c = PErr EGuard c) /\
  (forall v, dict_get d key_Length = Some v -> not_int_or_ref v -> stream_tail ctx d os s c = PErr EGuard c) /\
  (forall n g o, dict_get d key_Length = Some (ORef n g) -> octx_get ctx (n, g) = Some o -> not_usize_int o ->
                 stream_tail ctx d os s c = PErr EGuard c) /\
  (forall n g, dict_get d key_Length = Some (ORef n g) -> octx_get ctx (n, g) = None ->
               stream_tail ctx d os s c = PErr EInsufficientContext c).
Proof.
  unfold stream_tail, stream_length, convert_stream_length, int_is_usize. repeat split.
  - intros ->. reflexivity.
  - intros i -> Hi. destruct (Z.leb_spec 0 i); [lia|reflexivity].
  - intros v -> Hv. destruct v; cbn in Hv; try contradiction; reflexivity.
  - intros n g o -> -> Ho. destruct o; try reflexivity. cbn in Ho. destruct (Z.leb_spec 0 z); [lia|reflexivity].
  - intros n g -> ->. reflexivity.
Qed.

(* declared length larger than what is left: EndOfBuffer, cursor back at `stream` *)
Theorem stream_tail_short ctx d os s c l :
  c <= len s -> declared ctx d = Some l ->
  exact kw_stream s c = Some (c + 6) -> peek_is s (opt_byte s (c + 6) 13) 10 = true ->
  (Z.of_nat (len s - S (opt_byte s (c + 6) 13)) < l)%Z ->
  stream_tail ctx d os s c = PErr EEndOfBuffer c.
Proof.
  intros Hc Hd E1 E2 Hl. unfold stream_tail. unfold declared in Hd.
  destruct (stream_length ctx d) as [l'| | |] eqn:El; try discriminate. injection Hd as ->.
  pose proof (stream_length_nonneg _ _ _ El).
  rewrite stream_content_clamp, stream_content_flat by assumption. unfold stream_flat.
  rewrite E1. cbv zeta. rewrite E2. cbn [negb].
  destruct (Nat.ltb_spec (len s - S (opt_byte s (c + 6) 13)) (Z.to_nat l)); [reflexivity|lia].
Qed.

(* after `stream`: anything but [CR] LF — CR alone, a space, end of buffer — is rejected *)
Theorem stream_tail_bad_eol ctx d os s c l :
  c <= len s -> declared ctx d = Some l ->
  exact kw_stream s c = Some (c + 6) -> peek_is s (opt_byte s (c + 6) 13) 10 = false ->
  stream_tail ctx d os s c = PErr EGuard c.
Proof.
  intros Hc Hd E1 E2. unfold stream_tail. unfold declared in Hd.
  destruct (stream_length ctx d) as [l'| | |] eqn:El; try discriminate.
  rewrite stream_content_flat by assumption. unfold stream_flat.
  rewrite E1. cbv zeta. rewrite E2. reflexivity.
Qed.

(* no `endstream` behind the declared number of bytes (+ optional EOL): rejected — never resynchronised *)
Theorem stream_tail_no_endstream ctx d os s c l :
  c <= len s -> declared ctx d = Some l ->
  exact kw_stream s c = Some (c + 6) -> peek_is s (opt_byte s (c + 6) 13) 10 = true ->
  let st := S (opt_byte s (c + 6) 13) in
  (l <= Z.of_nat (len s - st))%Z ->
  exact kw_endstream s (opt_byte s (opt_byte s (st + Z.to_nat l) 13) 10) = None ->
  stream_tail ctx d os s c = PErr EGuard c.
Proof.
  intros Hc Hd E1 E2 st Hl E7. unfold stream_tail. unfold declared in Hd.
  destruct (stream_length ctx d) as [l'| | |] eqn:El; try discriminate. injection Hd as ->.
  pose proof (stream_length_nonneg _ _ _ El).
  rewrite stream_content_clamp, stream_content_flat by assumption. unfold stream_flat.
  rewrite E1. cbv zeta. rewrite E2. cbn [negb].
  fold st. destruct (Nat.ltb_spec (len s - st) (Z.to_nat l)); [lia|].
  cbn [andb]. rewrite E7. reflexivity.
Qed.

(* ------------------------------------------------------------------ lifting to the indirect object *)
Lemma maybe_stream_dict ctx d os oe s c u c1 :
  ws_eol true s c = POk u c1 -> check_prefix kw_stream s c1 = true ->
  maybe_stream ctx (ODict d, os, oe) s c = stream_tail ctx d os s c1.
Proof. intros E1 E2. unfold maybe_stream. rewrite E1. cbn [bind]. rewrite E2. reflexivity. Qed.

Lemma indirect_internal_split rel b ctx s c num gen o c7 :
  indirect_head rel b s c = POk (num, gen, o) c7 ->
  indirect_internal rel b ctx s c = indirect_tail ctx c num gen o s c7.
Proof. intros H. unfold indirect_internal. rewrite H. reflexivity. Qed.

Lemma indirect_tail_err ctx start num gen o s c k c' :
  maybe_stream ctx o s c = PErr k c' -> indirect_tail ctx start num gen o s c = PErr k c'.
Proof. intros H. unfold indirect_tail. rewrite H. reflexivity. Qed.

(* a stream object inside `num gen obj … endobj` *)
Theorem indirect_framing rel b ctx s c num gen d os oe c7 u1 s0 eol1 payload eol2 rest u2 c9 c10 n g :
  indirect_head rel b s c = POk (num, gen, (ODict d, os, oe)) c7 ->        (* `num gen obj <<…>>` parsed *)
  ws_eol true s c7 = POk u1 (len s0) ->                                     (* whitespace up to the keyword *)
  s = s0 ++ kw_stream ++ eol1 ++ payload ++ eol2 ++ kw_endstream ++ rest ->
  declared ctx d = Some (Z.of_nat (len payload)) ->
  eol1_ok eol1 -> eol2_ok eol2 ->
  let e := len s0 + 6 + len eol1 + len payload + len eol2 + 9 in
  ws_eol true s e = POk u2 c9 -> exact kw_endobj s c9 = Some c10 ->         (* whitespace, `endobj` *)
  usize_N num = Some n -> usize_N gen = Some g -> octx_get ctx (n, g) = None ->
  indirect_internal rel b ctx s c =
  POk (mkInd n g (OStream d payload) os e (Some (len s0 + 6 + len eol1, len payload)), c, c10) c10.
Proof.
  intros Hh Hw Hs Hd H1 H2 e Hw2 He Hn Hg Hctx.
  rewrite (indirect_internal_split _ _ _ _ _ _ _ _ _ Hh). unfold indirect_tail.
  assert (Hp : check_prefix kw_stream s (len s0) = true).
  { subst s. unfold check_prefix. replace (len s0) with (len s0 + 0) by lia. rewrite skipn_app_len. cbn [skipn].
    apply prefixb_app_self. }
  rewrite (maybe_stream_dict _ _ _ _ _ _ _ _ Hw Hp).
  subst s. rewrite stream_tail_framing by assumption. cbn [bind]. fold e.
  rewrite Hw2. cbn [bind]. rewrite He, Hn, Hg, Hctx. reflexivity.
Qed.

(* whatever parse_pdf_indirect_obj accepts as a stream was framed by the declared length *)
Theorem indirect_sound ctx start num gen o s c i a b c' st sz :
  c <= len s -> (forall u c1, ws_eol true s c = POk u c1 -> c1 <= len s) ->
  indirect_tail ctx start num gen o s c = POk (i, a, b) c' ->
  i_stream i = Some (st, sz) ->
  exists d c1 u e,
    lv_val o = ODict d /\ ws_eol true s c = POk u c1 /\
    declared ctx d = Some (Z.of_nat sz) /\
    i_obj i = OStream d (sub s st (st + sz)) /\ st + sz <= len s /\
    exact kw_stream s c1 = Some (c1 + 6) /\ st = S (opt_byte s (c1 + 6) 13) /\ peek_is s (st - 1) 10 = true /\
    exact kw_endstream s (opt_byte s (opt_byte s (st + sz) 13) 10) = Some e /\ i_oend i = e /\
    (exists u' c9, ws_eol true s e = POk u' c9 /\ exact kw_endobj s c9 = Some c').
Proof.
  intros Hc Hws H Hst. unfold indirect_tail in H.
  apply bind_ok in H as (ob & c8 & Em & H).
  destruct ob as [[[v os'] oe'] strm].
  apply bind_ok in H as (u' & c9 & Ew & H).
  destruct (exact kw_endobj s c9) as [c10|] eqn:Ee; [|discriminate].
  destruct (usize_N num) as [n|]; [|discriminate]. destruct (usize_N gen) as [g|]; [|discriminate].
  destruct (octx_get ctx (n, g)); [discriminate|].
  injection H as <- _ _ <-. cbn [i_stream i_obj i_oend] in *. subst strm.
  unfold maybe_stream in Em. destruct o as [[ov os] oe]. cbn [lv_val].
  destruct ov; try (injection Em as _ _ _ Hx _; discriminate).
  apply bind_ok in Em as (u & c1 & Ew1 & Em).
  destruct (check_prefix kw_stream s c1); [|injection Em as _ _ _ Hx _; discriminate].
  apply stream_tail_sound in Em; [|eapply Hws, Ew1].
  destruct Em as (l' & st' & sz' & Hd & Hz & Hs & Hv & Hle & _ & Hoe & Hk & Hst' & Hlf & Hes).
  injection Hs as <- <-. subst l'.
  exists l, c1, u, c8. repeat split; try assumption; try (symmetry; assumption).
  exists u', c9. split; assumption.
Qed.
