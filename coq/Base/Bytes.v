(* Base/Bytes.v — bytes as [list N], hex / decimal text conversions used by the
   case protocol (model side), and a few list helpers.  Definitions only + small lemmas. *)
From Coq Require Export List NArith ZArith Lia Bool.
From Coq Require Import Ascii String Decimal.
Export ListNotations.
Export String.StringSyntax.

Definition byte := N.
Definition bytes := list N.

Definition len {A} (l : list A) : nat := List.length l.

(* ASCII literal: B "abc" *)
Definition B (s : string) : bytes := List.map N_of_ascii (list_ascii_of_string s).
Arguments B s%string.

Fixpoint bytes_eqb (a b : bytes) : bool :=
  match a, b with
  | [], [] => true
  | x :: a', y :: b' => N.eqb x y && bytes_eqb a' b'
  | _, _ => false
  end.

Lemma bytes_eqb_eq a b : bytes_eqb a b = true <-> a = b.
Proof.
  revert b; induction a as [|x a IH]; intros [|y b]; simpl; split; intros H;
    try reflexivity; try discriminate.
  - apply andb_true_iff in H as [H1 H2]. apply N.eqb_eq in H1. apply IH in H2. congruence.
  - inversion H; subst. rewrite N.eqb_refl. simpl. apply IH. reflexivity.
Qed.

Definition sub {A} (l : list A) (a b : nat) : list A := firstn (b - a) (skipn a l).

Fixpoint prefixb (p l : bytes) : bool :=
  match p, l with
  | [], _ => true
  | x :: p', y :: l' => N.eqb x y && prefixb p' l'
  | _ :: _, [] => false
  end.

Definition memb (x : N) (l : bytes) : bool := existsb (N.eqb x) l.

(* ---------- decimal text ---------- *)
Fixpoint show_uint (u : Decimal.uint) : bytes :=
  match u with
  | Nil => []
  | D0 u => 48%N :: show_uint u | D1 u => 49%N :: show_uint u | D2 u => 50%N :: show_uint u
  | D3 u => 51%N :: show_uint u | D4 u => 52%N :: show_uint u | D5 u => 53%N :: show_uint u
  | D6 u => 54%N :: show_uint u | D7 u => 55%N :: show_uint u | D8 u => 56%N :: show_uint u
  | D9 u => 57%N :: show_uint u
  end.
Definition show_N (n : N) : bytes :=
  match n with N0 => [48%N] | _ => show_uint (N.to_uint n) end.
Definition show_nat (n : nat) : bytes := show_N (N.of_nat n).
Definition show_Z (z : Z) : bytes :=
  match z with
  | Z0 => [48%N]
  | Zpos p => show_N (Npos p)
  | Zneg p => 45%N :: show_N (Npos p)
  end.

Definition is_digit (b : N) : bool := (48 <=? b)%N && (b <=? 57)%N.
Definition parse_N (s : bytes) : N := fold_left (fun a d => (a * 10 + (d - 48))%N) s 0%N.
Definition parse_nat (s : bytes) : nat := N.to_nat (parse_N s).
Definition parse_Z (s : bytes) : Z :=
  match s with
  | 45%N :: r => Z.opp (Z.of_N (parse_N r))
  | _ => Z.of_N (parse_N s)
  end.

(* ---------- hex text ---------- *)
Definition hexdig (n : N) : N := if (n <? 10)%N then (48 + n)%N else (87 + n)%N.
Fixpoint show_hex (s : bytes) : bytes :=
  match s with
  | [] => []
  | b :: r => hexdig (b / 16) :: hexdig (b mod 16) :: show_hex r
  end.
(* empty byte strings are written "-" so that every field is a non-empty token *)
Definition show_hex_tok (s : bytes) : bytes := match s with [] => [45%N] | _ => show_hex s end.

Definition unhexdig (c : N) : N :=
  if (48 <=? c)%N && (c <=? 57)%N then (c - 48)%N
  else if (97 <=? c)%N && (c <=? 102)%N then (c - 87)%N
  else if (65 <=? c)%N && (c <=? 70)%N then (c - 55)%N else 0%N.
Fixpoint unhex (s : bytes) : bytes :=
  match s with
  | a :: b :: r => (unhexdig a * 16 + unhexdig b)%N :: unhex r
  | _ => []
  end.

(* join tokens with single spaces *)
Fixpoint unwords (l : list bytes) : bytes :=
  match l with
  | [] => []
  | [x] => x
  | x :: r => x ++ 32%N :: unwords r
  end.

Definition nth_arg (args : list bytes) (i : nat) : bytes := nth i args [].

(* ---------- list lemmas used everywhere ---------- *)
Lemma sub_length {A} (l : list A) a b : a <= b -> b <= List.length l -> List.length (sub l a b) = b - a.
Proof. intros. unfold sub. rewrite firstn_length, skipn_length. lia. Qed.

Lemma skipn_skipn' {A} (a b : nat) (l : list A) : skipn a (skipn b l) = skipn (a + b) l.
Proof.
  revert l; induction b as [|b IH]; intros l; simpl.
  - rewrite Nat.add_0_r; reflexivity.
  - destruct l as [|x l]; [rewrite !skipn_nil; reflexivity|].
    rewrite Nat.add_succ_r. simpl. apply IH.
Qed.

Lemma sub_0_all {A} (l : list A) : sub l 0 (List.length l) = l.
Proof. unfold sub. simpl. rewrite Nat.sub_0_r. apply firstn_all. Qed.

Lemma nth_error_skipn {A} (l : list A) c : nth_error l c = hd_error (skipn c l).
Proof.
  revert l; induction c as [|c IH]; intros [|x l]; simpl; try reflexivity. apply IH.
Qed.

Lemma skipn_cons_nth {A} (l : list A) c x : nth_error l c = Some x -> skipn c l = x :: skipn (S c) l.
Proof.
  revert l; induction c as [|c IH]; intros [|y l] H; simpl in *; try discriminate.
  - inversion H; reflexivity.
  - apply IH; exact H.
Qed.

Lemma In_firstn {A} n (l : list A) x : In x (firstn n l) -> In x l.
Proof.
  revert l; induction n as [|n IH]; intros [|y l] H; simpl in *; try contradiction.
  destruct H as [H|H]; [left; exact H | right; apply IH; exact H].
Qed.

Lemma In_skipn {A} n (l : list A) x : In x (skipn n l) -> In x l.
Proof.
  revert l; induction n as [|n IH]; intros [|y l] H; simpl in *; try contradiction; try exact H.
  right; apply IH; exact H.
Qed.

Lemma firstn_plus {A} a b (l : list A) : firstn (a + b) l = firstn a l ++ firstn b (skipn a l).
Proof.
  revert l; induction a as [|a IH]; intros l; simpl; [reflexivity|].
  destruct l as [|x l]; simpl; [rewrite firstn_nil; reflexivity|]. f_equal. apply IH.
Qed.

Lemma sub_split {A} (s : list A) a m b : a <= m -> m <= b -> sub s a b = sub s a m ++ sub s m b.
Proof.
  intros H1 H2. unfold sub.
  replace (b - a) with ((m - a) + (b - m)) by lia.
  rewrite firstn_plus. f_equal. rewrite skipn_skipn'. f_equal. f_equal. lia.
Qed.

Lemma Forall_sub {A} (P : A -> Prop) (s : list A) a b : Forall P s -> Forall P (sub s a b).
Proof.
  intros H. apply Forall_forall. intros x Hx. unfold sub in Hx.
  apply In_firstn, In_skipn in Hx. rewrite Forall_forall in H. apply H, Hx.
Qed.
