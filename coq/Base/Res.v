(* Base/Res.v — outcomes of model functions.  Every model function can express everything
   the Rust can do: a value, an error of a given kind, a panic, or running out of model fuel. *)
From PV Require Export Base.Bytes.
From Coq Require Import String.

(* mirrors parsebuffer.rs ErrorKind without message text *)
Inductive ekind := EEndOfBuffer | EInsufficientContext | EBounds | EPrim | EGuard | ETransform.

Definition ekind_eqb (a b : ekind) : bool :=
  match a, b with
  | EEndOfBuffer, EEndOfBuffer | EInsufficientContext, EInsufficientContext | EBounds, EBounds
  | EPrim, EPrim | EGuard, EGuard | ETransform, ETransform => true
  | _, _ => false
  end.

Definition show_ekind (k : ekind) : bytes :=
  match k with
  | EEndOfBuffer => B "eob" | EInsufficientContext => B "ctx" | EBounds => B "bounds"
  | EPrim => B "prim" | EGuard => B "guard" | ETransform => B "transform"
  end.

(* parser outcome over an abstract buffer (bytes, cursor): the cursor after the call is part of
   the outcome on success *and* on failure (C15 is about exactly that). *)
Inductive pres (A : Type) :=
| POk (a : A) (c : nat)
| PErr (k : ekind) (c : nat)
| PPanic
| PFuel.
Arguments POk {A} a c.
Arguments PErr {A} k c.
Arguments PPanic {A}.
Arguments PFuel {A}.

(* plain outcome *)
Inductive res (A : Type) :=
| Ok (a : A)
| Err (k : ekind)
| Panic
| Fuel.
Arguments Ok {A} a.
Arguments Err {A} k.
Arguments Panic {A}.
Arguments Fuel {A}.

Definition show_pres {A} (sh : A -> bytes) (r : pres A) : bytes :=
  match r with
  | POk a c => B "ok " ++ sh a ++ B " @" ++ show_nat c
  | PErr k c => B "err " ++ show_ekind k ++ B " @" ++ show_nat c
  | PPanic => B "panic"
  | PFuel => B "fuel"
  end.

Definition show_res {A} (sh : A -> bytes) (r : res A) : bytes :=
  match r with
  | Ok a => B "ok " ++ sh a
  | Err k => B "err " ++ show_ekind k
  | Panic => B "panic"
  | Fuel => B "fuel"
  end.
