(* Base/PdfObj.v — PDF object values without locations (the library's own equality on
   LocatedVal ignores them), canonical one-token text form shared with harness/src/pdfobj.rs:

     n | t | f | i<int> | q<num>/<den> | s<hex> | m<hex> | c<hex> | R<num>.<gen>
     A(o,o,…) | D(<hexkey>:o,…) | S(D(…),<hex content>)

   Dictionaries are association lists kept sorted by the lexicographic byte order that
   BTreeMap<DictKey> uses (iteration order is observable). *)
From PV Require Export Base.Res.

Inductive obj :=
| ONull
| OBool (b : bool)
| OInt (z : Z)
| OReal (n d : Z)
| OStr (s : bytes)
| OName (s : bytes)
| OComment (s : bytes)
| ORef (num gen : N)
| OArr (l : list obj)
| ODict (l : list (bytes * obj))
| OStream (d : list (bytes * obj)) (content : bytes).

(* lexicographic order on byte strings (Vec<u8> Ord) *)
Fixpoint bytes_cmp (a b : bytes) : comparison :=
  match a, b with
  | [], [] => Eq
  | [], _ :: _ => Lt
  | _ :: _, [] => Gt
  | x :: a', y :: b' => match N.compare x y with Eq => bytes_cmp a' b' | c => c end
  end.

(* BTreeMap::insert: replaces an existing binding, returns the new map and whether one existed *)
Fixpoint dict_insert {V} (k : bytes) (v : V) (d : list (bytes * V)) : list (bytes * V) * bool :=
  match d with
  | [] => ([(k, v)], false)
  | (k', v') :: r =>
    match bytes_cmp k k' with
    | Lt => ((k, v) :: d, false)
    | Eq => ((k, v) :: r, true)
    | Gt => let '(r', b) := dict_insert k v r in ((k', v') :: r', b)
    end
  end.

Fixpoint dict_get {V} (d : list (bytes * V)) (k : bytes) : option V :=
  match d with
  | [] => None
  | (k', v) :: r => if bytes_eqb k k' then Some v else dict_get r k
  end.

Fixpoint dict_remove {V} (d : list (bytes * V)) (k : bytes) : list (bytes * V) :=
  match d with
  | [] => []
  | (k', v) :: r => if bytes_eqb k k' then dict_remove r k else (k', v) :: dict_remove r k
  end.

(* ---------- show ---------- *)
Fixpoint intercalate (sep : bytes) (l : list bytes) : bytes :=
  match l with
  | [] => []
  | [x] => x
  | x :: r => x ++ sep ++ intercalate sep r
  end.

Fixpoint show_obj (o : obj) : bytes :=
  match o with
  | ONull => B "n"
  | OBool true => B "t"
  | OBool false => B "f"
  | OInt z => B "i" ++ show_Z z
  | OReal n d => B "q" ++ show_Z n ++ B "/" ++ show_Z d
  | OStr s => B "s" ++ show_hex s
  | OName s => B "m" ++ show_hex s
  | OComment s => B "c" ++ show_hex s
  | ORef n g => B "R" ++ show_N n ++ B "." ++ show_N g
  | OArr l => B "A(" ++ intercalate (B ",") (List.map show_obj l) ++ B ")"
  | ODict l => B "D(" ++ intercalate (B ",") (List.map (fun kv => show_hex (fst kv) ++ B ":" ++ show_obj (snd kv)) l) ++ B ")"
  | OStream d c =>
    B "S(D(" ++ intercalate (B ",") (List.map (fun kv => show_hex (fst kv) ++ B ":" ++ show_obj (snd kv)) d) ++ B ")," ++ show_hex c ++ B ")"
  end.

(* ---------- read (recursive descent on fuel = length of the text) ---------- *)
Definition is_hexdig (c : N) : bool :=
  ((48 <=? c) && (c <=? 57) || (97 <=? c) && (c <=? 102) || (65 <=? c) && (c <=? 70))%N.

Fixpoint span_while (p : N -> bool) (s : bytes) : bytes * bytes :=
  match s with
  | c :: r => if p c then let '(a, b) := span_while p r in (c :: a, b) else ([], s)
  | [] => ([], [])
  end.

Definition is_numch (c : N) : bool := is_digit c || N.eqb c 45.

(* read_obj fuel s = Some (o, rest) *)
Fixpoint read_obj (fuel : nat) (s : bytes) : option (obj * bytes) :=
  match fuel with
  | O => None
  | S f =>
    let read_items :=
      (fix items (n : nat) (s : bytes) (acc : list obj) : option (list obj * bytes) :=
         match n with O => None | S n' =>
         match s with
         | 41%N :: r => Some (rev acc, r)            (* ')' *)
         | 44%N :: r => items n' r acc                (* ',' *)
         | _ => match read_obj f s with
                | Some (o, r) => items n' r (o :: acc)
                | None => None
                end
         end end) in
    let read_ents :=
      (fix ents (n : nat) (s : bytes) (acc : list (bytes * obj)) : option (list (bytes * obj) * bytes) :=
         match n with O => None | S n' =>
         match s with
         | 41%N :: r => Some (rev acc, r)
         | 44%N :: r => ents n' r acc
         | _ => let '(k, r1) := span_while is_hexdig s in
                match r1 with
                | 58%N :: r2 =>                        (* ':' *)
                  match read_obj f r2 with
                  | Some (o, r3) => ents n' r3 ((unhex k, o) :: acc)
                  | None => None
                  end
                | _ => None
                end
         end end) in
    match s with
    | 110%N :: r => Some (ONull, r)
    | 116%N :: r => Some (OBool true, r)
    | 102%N :: r => Some (OBool false, r)
    | 105%N :: r => let '(d, r') := span_while is_numch r in Some (OInt (parse_Z d), r')
    | 113%N :: r => let '(n, r1) := span_while is_numch r in
                    match r1 with
                    | 47%N :: r2 => let '(d, r3) := span_while is_numch r2 in Some (OReal (parse_Z n) (parse_Z d), r3)
                    | _ => None
                    end
    | 115%N :: r => let '(h, r') := span_while is_hexdig r in Some (OStr (unhex h), r')
    | 109%N :: r => let '(h, r') := span_while is_hexdig r in Some (OName (unhex h), r')
    | 99%N :: r => let '(h, r') := span_while is_hexdig r in Some (OComment (unhex h), r')
    | 82%N :: r => let '(n, r1) := span_while is_digit r in
                   match r1 with
                   | 46%N :: r2 => let '(g, r3) := span_while is_digit r2 in Some (ORef (parse_N n) (parse_N g), r3)
                   | _ => None
                   end
    | 65%N :: 40%N :: r =>
      match read_items (S (len r)) r [] with Some (l, r') => Some (OArr l, r') | None => None end
    | 68%N :: 40%N :: r =>
      match read_ents (S (len r)) r [] with Some (l, r') => Some (ODict l, r') | None => None end
    | 83%N :: 40%N :: 68%N :: 40%N :: r =>
      match read_ents (S (len r)) r [] with
      | Some (l, 44%N :: r1) =>
        let '(h, r2) := span_while is_hexdig r1 in
        match r2 with 41%N :: r3 => Some (OStream l (unhex h), r3) | _ => None end
      | _ => None
      end
    | _ => None
    end
  end.

Definition read_obj_tok (s : bytes) : option obj :=
  match read_obj (S (len s)) s with Some (o, []) => Some o | _ => None end.

(* object contexts: id ↦ object, as "num.gen=obj;num.gen=obj" handled by the callers *)
Definition octx := list ((N * N) * obj).
Fixpoint octx_get (c : octx) (id : N * N) : option obj :=
  match c with
  | [] => None
  | ((n, g), o) :: r => if (N.eqb n (fst id) && N.eqb g (snd id))%bool then Some o else octx_get r id
  end.

(* nesting depth: a primitive is 1, a container 1 + max over members *)
Fixpoint obj_depth (o : obj) : nat :=
  match o with
  | OArr l => S (fold_right (fun x m => Nat.max (obj_depth x) m) 0 l)
  | ODict l => S (fold_right (fun kv m => Nat.max (obj_depth (snd kv)) m) 0 l)
  | OStream d _ => S (fold_right (fun kv m => Nat.max (obj_depth (snd kv)) m) 0 d)
  | _ => 1
  end.
