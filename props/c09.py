"""C09 — type checking terminates on cyclic graphs and recursive types.

Same runner and model as C08, case mode "s": the observation is the verdict followed by the number of
loop iterations (hook verif_steps: work loop + get_next_check + unwind).  The runner runs every case
twice from scratch ("nondeterministic" when they differ), again on the same TypeCheckContext, and on
contexts on which a different check with the same name as the root check was used before and after
("unstable:<run>" when the answer changes); the model, a pure function, prints "stable".  Each case runs
under a watchdog in the runner: a hang shows as "timeout".
The oracle recomputes the proved bound 5*step_bound+2 from the case text (independently of the model).
"""
import itertools
from props import c08 as T

ID = 'C09'
PROFILES = ['debug', 'release']
THEOREMS = ['C09_bound_explicit', 'C09_terminates', 'C09_terminates_fuel', 'C09_fuel_independent', 'C09_check_never_panics', 'C09_unresolved_root',
            'C09_deterministic', 'C09_single_loop', 'C09_binary_fuel_same_loop', 'C09_bound_as_fuel']
ALLOWED_AXIOMS = []
CASE_TIMEOUT = 120

K_, P_, L_ = b'K', b'P', b'L'
rep = T.rep


# ---------------------------------------------------------------- the bound, from the case text
def norm_chk(c):
    if c[0] == '@':
        return c
    _, t, p, ind = c
    k = t[0]
    if k == 'A':
        t = ('A', norm_chk(t[1]), t[2])
    elif k == 'H':
        t = ('H', tuple(norm_chk(x) for x in t[1]))
    elif k == 'D':
        t = ('D', tuple((a, norm_chk(b), o) for a, b, o in t[1]), None if t[2] is None else (norm_chk(t[2][0]), t[2][1]))
    elif k == 'S':
        t = ('S', tuple((a, norm_chk(b), o) for a, b, o in t[1]))
    elif k == 'O':
        alts = []
        for x in t[1]:
            y = norm_chk(x)
            if y[0] == 'r' and y[1][0] == 'O':
                alts.extend(y[1][1])
            else:
                alts.append(y)
        t = ('O', tuple(alts))
    return ('r', t, p, ind)


def kids_obj(o):
    if o[0] == 'A':
        return list(o[1])
    if o[0] in 'DS':
        return [v for _, v in o[1]]
    return []


def kids_chk(c):
    if c[0] == '@':
        return []
    t = c[1]
    k = t[0]
    if k == 'A':
        return [t[1]]
    if k in 'HO':
        return list(t[1])
    if k == 'D':
        return [e[1] for e in t[1]] + ([t[2][0]] if t[2] is not None else [])
    if k == 'S':
        return [e[1] for e in t[1]]
    return []


def subterms(x, kids):
    out, work = [], [x]
    while work:
        y = work.pop()
        out.append(y)
        work.extend(kids(y))
    return out


def step_bound(octx, tctx, obj, chk):
    """P*M*(P+1) + P + K + 2 with P = |O|*|C|, K = fc+3, M = 2+K*(fo+fc+2) — Properties/C09.v, C09_bound_explicit"""
    r = tctx.get(chk[1]) if chk[0] == '@' else chk
    if r is None:
        return 0
    root = norm_chk(r)
    objs = [('n',)] + subterms(obj, kids_obj)
    for v in octx.values():
        objs += subterms(v, kids_obj)
    chks = subterms(root, kids_chk)
    for v in tctx.values():
        chks += subterms(v, kids_chk)
    fo = max([len(kids_obj(o)) for o in objs] + [0])
    fc = max([len(kids_chk(c)) for c in chks] + [0])
    P = len(objs) * (4 * len(chks))
    K = fc + 3
    M = 2 + K * (fo + fc + 2)
    return P * M * (P + 1) + P + K + 2


def oracle(case, obs, prof):
    if obs in ('timeout', 'fuel', 'missing', 'notrun', 'panic') or obs.startswith('crash'):
        return 'type checking did not terminate normally: %s' % obs
    if obs == 'nondeterministic' or obs.startswith('unstable'):
        return 'type checking did not return the same verdict every time it was run: %s' % obs
    if ' steps=' not in obs or not obs.endswith(' stable'):
        return 'unexpected observation %s' % obs
    steps = int(obs.split(' steps=')[1].split(' ')[0])
    mode, octx, tctx, chk, obj = T.parse_case(case)
    b = 5 * step_bound(octx, tctx, obj, chk) + 2
    if steps > b:
        return 'the checker made %d loop iterations, more than the bound %d' % (steps, b)
    return None


# ---------------------------------------------------------------- cases
def rec_specs():
    node, leaf = ('@', 'node'), ('@', 'leaf')
    anyreq = rep(('_',), None, '!')
    return [
        # page-tree like: kids checked downward, parent opaque
        ({'node': rep(('D', ((K_, rep(('A', node, None)), '?'), (P_, anyreq, '?')), None))}, node),
        # parent checked upward as well: the type is recursive in both directions
        ({'node': rep(('D', ((K_, rep(('A', rep(('O', (node, leaf)), None, '!'), None)), '?'), (P_, node, '?')), None)),
          'leaf': rep(('D', ((K_, rep(('_',)), '-'), (P_, node, '?')), None))}, node),
        # mutual recursion through two names, '*' entry
        ({'a': rep(('D', ((K_, rep(('A', ('@', 'b'), None)), '?'),), (('@', 'a'), '?'))),
          'b': rep(('D', ((K_, rep(('A', ('@', 'a'), None)), '?'), (P_, ('@', 'b'), '?')), None))}, ('@', 'a')),
        # recursive disjunction
        ({'t': rep(('O', (rep(('p', 'i')), rep(('A', ('@', 't'), None)), rep(('D', ((K_, ('@', 't'), '?'), (P_, ('@', 't'), '?')), None)))))}, ('@', 't')),
        # heterogeneous arrays of a recursive type
        ({'t': rep(('D', ((K_, rep(('O', (rep(('H', (('@', 't'), ('@', 't')))), rep(('H', (('@', 't'),))),
                                         rep(('A', rep(('p', 'n')), 0))))), '?'),
                         (P_, ('@', 't'), '?')), None))}, ('@', 't')),
    ]


def graph_ctx(n, kids, parents):
    """node i: << /K [kids…] /P parent >> ; kids[i]: tuple of node numbers, parents[i]: node number or 0"""
    ctx = {}
    for i in range(1, n + 1):
        d = [(K_, ('A', tuple(('R', j, 0) for j in kids[i - 1])))]
        if parents[i - 1]:
            d.append((P_, ('R', parents[i - 1], 0)))
        ctx[(i, 0)] = ('D', tuple(sorted(d)))
    return ctx


def all_graphs(n):
    nodes = list(range(1, n + 1))
    subsets = [s for r in range(n + 1) for s in itertools.combinations(nodes, r)]
    per_node = [(s, p) for s in subsets for p in [0] + nodes]
    for choice in itertools.product(per_node, repeat=n):
        yield graph_ctx(n, [c[0] for c in choice], [c[1] for c in choice])


def random_graph(rng, n):
    nodes = list(range(1, n + 1))
    kids, parents = [], []
    for _ in nodes:
        kids.append(tuple(rng.sample(nodes + [n + 5], rng.randrange(0, n + 1))))
        parents.append(rng.choice([0] + nodes))
    ctx = graph_ctx(n, kids, parents)
    # sprinkle: reference chains, self references, kids arrays behind a reference, duplicated kids
    r = rng.random()
    if r < 0.15:
        ctx[(n + 1, 0)] = ('R', rng.choice(nodes + [n + 1]), 0)
        i = rng.choice(nodes)
        d = dict(ctx[(i, 0)][1])
        d[K_] = ('A', d[K_][1] + (('R', n + 1, 0),))
        ctx[(i, 0)] = ('D', tuple(sorted(d.items())))
    elif r < 0.3:
        i = rng.choice(nodes)
        d = dict(ctx[(i, 0)][1])
        ctx[(n + 1, 0)] = d[K_]
        d[K_] = ('R', n + 1, 0)
        ctx[(i, 0)] = ('D', tuple(sorted(d.items())))
    elif r < 0.4:
        i = rng.choice(nodes)
        d = dict(ctx[(i, 0)][1])
        d[K_] = ('A', d[K_][1] + d[K_][1])
        ctx[(i, 0)] = ('D', tuple(sorted(d.items())))
    return ctx


def rho_chain(tail, cyc, first=1):
    """bare-reference objects first .. first+tail+cyc-1: a tail of [tail] references leading into a
    cycle of [cyc] references (entered at [first], which is not on the cycle)"""
    n = tail + cyc
    ctx = {}
    for k in range(n):
        nxt = first + k + 1 if k + 1 < n else first + tail
        ctx[(first + k, 0)] = ('R', nxt, 0)
    return ctx


def rho_cases(mode):
    """reference chains that never reach an object, entered outside their cycle: as the root object,
    as array element, as dictionary value, and as a kid under the recursive page-tree type"""
    out = []
    node = ('@', 'node')
    tree = {'node': rep(('D', ((K_, rep(('A', rep(('O', (node, rep(('p', 'n')))), None, '!'), None)), '?'),
                               (P_, rep(('_',), None, '!'), '?')), None))}
    for tail in (1, 2, 3):
        for cyc in (1, 2, 3):
            ctx = rho_chain(tail, cyc)
            r1 = ('R', 1, 0)
            out.append(T.mk_case(mode, ctx, {}, rep(('p', 'n')), r1))
            out.append(T.mk_case(mode, ctx, {}, rep(('p', 'i'), None, '!'), r1))
            out.append(T.mk_case(mode, ctx, {}, rep(('A', rep(('O', (rep(('p', 'n')), rep(('p', 'i'))))), None)), ('A', (('i', 5), r1, r1))))
            out.append(T.mk_case(mode, ctx, {}, rep(('D', ((K_, rep(('p', 'n')), '+'),), (rep(('p', 'i')), '?'))), ('D', ((K_, r1), (L_, ('i', 5))))))
            c2 = dict(ctx)
            c2[(10, 0)] = ('D', ((K_, ('A', (r1, ('R', 11, 0)))),))
            c2[(11, 0)] = ('D', ((K_, ('A', ())), (P_, ('R', 10, 0))))
            out.append(T.mk_case(mode, c2, tree, node, ('R', 10, 0)))
    return out


def named_alt_cases(mode, tier):
    """recursive specifications whose disjunct lists its alternatives BY NAME, on graphs of depth n where
    every alternative fails deep down: the work must stay linear in n (each failed (object, alternative)
    pair is remembered); without that it is 2^n and the watchdog of the runner fires"""
    A_, B_, C_ = b'A', b'B', b'C'
    X, Pn, Qn, Rn = ('@', 'X'), ('@', 'P'), ('@', 'Q'), ('@', 'R')
    integer = rep(('p', 'i'))
    fams = [
        # X = P | Q, P = << /A X >>, Q = << /A X /B int? >>  on a chain of n dictionaries ending in an integer
        ('dict', {'X': rep(('O', (Pn, Qn))), 'P': rep(('D', ((A_, X, '+'),), None)),
                  'Q': rep(('D', ((A_, X, '+'), (B_, integer, '?')), None))}),
        # three alternatives, one with a '*' entry
        ('dict', {'X': rep(('O', (Pn, Qn, Rn))), 'P': rep(('D', ((A_, X, '+'),), None)),
                  'Q': rep(('D', ((A_, X, '+'), (B_, integer, '?')), None)),
                  'R': rep(('D', ((A_, X, '+'), (C_, rep(('p', 'm')), '-')), (rep(('p', 'n')), '?')))}),
        # arrays: P = [X ...], Q = [X] on nested one-element arrays ending in an integer
        ('arr', {'X': rep(('O', (Pn, Qn))), 'P': rep(('A', X, None)), 'Q': rep(('H', (X,)))}),
    ]
    depths = [2, 5, 8, 12, 16, 20, 24, 32, 40, 48, 60] if tier == 'thorough' else [3, 8, 16, 24, 40, 60]
    out = []
    for kind, tctx in fams:
        for n in depths:
            for last in (('i', 5), ('n',)):        # every alternative fails at the end / (dict family) too
                if kind == 'dict':
                    ctx = {}
                    for k in range(1, n + 1):
                        ctx[(k, 0)] = ('D', ((A_, ('R', k + 1, 0)),))
                    ctx[(n + 1, 0)] = last
                    out.append(T.mk_case(mode, ctx, tctx, X, ('R', 1, 0)))
                else:
                    o = last
                    for _ in range(n):
                        o = ('A', (o,))
                    out.append(T.mk_case(mode, {}, tctx, X, o))
    return out


REF_LOOPS = [
    's 1.0=R1.0 - i R1.0',
    's 1.0=R2.0;2.0=R1.0 - D() R1.0',
    's 1.0=R2.0;2.0=R3.0;3.0=R1.0 t=O(i,A(@t)) @t R1.0',
    's 1.0=A(R1.0,R1.0) t=A(@t) @t R1.0',
    's 1.0=A(R1.0,R1.0) t=A(@t) H(@t,@t) R1.0',
    's 1.0=D(4b:R1.0) node=D(4b+:@node) @node R1.0',
    's 1.0=D(4b:R2.0);2.0=A(R1.0) node=D(4b+:A(@node)) @node R1.0',
]


def cases(tier, rng):
    out = list(REF_LOOPS)
    specs = rec_specs()
    # all digraphs over 1 and 2 indirect objects x every recursive specification
    for n in (1, 2):
        for ctx in all_graphs(n):
            for tctx, root in specs:
                out.append(T.mk_case('s', ctx, tctx, root, ('R', 1, 0)))
    # 3 objects: exhaustive in the thorough tier (for two of the specifications), sampled otherwise
    g3 = list(all_graphs(3))
    if tier == 'thorough':
        for ctx in g3:
            for tctx, root in specs[1:3]:
                out.append(T.mk_case('s', ctx, tctx, root, ('R', 1, 0)))
    else:
        for ctx in rng.sample(g3, 1500):
            tctx, root = rng.choice(specs)
            out.append(T.mk_case('s', ctx, tctx, root, ('R', 1, 0)))
    # 4 objects and decorated graphs: random
    n_r = 20000 if tier == 'thorough' else 2500
    for _ in range(n_r):
        n = rng.choice([3, 4, 4])
        tctx, root = rng.choice(specs)
        out.append(T.mk_case('s', random_graph(rng, n), tctx, root, ('R', rng.randrange(1, n + 1), 0)))
    # backtracking shapes: a sibling that fails deep inside, next to pending / in-progress disjuncts
    deep = [rep(('A', rep(('A', rep(('p', 'i')), None)), None)), rep(('D', ((K_, rep(('A', rep(('p', 'm')), None)), '+'),), None)),
            rep(('H', (rep(('p', 'i')), rep(('A', rep(('p', 'n')), None))))), rep(('p', 'i'))]
    disj = [rep(('O', (rep(('p', 'i')), rep(('p', 'm'))))), rep(('O', (rep(('A', rep(('p', 'i')), None)), rep(('p', 'n')), rep(('p', 'm')))), None, '!'),
            rep(('O', (rep(('O', (rep(('p', 's')), rep(('p', 'i'))))), rep(('A', rep(('p', 'm')), None)))), ('N', (b'A',)))]
    vals = [('A', (('A', (('i', 5),)),)), ('A', (('A', (('m', b'A'),)),)), ('D', ((K_, ('A', (('m', b'A'),))),)), ('D', ((K_, ('A', (('i', 5),))),)),
            ('A', (('i', 5), ('A', (('n',),)))), ('A', (('i', 5), ('A', (('i', 5),)))), ('i', 5), ('m', b'A'), ('n',), ('A', (('i', 5),)), ('R', 1, 0), ('R', 9, 0)]
    for x in deep:
        for d1 in disj:
            for d2 in disj + deep[:2]:
                for shape in (('H', (x, d1, d2)), ('H', (d1, x, d2)), ('O', (rep(('H', (x, d1))), rep(('H', (d1, d2)))))):
                    for _ in range(6 if tier == 'thorough' else 2):
                        n = 3 if shape[0] == 'H' else 2
                        obj = ('A', tuple(rng.choice(vals) for _ in range(n)))
                        ctx = {(1, 0): rng.choice(vals[:10])}
                        out.append(T.mk_case('s', ctx, {}, rep(shape), obj))
    # a sample of the small-scope product of C08, with the step count
    specs = T.exhaustive_specs()
    objs = T.small_objects()
    ctxs = T.small_ctxs()
    for _ in range(30000 if tier == 'thorough' else 4000):
        out.append('s %s - %s %s' % (T.show_octx(rng.choice(ctxs)), T.show_chk(rng.choice(specs)), T.show_obj(rng.choice(objs))))
    # the C08 random specification/object pairs, with the step count
    n_c = 30000 if tier == 'thorough' else 3000
    for _ in range(n_c):
        c = T.random_case(rng, 's', 3)
        mode, octx, tctx, chk, obj = T.parse_case(c)
        if T.closed_spec(tctx, chk):
            out.append(c)
    out = list(dict.fromkeys(out))
    # the chains with a tail before their cycle, spread over the whole list (a hang costs one
    # watchdog period of the shard it is in)
    rho = rho_cases('s') + named_alt_cases('s', tier)
    gap = max(1, len(out) // (len(rho) + 1))
    for k, c in enumerate(rho):
        out.insert(min(len(out), (k + 1) * gap + k), c)
    return list(dict.fromkeys(out))


def nontrivial(case, obs):
    """a cycle among the indirect objects is reachable, or the specification is recursive by name"""
    t = case.split(' ')
    return ('@' in t[2] or '@' in t[3]) and 'R' in t[1]


def classify(case, obs):
    return obs.split(' ')[0]


RULE = ('every directed graph over 1 and 2 indirect objects (nodes << /K [kids] /P parent >> with arbitrary kid sets and parent '
        'links: self references, node among its own descendants, page/parent cycles) x 5 recursive specifications (page-tree like, '
        'recursive in both directions, mutually recursive through two names with a * entry, recursive disjunction, recursive '
        'heterogeneous arrays); graphs over 3 objects exhaustively (thorough) or sampled, over 4 objects random, with reference '
        'chains, self-referential objects, duplicated kids; reference chains with a tail of 1-3 before a cycle of 1-3 (as root, array element, '
        'dictionary value, kid of the recursive page-tree type); recursive specifications whose disjunct names its alternatives (X = P | Q, '
        'P = <</A X>>, Q = <</A X /B int?>>, and two variants) on chains of depth up to 60 where every alternative fails deep down; plus random specification/object pairs of C08.  Every case is run 7 times '
        '(fresh / same / used TypeCheckContext with a same-named decoy check) under a watchdog; '
        'non-trivial = recursive specification over a context with references')
TRUSTED = ['model of pdf_type_check.rs in coq/Model/TypeCheck.v (hand transcription, validated by the C08/C09 correspondence runs)',
           'hook verif_steps (commit 68a7afd): counter incremented at the heads of the three loops']
ASSUMPTIONS = ['the root check resolves (otherwise check_type returns before the loop, C09_unresolved_root)',
               'set operations on the memo terminate (BTreeSet over a total order: Ord of TypeCheckRep compares typ only)']
LEVEL_TEXT = ('Coq theorems, all object graphs and all specifications: the work loop stops within step_bound = P*M*(P+1)+P+K+2 (P=|O|*|C|, K=fc+3, M=2+K(fo+fc+2)) '
              'iterations and 5*step_bound+2 iterations of all three loops; the loop is the iteration of one non-recursive step on an explicit stack; '
              'the verdict is independent of the fuel beyond the bound; iteration counts of implementation and model agree on every case')
LEVEL_NOTE = 'trusted: Coq kernel, hand transcription Model/TypeCheck.v, extraction + drv.ml, harness c09.rs/c08.rs/tcspec.rs, hook verif_steps'
TECHNIQUE = 'Coq proof by a lexicographic measure (universe pairs not yet failed, not yet examined, weight of the pending stack) with a stack invariant for the rollback of the memo + differential run with step counts'
