"""C16 — object nesting is bounded by the configured depth.

case lines (the model and the runner read the first four / five tokens, the rest is for the oracle):
  obj  <max_depth> <pre_entered> <hexbuf> n=<nesting of the text> v=<1 valid spelling | 0 failure injected>
  deep <max_depth> <pre_entered> <kind> <n>        generated 10^5..10^6-deep input, run in a child process
observation:  ok <obj> <start> <end> @<cursor> d<depth after>  |  err <kind> @<cursor> d<depth after>  |  crash
"""
import sys
from props import c02 as G

sys.setrecursionlimit(max(sys.getrecursionlimit(), 20000))

ID = 'C16'
PROFILES = ['debug', 'release']
THEOREMS = ['C16_total', 'C16_total_release', 'C16_accept_within', 'C16_reject_deeper', 'C16_reject_deep_brackets', 'C16_depth_balanced',
            'C16_counter_is_budget', 'C16_no_assert']
RULE = ('all d in 0..64 (+ 100; 250 in the thorough tier) x nesting profiles: random words over {[, <<} of length d-1, d, d+1 (and random trees of '
        'that nesting) spelled with random whitespace/comments, each valid or with a failure injected at a random level '
        '(missing closer, bad token, end of input, duplicate key), with 0..3 levels already entered; 10^5- and 10^6-deep '
        '[[[[… / <</a<</a… / mixed / balanced inputs in a child process with a 64 MiB stack.  non-trivial = nesting within '
        '2 of the remaining budget, or a failure below the top level, or a deep input')
TRUSTED = ['model of pdf_obj.rs in coq/Model/Obj.v on top of coq/Model/Prim.v (hand transcription, validated by this '
           'correspondence run in debug and release builds)']
ASSUMPTIONS = ['nesting of a text = nesting of its bracket structure, a primitive counting 1 (a dropped `key null` pair still nests)',
               '"stack proportional to d" is witnessed by the recursion structure (C16_stack_bounded) and by the 10^6-deep '
               'inputs being rejected inside a 64 MiB stack']
CASE_TIMEOUT = 1500


def profile_word(rng, n, leaf=True):
    """a value of nesting exactly n: a chain of n-1 containers around a primitive (or n empty-ended containers)."""
    if n <= 1:
        return G.gen_prim(rng) if leaf else ('arr', [])
    inner = profile_word(rng, n - 1, leaf)
    if rng.random() < 0.5:
        return ('arr', [inner])
    return ('dict', [(G.gen_name(rng), inner)])


def inject(rng, sp):
    """break a spelling somewhere: returns bytes that are (very likely) not a valid object."""
    r = rng.random()
    if r < 0.3:                                   # end of input inside
        closers = [i for i, b in enumerate(sp) if b in b']>']
        cut = rng.choice(closers) if closers else len(sp) - 1
        return sp[:cut]
    if r < 0.6:                                   # bad token before a closer / somewhere inside
        closers = [i for i, b in enumerate(sp) if b in b']>'] or [len(sp)]
        p = rng.choice(closers)
        return sp[:p] + rng.choice([b' x ', b' } ', b' ) ', b' R ', b' endobj ']) + sp[p:]
    if r < 0.8:                                   # wrong closer
        closers = [i for i, b in enumerate(sp) if b == 0x5d]
        if closers:
            p = rng.choice(closers)
            return sp[:p] + b'>>' + sp[p + 1:]
        return sp + b''[:0] if False else sp[:-1]
    return sp[:max(0, len(sp) - 1)]               # last byte missing


def mk(rng, d, k, v, valid=True, simple=False):
    sp = G.spell(rng, v, simple)
    n = G.nest(v)
    if not valid:
        sp = inject(rng, sp)
    pre = G.sp_ws(rng, False) if rng.random() < 0.3 else b''
    rest = G.follow(rng, v) if valid else b''
    return 'obj %d %d %s n=%d v=%d' % (d, k, G.hx(pre + sp + rest), n, 1 if valid else 0)


def cases(tier, rng):
    big = tier == 'thorough'
    out = []
    reps = 6 if big else 2
    saved = list(G.PLUS)
    G.PLUS[:] = []          # signs are C02's business; keep C16 independent of finding C02-plus
    try:
        for d in list(range(0, 65)) + [100] + ([250] if big else []):   # (the extracted model is quadratic in the nesting)
            light = big or d <= 16            # the extracted model is quadratic in the nesting: fewer repetitions for large d
            for k in ([0] if d == 0 else [0, 0, min(d, 1), min(d, 3)] if light and d <= 64 else [0, 3]):
                b = d - k
                for n in sorted(set(x for x in (b - 1, b, b + 1, b + 2) if x >= 1)):
                    for _ in range(reps if light else 1):
                        leaf = rng.random() < 0.7
                        out.append(mk(rng, d, k, profile_word(rng, n, leaf), True, simple=rng.random() < 0.5))
                        out.append(mk(rng, d, k, G.gen_deep(rng, n), True))
                        out.append(mk(rng, d, k, G.gen_deep(rng, n), False))
                    # a duplicate key at the innermost level
                    inner = ('dict', [(b'K', ('int', 1)), (b'K', ('int', 2))])
                    v = inner
                    for _ in range(n - 2):
                        v = ('arr', [v]) if rng.random() < 0.5 else ('dict', [(b'W', v)])
                    if n >= 2:
                        out.append('obj %d %d %s n=%d v=0' % (d, k, G.hx(G.spell(rng, v)), n))
        # small budgets, broad random trees
        for _ in range(20000 if big else 2500):
            d = rng.randrange(0, 7)
            k = rng.randrange(0, d + 1)
            v = G.gen_value(rng, rng.randrange(1, 7))
            out.append(mk(rng, d, k, v, rng.random() < 0.75))
    finally:
        G.PLUS[:] = saved
    # deep inputs (the extracted model needs seconds and ~1 GB of stack for each: Model/Prim.v recomputes the length
    # of the buffer at every step) — spread evenly over the case list so that they land in different shards
    deep = ['deep 16 0 a 1000000', 'deep 64 0 a 200000', 'deep 64 0 d 30000', 'deep 64 0 m 50000', 'deep 8 0 d 100000',
            'deep 8 3 m 200000', 'deep 3 0 A 500000', 'deep 3 0 D 100000', 'deep 1 0 a 100000', 'deep 1 0 d 100000',
            'deep 0 0 a 100000', 'deep 10 3 a 300000', 'deep 2 1 m 100000']
    if big:
        deep += ['deep 64 0 a 1000000', 'deep 64 0 d 100000', 'deep 64 0 m 100000', 'deep 8 0 d 250000', 'deep 3 0 D 250000',
                 'deep 8 3 m 300000']
        for d in (2, 17, 33, 63):
            for kind in 'admAD':
                deep.append('deep %d %d %s %d' % (d, rng.randrange(0, d), kind,
                                                  rng.choice([100000, 200000]) if kind in 'dDm' and d > 8 else rng.choice([300000, 1000000])))
    rng.shuffle(out)                     # balance the shards: cost grows with d
    step = max(1, len(out) // (len(deep) + 1))
    for i, c in enumerate(deep):
        out.insert(min(len(out), (i + 1) * step + i), c)
    return out


def shown_depth(txt):
    """nesting of a canonical object text: a primitive or an empty container is 1, a container 1 + max of its members."""
    lvl, mx = 0, 1
    for i, ch in enumerate(txt):
        if ch == '(':
            lvl += 1
            mx = max(mx, lvl + (0 if txt[i + 1:i + 2] == ')' else 1))
        elif ch == ')':
            lvl -= 1
    return mx


def comparable(case, mobs=None):
    """The 10^5..10^6-deep inputs are about the IMPLEMENTATION surviving (oracle below); the extracted model is
    super-linear in the buffer size (Model/Prim.v recomputes the length), so on a loaded machine it may exceed the
    shard time limit on them: a model 'timeout' on a deep case is not a disagreement (added by the coordinator after
    a thorough run under load reported exactly that as no-failing-input-found)."""
    return not (case.startswith('deep ') and mobs in ('timeout', 'notrun'))


def oracle(case, obs, prof):
    t = case.split(' ')
    d, k = int(t[1]), int(t[2])
    if t[0] == 'deep':
        n = int(t[4])
        o = G.parse_obs(obs)
        if o[0] != 'err':
            return '%d-deep input with max depth %d: expected a rejection, got "%s"' % (n, d, obs[:80])
        if o[-1] != k:
            return 'context depth after the call is %d, was %d before' % (o[-1], k)
        return None
    meta = dict(x.split('=', 1) for x in t[4:])
    n, valid = int(meta['n']), meta['v'] == '1'
    o = G.parse_obs(obs)
    if o[0] not in ('ok', 'err'):
        return 'parse_pdf_obj did not return normally: "%s"' % obs[:80]
    if o[-1] != k:
        return 'context depth after the call is %d, was %d before (outcome %s)' % (o[-1], k, o[0])
    budget = d - k
    if o[0] == 'ok':
        if shown_depth(o[1]) > budget:
            return 'accepted an object of nesting %d with only %d levels left' % (shown_depth(o[1]), budget)
        if valid and n > budget:
            return 'accepted a text of nesting %d with only %d levels left' % (n, budget)
    else:
        if valid and n <= budget:
            return 'rejected a valid object of nesting %d although %d levels were left' % (n, budget)
    return None


def nontrivial(case, obs):
    t = case.split(' ')
    if t[0] == 'deep':
        return True
    meta = dict(x.split('=', 1) for x in t[4:])
    n, budget = int(meta['n']), int(t[1]) - int(t[2])
    return abs(n - budget) <= 2 or (meta['v'] == '0' and n >= 2)


def classify(case, obs):
    t = case.split(' ')
    if t[0] == 'deep':
        return 'deep:' + obs.split(' ')[0]
    meta = dict(x.split('=', 1) for x in t[4:])
    n, budget = int(meta['n']), int(t[1]) - int(t[2])
    rel = 'within' if n <= budget else 'deeper'
    return '%s:%s:%s' % ('valid' if meta['v'] == '1' else 'broken', rel, obs.split(' ')[0])


LEVEL_TEXT = ('Coq theorems for every configured depth and every input: an accepted object has nesting <= the levels left '
              '(C16_accept_within); a text that opens more containers than levels are left is rejected with a GuardError, in '
              'particular [[[[... of any length (C16_reject_deeper, C16_reject_deep_brackets); ctxt.depth() after parse_pdf_obj equals '
              'the depth before for EVERY outcome (C16_depth_balanced); the enter/leave counter is exactly the structural recursion '
              'on the remaining budget, so the nesting of recursive calls is bounded by d independently of the input '
              '(C16_counter_is_budget) and leave_obj`s assert is never what fails (C16_no_assert); acceptance of every valid spelling '
              'within the bound is C02_spelling; tied to pdf_obj.rs by a differential run in debug and release builds incl. 10^6-deep '
              'inputs run in a child process with a 64 MiB stack')
LEVEL_NOTE = ('trusted: Coq kernel, hand transcriptions coq/Model/Prim.v + coq/Model/Obj.v (both the counter form that is extracted and '
              'the budget form the theorems are about; proved equal), extraction + ocaml/drv.ml, harness/src/bin/c16.rs; '
              '"stack proportional to d" is the shape of the recursion (structural on the budget) plus the child-process run')
TECHNIQUE = 'Coq proof by structural induction on the depth budget + simulation counter form = budget form + differential correspondence'
