"""C15 — reported locations are faithful and failed token parsers do not consume (token-parser half)."""
import os, re, itertools

ID = 'C15'
PROFILES = ['debug', 'release']
MODEL_PER_PROFILE = True
THEOREMS = [
    'C15_ws_noeol_ok_span', 'C15_ws_noeol_err_restores', 'C15_ws_noeol_no_panic',
    'C15_comment_ok_span', 'C15_comment_err_restores', 'C15_comment_no_panic',
    'C15_ws_eol_ok_span', 'C15_ws_eol_err_restores', 'C15_ws_eol_no_panic',
    'C15_boolean_ok_span', 'C15_boolean_err_restores', 'C15_boolean_no_panic',
    'C15_null_ok_span', 'C15_null_err_restores', 'C15_null_no_panic',
    'C15_integer_ok_span', 'C15_integer_err_restores', 'C15_integer_no_panic',
    'C15_real_ok_span', 'C15_real_err_restores', 'C15_real_no_panic',
    'C15_hexstring_ok_span', 'C15_hexstring_err_restores', 'C15_hexstring_no_panic',
    'C15_name_ok_span', 'C15_name_err_restores', 'C15_name_no_panic',
    'C15_operator_ok_span', 'C15_operator_err_restores', 'C15_operator_no_panic',
    'C15_bin_matcher_ok_span', 'C15_bin_matcher_err_restores', 'C15_bin_matcher_no_panic',
    'C15_lit_string_ok_span', 'C15_lit_string_err_restores', 'C15_lit_string_no_panic',
    'C15_lit_string_no_panic_release', 'C15_stream_content_ok_span', 'C15_stream_content_err_restores',
    'C15_stream_content_no_panic', 'C15_bin_scanner_ok_span', 'C15_bin_scanner_err_restores',
    'C15_bin_scanner_no_panic', 'C15_integer_value_is_i64', 'C15_uint_shape',
    'C15_integer_pinned_refuted', 'C15_stream_content_pinned_refuted', 'C15_ws_noeol_pinned_refuted']
RULE = ('per parser (WhitespaceNoEOL/EOL x empty_ok, Comment, Boolean, Null, IntegerP, RealP, HexString, RawLiteralString, '
        'NameP, OperatorP): every buffer of length <= 4 over a 10-symbol (quick) / 12-symbol (thorough) alphabet, and in thorough every buffer of length 5 over 10 symbols, the alphabet being the '
        "parser's own significant bytes + delimiters, regular, digit, space, EOL and non-ASCII bytes x every start position; "
        'StreamContentP: lengths 0..3 x both flags x {stream marker variants} x payloads x {EOL variants} x {endstream variants, truncations}; '
        'BinaryScanner/BinaryMatcher: 10 tags of length 1..3 x all buffers of length <= 5 (quick) / 6 (thorough) over {a,b,0x80} x every start, random longer ones, the empty tag; '
        'plus random near-valid tokens (boundary numbers, #xx names, nested/escaped strings) with single-byte mutations, '
        'random padding before and after. non-trivial = success with a non-empty span, or failure at a cursor where the '
        "parser's first byte matched (failure after consuming)")
TRUSTED = ['model of pdf_prim.rs / parsebuffer.rs primitives / BinaryScanner+BinaryMatcher in coq/Model/Prim.v (hand '
           'transcription, byte sets regenerated into coq/gen/PrimConstants.v, validated by this correspondence run)']
ASSUMPTIONS = ['a view behaves as its window (C17)', 'cursor <= buffer size on entry (ParseBuffer invariant)',
               'RawLiteralString no-panic: buffer shorter than 2^31 bytes (i32 depth counter)',
               'BinaryScanner: its value text is span ++ tag (the tag is look-ahead, scan stops at its start)']

# ---------------------------------------------------------------- alphabets (first 10 = quick tier)
ALPHA = {
    'wsn':  [0x20, 0x0d, 0x0a, 0x00, 0x61, 0x25, 0x09, 0x80, 0x0c, 0x28, 0x31, 0x2f],
    'wse':  [0x20, 0x0d, 0x0a, 0x25, 0x61, 0x00, 0x80, 0x09, 0x28, 0x0c, 0x2f, 0x31],
    'com':  [0x25, 0x0a, 0x0d, 0x20, 0x61, 0x80, 0x28, 0x2f, 0x31, 0x23, 0x5c, 0x3c],
    'bool': [0x74, 0x72, 0x75, 0x65, 0x66, 0x61, 0x6c, 0x73, 0x20, 0x80, 0x0a, 0x31],
    'null': [0x6e, 0x75, 0x6c, 0x20, 0x61, 0x0a, 0x80, 0x28, 0x2f, 0x31, 0x74, 0x25],
    'int':  [0x2d, 0x2b, 0x2e, 0x30, 0x31, 0x39, 0x61, 0x20, 0x80, 0x0a, 0x28, 0x2f],
    'real': [0x2d, 0x2b, 0x2e, 0x30, 0x31, 0x39, 0x61, 0x20, 0x80, 0x0a, 0x28, 0x2f],
    'hex':  [0x3c, 0x3e, 0x30, 0x61, 0x46, 0x67, 0x20, 0x0a, 0x80, 0x28, 0x00, 0x2f],
    'lit':  [0x28, 0x29, 0x5c, 0x61, 0x20, 0x0a, 0x80, 0x3c, 0x2f, 0x25, 0x31, 0x23],
    'name': [0x2f, 0x23, 0x30, 0x32, 0x61, 0x46, 0x67, 0x20, 0x28, 0x80, 0xc3, 0x0a],
    'op':   [0x2f, 0x23, 0x30, 0x32, 0x61, 0x46, 0x67, 0x20, 0x28, 0x80, 0xc3, 0x0a],
}
VARIANTS = [('wsn', '0'), ('wsn', '1'), ('wse', '0'), ('wse', '1'), ('com', '-'), ('bool', '-'), ('null', '-'),
            ('int', '-'), ('real', '-'), ('hex', '-'), ('lit', '-'), ('name', '-'), ('op', '-')]
STARTERS = {'wsn': b' \0\t\r\x0c', 'wse': b' \0\t\r\n\x0c%', 'com': b'%', 'bool': b'tf', 'null': b'n', 'int': b'-+0123456789.',
            'real': b'-+0123456789.', 'hex': b'<', 'lit': b'(', 'name': b'/', 'op': None, 'sc': b's', 'scan': None, 'match': None}


def _hx(b):
    return bytes(b).hex() or '-'


def _unhex(s):
    return b'' if s == '-' else bytes.fromhex(s)


def _exhaustive(out, kind, arg, alpha, maxlen):
    for L in range(0, maxlen + 1):
        for tup in itertools.product(alpha, repeat=L):
            h = _hx(tup)
            for c in range(0, L + 1):
                out.append('%s %s %s %d' % (kind, arg, h, c))


# ---------------------------------------------------------------- near-valid tokens
def _rand_ws(rng, eol=True):
    pool = [b' ', b'\t', b'\0', b'\x0c', b'\r'] + ([b'\n', b'\r\n', b'%c\n', b'%', b'%\r\n'] if eol else [])
    return b''.join(rng.choice(pool) for _ in range(rng.randrange(0, 4)))


def _rand_int(rng):
    bnd = [0, 1, 9, 10, 2 ** 63 - 1, 2 ** 63, 2 ** 63 + 1, 2 ** 63 - 2, 10 ** 18, 10 ** 19, 922337203685477580, 922337203685477581,
           2 ** 127 - 1, 2 ** 127, 10 ** 38, 10 ** 39, 17014118346046923173168730371588410572, 2 ** 64, 2 ** 31]
    v = rng.choice(bnd) if rng.random() < 0.6 else rng.getrandbits(rng.choice([8, 31, 62, 63, 64, 126, 127, 128]))
    s = str(v).encode()
    if rng.random() < 0.2:
        s = b'0' * rng.randrange(1, 4) + s
    return rng.choice([b'', b'', b'-', b'+']) + s


def _rand_real(rng):
    r = rng.random()
    ip = _rand_int(rng) if r < 0.7 else rng.choice([b'', b'-', b'+'])
    fr = b''.join(rng.choice(b'0123456789').to_bytes(1, 'big') for _ in range(rng.choice([0, 0, 1, 2, 3, 19, 38, 39, 40])))
    return ip + b'.' + fr


def _rand_name_body(rng):
    out = b''
    for _ in range(rng.randrange(0, 8)):
        r = rng.random()
        if r < 0.35:
            out += b'#' + rng.choice([b'20', b'4a', b'4A', b'fF', b'00', b'c3', b'80', b'2', b'#', b'g0', b'0g', b'7f', b'23'])
        elif r < 0.45:
            out += bytes([rng.choice([0x80, 0xc3, 0xa9, 0xe2, 0x82, 0xac, 0xf0, 0xff, 0xed, 0xa0])])
        else:
            out += bytes([rng.choice(b'abzAZ09#+-.*_')])
    return out


def _rand_lit_body(rng, depth=0):
    out = b''
    for _ in range(rng.randrange(0, 6)):
        r = rng.random()
        if r < 0.2 and depth < 4:
            out += b'(' + _rand_lit_body(rng, depth + 1) + b')'
        elif r < 0.5:
            out += rng.choice([b'\\(', b'\\)', b'\\\\', b'\\n', b'\\', b'\\\\\\(', b'\\\\(', b'\\\\)'])
        else:
            out += bytes([rng.choice(b'ab \n\r<>/%#') if rng.random() < 0.9 else rng.randrange(256)])
    return out


def _rand_hex_body(rng):
    return b''.join(bytes([rng.choice(b'0123456789abcdefABCDEF \n\r\t\0\x0c')]) for _ in range(rng.randrange(0, 9)))


def _token(rng, kind):
    if kind == 'wsn':
        return _rand_ws(rng, False) + rng.choice([b'', b'\r', b'\r\n', b'\n', b' \r\n'])
    if kind == 'wse':
        return _rand_ws(rng) + rng.choice([b'', b'%x', b'%x\n', b'\r\n', b'% %\n%'])
    if kind == 'com':
        return b'%' + _rand_name_body(rng) + rng.choice([b'', b'\n', b'\r\n', b'\r'])
    if kind == 'bool':
        return rng.choice([b'true', b'false', b'tru', b'fals', b'True', b'truefalse', b'falsetrue'])
    if kind == 'null':
        return rng.choice([b'null', b'nul', b'nulll', b'Null', b'nullnull'])
    if kind == 'int':
        return _rand_int(rng) if rng.random() < 0.8 else _rand_real(rng)
    if kind == 'real':
        return _rand_real(rng) if rng.random() < 0.8 else _rand_int(rng)
    if kind == 'hex':
        return b'<' + _rand_hex_body(rng) + b'>'
    if kind == 'lit':
        return b'(' + _rand_lit_body(rng) + b')'
    if kind == 'name':
        return b'/' + _rand_name_body(rng)
    if kind == 'op':
        return rng.choice([b'', b'BT', b'Tj', b"'", b'"', b'T*', b'q']) + _rand_name_body(rng)
    raise ValueError(kind)


def _mutate(rng, tok):
    r = rng.random()
    if r < 0.4 or not tok:
        return tok
    i = rng.randrange(len(tok))
    pool = b'()<>[]{}/%#\\ \n\r\t\0.-+09afAFgz' + bytes([0x80, 0xff])
    if r < 0.6:
        return tok[:i] + tok[i + 1:]
    if r < 0.8:
        return tok[:i] + bytes([rng.choice(pool)]) + tok[i:]
    return tok[:i] + bytes([rng.choice(pool)]) + tok[i + 1:]


def _near_valid(out, rng, n):
    tails = [b'', b' ', b'\n', b'/', b'(', b')', b'<', b'>', b'.', b'a', b'1', b'%', b'\r\n', b' 0 R', b'endobj']
    for kind, arg in VARIANTS:
        for _ in range(n):
            pre = rng.choice([b'', b'', b' ', b'x', b'\n', b'((', b'1 '])
            tok = _mutate(rng, _token(rng, kind))
            buf = pre + tok + rng.choice(tails)
            c = len(pre) if rng.random() < 0.85 else rng.randrange(len(buf) + 1)
            out.append('%s %s %s %d' % (kind, arg, _hx(buf), c))


def _streams(out, rng, tier):
    markers = [b'stream', b'strea', b'streamx', b'Stream']
    eol1 = [b'\n', b'\r\n', b'\r', b'', b' \n', b'\r\r\n', b'\n\n']
    eol2 = [b'', b'\r', b'\n', b'\r\n', b'\n\r', b' ', b'\r\r']
    ends = [b'endstream', b'endstrea', b'', b'x', b'endstreamX', b'endstream\n', b'e', b'\nendstream']
    pays = [b'', b'a', b'\n', b'\r', b'ab', b'\r\n', b'abc', b'e\n', b'abcd', b'endstream']
    for n in range(0, 4):
        for flag in (0, 1):
            arg = str(2 * n + flag)
            for m in markers:
                for e1 in eol1:
                    for p in pays:
                        if m != b'stream' and (e1 != b'\n' or p != b'a'):
                            continue
                        for e2 in eol2:
                            for en in ends:
                                buf = m + e1 + p + e2 + en
                                out.append('sc %s %s 0' % (arg, _hx(buf)))
                                if rng.random() < 0.15:
                                    pre = rng.choice([b' ', b'xy', b'\n'])
                                    out.append('sc %s %s %d' % (arg, _hx(pre + buf), len(pre)))
            # truncations of a valid framing at every position
            full = b'stream\r\n' + b'abc'[:n] + b'\r\nendstream'
            for k in range(len(full) + 1):
                out.append('sc %s %s 0' % (arg, _hx(full[:k])))
                out.append('sc %s %s 1' % (arg, _hx(b'x' + full[:k])))
    # big declared lengths
    for n in (7, 100, 4096):
        for flag in (0, 1):
            out.append('sc %d %s 0' % (2 * n + flag, _hx(b'stream\n' + b'a' * 5 + b'\nendstream')))
            out.append('sc %d %s 0' % (2 * n + flag, _hx(b'stream\n' + b'a' * n + b'\nendstream')))
    # exhaustive small over the marker's bytes
    _exhaustive(out, 'sc', '1', [0x73, 0x74, 0x0a, 0x0d, 0x65], 3)


def _binary(out, rng, tier):
    alpha = [0x61, 0x62, 0x80]
    tags = [b'a', b'b', b'ab', b'aa', b'ba', b'\x80', b'aba', b'aab', b'a\x80', b'bbb']
    maxlen = 6 if tier == 'thorough' else 5
    for kind in ('scan', 'match'):
        for tag in tags:
            _exhaustive(out, kind, _hx(tag), alpha, maxlen)
    for kind in ('scan', 'match'):
        for _ in range(2000 if tier == 'thorough' else 300):
            tag = bytes(rng.choice(b'abc%\n') for _ in range(rng.randrange(1, 6)))
            buf = bytes(rng.choice(b'abc%\n') for _ in range(rng.randrange(0, 20)))
            if rng.random() < 0.7:
                i = rng.randrange(len(buf) + 1)
                buf = buf[:i] + tag + buf[i:]
            out.append('%s %s %s %d' % (kind, _hx(tag), _hx(buf), rng.randrange(len(buf) + 1)))
    # the empty tag: exact(b"") succeeds everywhere; scan(b"") is Ok(0) since /repo d07c841 (was a windows(0) panic, C17 #33)
    for buf in (b'', b'a', b'ab'):
        for c in range(len(buf) + 1):
            out.append('match - %s %d' % (_hx(buf), c))
            out.append('scan - %s %d' % (_hx(buf), c))


def cases(tier, rng):
    out = []
    maxlen = 5 if tier == 'thorough' else 4
    nsym = 12 if tier == 'thorough' else 10
    for kind, arg in VARIANTS:
        _exhaustive(out, kind, arg, ALPHA[kind][:nsym], maxlen if tier != 'thorough' else 4)
    if tier == 'thorough':
        # length 5 over the first 10 symbols
        for kind, arg in VARIANTS:
            alpha = ALPHA[kind][:10]
            for tup in itertools.product(alpha, repeat=5):
                h = _hx(tup)
                for c in range(0, 6):
                    out.append('%s %s %s %d' % (kind, arg, h, c))
    _streams(out, rng, tier)
    _binary(out, rng, tier)
    _near_valid(out, rng, 20000 if tier == 'thorough' else 2500)
    return out


# ---------------------------------------------------------------- oracle
_OK = re.compile(r'^ok (\S+) (\d+) (\d+) @(\d+)$')
_ERR = re.compile(r'^err (\S+) @(\d+)$')


def _check(case, obs):
    t = case.split(' ')
    kind, arg, buf, c = t[0], t[1], _unhex(t[2]), int(t[3])
    if ' | ' not in obs:
        return 'malformed observation "%s"' % obs
    r1, r2 = obs.split(' | ', 1)
    if r1 == 'panic':
        return 'the parser panicked'
    m = _ERR.match(r1)
    if m:
        if int(m.group(2)) != c:
            return 'failed (%s) but left the cursor at %s instead of %d' % (m.group(1), m.group(2), c)
        return None
    m = _OK.match(r1)
    if not m:
        return 'unexpected observation "%s"' % r1
    v, a, b, c1 = m.group(1), int(m.group(2)), int(m.group(3)), int(m.group(4))
    if b != c1:
        return 'cursor after success %d differs from the reported end %d' % (c1, b)
    if not (c <= a <= b <= len(buf)):
        return 'span [%d,%d) not within [cursor %d, size %d]' % (a, b, c, len(buf))
    # the span is the text of the value: re-parsing it alone gives an equal value over [0, b-a)
    if kind == 'sc':
        st, sz, hx = v.split(':')
        v = '%d:%s:%s' % (int(st) - a, sz, hx)          # nested location shifted by a
    exp = 'ok %s 0 %d @%d' % (v, b - a, b - a)
    if r2 != exp:
        return 're-parsing the reported span [%d,%d) alone gave "%s", expected "%s"' % (a, b, r2, exp)
    return None


def oracle(case, obs, prof):
    return _check(case, obs)


def nontrivial(case, obs):
    t = case.split(' ')
    m = _OK.match(obs.split(' | ')[0])
    if m:
        return int(m.group(3)) > int(m.group(2))
    st = STARTERS.get(t[0])
    buf, c = _unhex(t[2]), int(t[3])
    if st is None:
        return c < len(buf)
    return c < len(buf) and buf[c] in st


def classify(case, obs):
    return case.split(' ')[0] + ':' + obs.split(' ')[0]


def known_class(kid, case, obs, prof):
    return False


# ---------------------------------------------------------------- translator: byte sets / keywords
def _rust_bytes(lit):
    """decode the inside of a Rust byte-string literal b"..." """
    out, i = [], 0
    while i < len(lit):
        ch = lit[i]
        if ch != '\\':
            if ord(ch) > 127:
                raise ValueError('non-ASCII byte literal')
            out.append(ord(ch))
            i += 1
            continue
        e = lit[i + 1]
        if e == 'x':
            out.append(int(lit[i + 2:i + 4], 16))
            i += 4
            continue
        table = {'0': 0, 't': 9, 'n': 10, 'r': 13, '\\': 92, '"': 34, "'": 39}
        if e not in table:
            raise ValueError('unknown escape \\%s' % e)
        out.append(table[e])
        i += 2
    return out


def _impl_block(src, ty):
    m = re.search(r'impl ParsleyParser for %s \{' % re.escape(ty), src)
    if not m:
        raise ValueError('anchor missing: impl ParsleyParser for %s' % ty)
    rest = src[m.end():]
    n = re.search(r'\n(impl|pub struct|struct|#\[cfg\(test\)\]|// [A-Z])', rest)
    # the block ends at the first line "}" in column 0
    e = rest.find('\n}\n')
    if e < 0:
        raise ValueError('unterminated impl block for %s' % ty)
    return rest[:e]


def _lits(block, method, ty, expect):
    found = re.findall(r'\.%s\(b"((?:[^"\\]|\\.)*)"\)' % method, block)
    if len(found) != expect:
        raise ValueError('anchor missing: %s expects %d %s(b"...") literal(s), found %d' % (ty, expect, method, len(found)))
    return [_rust_bytes(x) for x in found]


def regen(repo):
    src = open(os.path.join(repo, 'src', 'pdf_lib', 'pdf_prim.rs')).read()
    d = []
    blk = lambda ty: _impl_block(src, ty)
    d.append(('ws_noeol_set', _lits(blk('WhitespaceNoEOL'), 'parse_allowed_bytes', 'WhitespaceNoEOL', 1)[0]))
    d.append(('comment_stop', _lits(blk('Comment'), 'parse_bytes_until', 'Comment', 1)[0]))
    d.append(('ws_eol_set', _lits(blk('WhitespaceEOL'), 'parse_allowed_bytes', 'WhitespaceEOL', 1)[0]))
    t, f = _lits(blk('Boolean'), 'exact', 'Boolean', 2)
    d += [('kw_true', t), ('kw_false', f)]
    d.append(('kw_null', _lits(blk('Null'), 'exact', 'Null', 1)[0]))
    dig = _lits(blk('IntegerP'), 'parse_allowed_bytes', 'IntegerP', 1)[0]
    r1, r2 = _lits(blk('RealP'), 'parse_allowed_bytes', 'RealP', 2)
    if not (dig == r1 == r2):
        raise ValueError('IntegerP / RealP digit sets differ: the model shares one digit_set')
    d.append(('digit_set', dig))
    hb = blk('HexString')
    d.append(('hexws_set', _lits(hb, 'parse_allowed_bytes', 'HexString', 1)[0]))
    m = re.search(r'for c in \[((?:\s*b\'(?:[^\'\\]|\\.[0-9a-fA-F]*)\'\s*,?)+)\]\.iter\(\)', hb)
    if not m:
        raise ValueError('anchor missing: HexString white-space set')
    d.append(('hex_skip_set', [_rust_bytes(x)[0] for x in re.findall(r"b'((?:[^'\\]|\\.[0-9a-fA-F]*))'", m.group(1))]))
    d.append(('lit_stops', _lits(blk('RawLiteralString'), 'parse_bytes_until', 'RawLiteralString', 1)[0]))
    d.append(('name_stops', _lits(blk('NameP'), 'parse_bytes_until', 'NameP', 1)[0]))
    d.append(('op_stops', _lits(blk('OperatorP'), 'parse_bytes_until', 'OperatorP', 1)[0]))
    st, en = _lits(blk('StreamContentP'), 'exact', 'StreamContentP', 2)
    d += [('kw_stream', st), ('kw_endstream', en)]
    out = ['(* GENERATED by props/c15.py regen() from /repo/src/pdf_lib/pdf_prim.rs — do not edit.',
           '   Byte sets and keywords passed to parse_allowed_bytes / parse_bytes_until / exact inside each',
           '   `impl ParsleyParser for X`, and the white-space set local to HexString::parse. *)',
           'From PV Require Import Base.Bytes.', '']
    for name, bs in d:
        out.append('Definition %s : bytes := [%s]%%N.' % (name, '; '.join(str(b) for b in bs)))
    return {'gen/PrimConstants.v': '\n'.join(out) + '\n'}


LEVEL_TEXT = ('Coq theorems for every token parser of pdf_prim.rs (WhitespaceNoEOL/EOL, Comment, Boolean, Null, IntegerP, RealP, '
              'HexString, RawLiteralString, NameP, OperatorP, StreamContentP) and BinaryScanner/BinaryMatcher, for all buffers and all '
              'cursors: on success cursor = reported end, start = cursor before, end <= size, and the parser applied to the reported '
              'span alone returns the same value over [0, end-start) (StreamContentP: payload offset shifted; BinaryScanner: span ++ tag); '
              'on failure the cursor is exactly where it was (no hypothesis); no assert/unwrap/index/overflow panic is reachable. '
              'Three defects of the pinned code refuted these statements (witness theorems kept) and were repaired in /repo; the model '
              'transcribes the repaired code and is tied to it by an exhaustive small-scope + near-valid differential run (debug and release)')
LEVEL_NOTE = ('trusted: Coq kernel, hand transcription coq/Model/Prim.v (byte sets/keywords regenerated from pdf_prim.rs into '
              'coq/gen/PrimConstants.v; validated by the correspondence run), extraction + ocaml/drv.ml, harness/src/bin/c15.rs; '
              'assumes cursor <= size on entry (ParseBuffer invariant), a view behaves as its window (C17), RawLiteralString no-panic in debug builds for buffers < 2^31 bytes (i32 depth counter; release builds: '
              'unconditional). The combinators\' half of C15 is proved under C18, PDFObjP/IndirectP locations under C02.')
TECHNIQUE = ('Coq proofs: per-parser case analysis with window lemmas (peek/allowed/until/exact/sub on sub s c e), induction on fuel with '
             'a simulation invariant for the WhitespaceEOL and RawLiteralString loops + differential correspondence model vs implementation')


# ---------------------------------------------------------------------------------------------
# Delegated families (added by the coordinator): C15 also speaks about the binary integer parsers / ByteVecP
# and about the four combinators.  Their models, runners and case generators are those of C19 and C18
# (theorems: C19_*_short / uN_shape for the restore and span claims, C18_impl_is_peg for the combinators);
# here their observations are judged by C15's own statement only: on success cursor = reported end and
# start <= end <= size, on failure the cursor is where it was.  Values are C19's / C18's business.
import re as _re

DELEGATES = [('C19', 60000), ('C18', 60000)]
_ROOT_SPAN = _re.compile(r'^ok [^\[\s]*\[(\d+),(\d+)\]')


def _deleg_parts(did, case):
    t = case.split(' ')
    if did == 'C19':
        return (len(t[2]) // 2 if t[2] != '-' else 0), int(t[3]), False
    # C18: expr hexinput cursor
    return (len(t[1]) // 2 if t[1] != '-' else 0), int(t[2]), t[0].startswith('~')


def delegate_oracle(did, case, obs, prof):
    size, c, exempt = _deleg_parts(did, case)
    if obs in ('badcase', 'notwf'):
        return None
    if obs.startswith('err '):
        if exempt:      # C18's bare test double, which deliberately does not restore
            return None
        cur = int(obs.rsplit('@', 1)[1])
        return None if cur == c else 'failed parse moved the cursor from %d to %d: "%s"' % (c, cur, obs)
    if obs.startswith('ok '):
        cur = int(obs.rsplit('@', 1)[1])
        if did == 'C19':
            f = obs.split(' ')
            a, b = int(f[2]), int(f[3])
        else:
            m = _ROOT_SPAN.match(obs)
            if not m:
                return 'unreadable observation "%s"' % obs
            a, b = int(m.group(1)), int(m.group(2))
        if b != cur:
            return 'cursor %d differs from the reported end %d: "%s"' % (cur, b, obs)
        if not (a <= b <= size):
            return 'reported span [%d,%d) not within the buffer of size %d' % (a, b, size)
        if a != c:
            return 'reported start %d is not the position %d the parser was applied at' % (a, c)
        return None
    return 'parser did not return: "%s"' % obs


def delegate_nontrivial(did, case, obs):
    size, c, exempt = _deleg_parts(did, case)
    return obs.startswith('err ') and size > c or (obs.startswith('ok ') and not obs.endswith('@%d' % c))
