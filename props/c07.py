"""C07 — predictor reversal reproduces the original samples."""
import itertools

ID = 'C07'
PROFILES = ['debug', 'release']
MODEL_PER_PROFILE = True
THEOREMS = ['C07_roundtrip', 'C07_roundtrip_parms', 'C07_total', 'C07_total_usize', 'C07_params']
RULE = ('sample matrices rows 0..6 x columns 1..9 x colours 1..4 x bits 8/16 (PNG also 1/2/4) x predictors 2,10..14, '
        'random / gradient / extreme samples, forward-filtered by an independent python encoder (PNG spec 9, TIFF 2) and '
        'zlib-wrapped by the runner; Paeth/Average byte-triple grids; 64-bit parameter sweep '
        '{-2^63,-1,0,1,2,7,8,9,16,64,255,2^31,2^32,2^63-1}^3 x predictors x data lengths 0..20; malformed rows '
        '(wrong tag, truncated, extra bytes), non-integer / missing parameters. '
        'non-trivial = a predictor other than 1 applied to at least one row with a non-zero byte, or a parameter '
        'combination rejected after the size arithmetic')
TRUSTED = ['model of flate_lzw_filter/paeth/parameter extraction in coq/Model/Pred.v (hand transcription, validated by '
           'this correspondence run in debug and release builds)',
           'zlib inflate (the runner compresses the rows with flate2 and the real FlateDecode inflates them; the model '
           'starts after the inflate)']
ASSUMPTIONS = ['row bytes are < 256', 'parameters are i64 values (IntegerT)']

K = {'Predictor': '507265646963746f72', 'Colors': '436f6c6f7273', 'Columns': '436f6c756d6e73',
     'BitsPerComponent': '42697473506572436f6d706f6e656e74'}
KN = {v: k for k, v in K.items()}
SWEEP = [-2 ** 63, -1, 0, 1, 2, 7, 8, 9, 16, 64, 255, 2 ** 31, 2 ** 32, 2 ** 63 - 1]


# ------------------------------------------------------------------ independent reference (PNG spec §9, TIFF predictor 2)
def paeth(a, b, c):
    p = a + b - c
    pa, pb, pc = abs(p - a), abs(p - b), abs(p - c)
    if pa <= pb and pa <= pc:
        return a
    if pb <= pc:
        return b
    return c


def row_bytes(columns, colors, bits):
    return (columns * colors * bits + 7) // 8


def pix_bytes(colors, bits):
    return max(1, (colors * bits + 7) // 8)


def pred_of(ft, a, b, c):
    return [0, a, b, (a + b) // 2, paeth(a, b, c)][ft]


def png_encode(ft, bpp, rows):
    out = bytearray()
    prev = bytes(len(rows[0])) if rows else b''
    for cur in rows:
        out.append(ft)
        for i in range(len(cur)):
            a = cur[i - bpp] if i >= bpp else 0
            c = prev[i - bpp] if i >= bpp else 0
            out.append((cur[i] - pred_of(ft, a, prev[i], c)) & 255)
        prev = cur
    return bytes(out)


def png_decode(bpp, rb, data):
    """rows tagged individually; returns the samples (decoder per PNG spec)"""
    out = bytearray()
    prev = bytes(rb)
    for k in range(0, len(data), rb + 1):
        ft = data[k]
        raw = data[k + 1:k + 1 + rb]
        cur = bytearray(rb)
        for i in range(rb):
            a = cur[i - bpp] if i >= bpp else 0
            c = prev[i - bpp] if i >= bpp else 0
            cur[i] = (raw[i] + pred_of(ft, a, prev[i], c)) & 255
        out += cur
        prev = bytes(cur)
    return bytes(out)


def samples_of(row, bits):
    if bits == 8:
        return list(row)
    return [row[i] * 256 + row[i + 1] for i in range(0, len(row), 2)]


def bytes_of(samples, bits):
    if bits == 8:
        return bytes(samples)
    out = bytearray()
    for s in samples:
        out += bytes([s >> 8, s & 255])
    return bytes(out)


def tiff_encode(colors, bits, rows):
    out = bytearray()
    m = (1 << bits) - 1
    for r in rows:
        s = samples_of(r, bits)
        out += bytes_of([(s[i] - (s[i - colors] if i >= colors else 0)) & m for i in range(len(s))], bits)
    return bytes(out)


def tiff_decode(colors, bits, rb, data):
    out = bytearray()
    m = (1 << bits) - 1
    for k in range(0, len(data), rb):
        s = samples_of(data[k:k + rb], bits)
        for i in range(colors, len(s)):
            s[i] = (s[i] + s[i - colors]) & m
        out += bytes_of(s, bits)
    return bytes(out)


# ------------------------------------------------------------------ case text
def hx(b):
    return b.hex() or '-'


def parms_tok(d):
    """d: dict name -> token text (already in object form), keys sorted as BTreeMap does"""
    if d is None:
        return 'n'
    items = sorted((K[k], v) for k, v in d.items())
    return 'D(' + ','.join('%s:%s' % kv for kv in items) + ')'


def ints(pred=None, colors=None, columns=None, bits=None):
    d = {}
    for k, v in (('Predictor', pred), ('Colors', colors), ('Columns', columns), ('BitsPerComponent', bits)):
        if v is not None:
            d[k] = 'i%d' % v
    return d


def case(d, data):
    return '%s %s' % (parms_tok(d), hx(data))


def parse_case(c):
    t = c.split(' ')
    p = {'Predictor': 1, 'Colors': 1, 'Columns': 1, 'BitsPerComponent': 8}
    if t[0] != 'n':
        inner = t[0][2:-1]
        for ent in (inner.split(',') if inner else []):
            k, v = ent.split(':', 1)
            if k in KN and v[0] == 'i':
                p[KN[k]] = int(v[1:])
    data = b'' if t[1] == '-' else bytes.fromhex(t[1])
    return p, data


# ------------------------------------------------------------------ generators
def rand_row(rng, n, style):
    if style == 0:
        return bytes(rng.randrange(256) for _ in range(n))
    if style == 1:  # smooth gradient (exercises all Paeth branches with small deltas)
        v = rng.randrange(256)
        out = bytearray()
        for _ in range(n):
            v = (v + rng.randrange(-3, 4)) & 255
            out.append(v)
        return bytes(out)
    if style == 2:
        return bytes(rng.choice((0, 255, 1, 254, 128, 127)) for _ in range(n))
    return bytes([rng.randrange(256)] * n)


def matrix_cases(tier, rng):
    out = []
    reps = 3 if tier == 'thorough' else 1
    for pred in (2, 10, 11, 12, 13, 14):
        blist = (8, 16) if pred == 2 else (8, 16, 1, 2, 4)
        for bits in blist:
            for colors in (1, 2, 3, 4):
                for columns in range(1, 10):
                    rb = row_bytes(columns, colors, bits)
                    for nrows in range(0, 7):
                        if tier != 'thorough' and rng.random() < 0.5:
                            continue
                        for _ in range(reps):
                            style = rng.randrange(4)
                            rows = [rand_row(rng, rb, style) for _ in range(nrows)]
                            if pred == 2:
                                enc = tiff_encode(colors, bits, rows)
                                assert tiff_decode(colors, bits, rb, enc) == b''.join(rows)
                            else:
                                enc = png_encode(pred - 10, pix_bytes(colors, bits), rows)
                                assert png_decode(pix_bytes(colors, bits), rb, enc) == b''.join(rows)
                            d = ints(pred, colors, columns, bits)
                            # defaults are sometimes left out
                            if colors == 1 and rng.random() < 0.5:
                                del d['Colors']
                            if bits == 8 and rng.random() < 0.5:
                                del d['BitsPerComponent']
                            if columns == 1 and rng.random() < 0.5:
                                del d['Columns']
                            out.append(case(d, enc))
    return out


def triple_cases(tier, rng):
    """two-row, two-pixel images so that (a, b, c) = (left, up, upper-left) take chosen values"""
    out = []
    grid = [0, 1, 2, 63, 64, 100, 127, 128, 129, 200, 254, 255]
    trip = list(itertools.product(grid, repeat=3))
    n = 6000 if tier == 'thorough' else 800
    trip += [(rng.randrange(256), rng.randrange(256), rng.randrange(256)) for _ in range(n)]
    for (a, b, c) in trip:
        x = rng.randrange(256)
        rows = [bytes([c, b]), bytes([a, x])]
        for pred in (13, 14):
            out.append(case(ints(pred, 1, 2, 8), png_encode(pred - 10, 1, rows)))
    return out


def sweep_cases(tier, rng):
    out = []
    preds = [2, 10, 11, 12, 13, 14, 15]
    nlen = 4 if tier == 'thorough' else 1
    for pred in preds:
        tag = 0 if pred in (2, 15) else pred - 10
        for columns, colors, bits in itertools.product(SWEEP, repeat=3):
            for n in (range(0, 21) if tier == 'thorough' else [rng.randrange(0, 21) for _ in range(nlen)]):
                data = bytearray(rng.randrange(256) for _ in range(n))
                # make the tag bytes plausible for small row lengths so that the row loops are entered
                rl = None
                if 0 <= columns * colors < 32:
                    rl = columns * colors + (0 if pred == 2 else 1)
                if pred != 2 and rl:
                    for k in range(0, n, rl):
                        data[k] = tag
                out.append(case(ints(pred, colors, columns, bits), bytes(data)))
    # predictor itself over the sweep set (and a few neighbours)
    for pred in SWEEP + [3, 9, 15, 16, 2 ** 64 // 2 - 2]:
        for _ in range(6):
            columns, colors, bits = rng.choice(SWEEP), rng.choice(SWEEP), rng.choice(SWEEP)
            n = rng.randrange(0, 21)
            out.append(case(ints(pred, colors, columns, bits), bytes(rng.randrange(256) for _ in range(n))))
    # every data length 0..20 against the panicking shapes found at design time and their neighbours
    for d in (ints(13, 1, 1, 64), ints(13, 1, 2, 64), ints(13, 1, 1, 16), ints(13, 1, 3, 32), ints(12, 1, -1, 8),
              ints(2, 1, -1, 8), ints(11, 2 ** 32, 2 ** 32, 8), ints(2, 2 ** 32, 2 ** 32, 8), ints(14, 3, 2 ** 63 - 1, 8),
              ints(12, 1, 0, 8), ints(12, 0, 5, 8), ints(2, 0, 5, 8), ints(11, 1, 3, 0), ints(14, 1, 3, 0),
              ints(13, 1, 3, 0), ints(13, 1, 3, 7), ints(2, 2, 3, 4), ints(10, 1, 3, 8)):
        tag = d['Predictor']
        tag = 0 if tag in ('i2', 'i15') else int(tag[1:]) - 10
        for n in range(0, 21):
            data = bytearray(rng.randrange(256) for _ in range(n))
            for rl in (2, 3, 4):
                dd = bytearray(data)
                for k in range(0, n, rl):
                    dd[k] = tag
                out.append(case(d, bytes(dd)))
    return out


def malformed_cases(tier, rng):
    out = []
    n = 3000 if tier == 'thorough' else 600
    for _ in range(n):
        pred = rng.choice((2, 10, 11, 12, 13, 14))
        bits = rng.choice((8, 8, 16))
        colors = rng.randrange(1, 4)
        columns = rng.randrange(1, 6)
        rb = row_bytes(columns, colors, bits)
        rows = [rand_row(rng, rb, rng.randrange(4)) for _ in range(rng.randrange(1, 4))]
        enc = bytearray(tiff_encode(colors, bits, rows) if pred == 2 else png_encode(pred - 10, pix_bytes(colors, bits), rows))
        how = rng.randrange(5)
        if how == 0 and enc:
            del enc[rng.randrange(len(enc)):]
        elif how == 1:
            enc += bytes(rng.randrange(256) for _ in range(rng.randrange(1, 4)))
        elif how == 2 and pred != 2:
            k = rng.randrange(len(rows)) * (rb + 1)
            enc[k] = rng.choice([t for t in range(6) if t != pred - 10] + [255])
        elif how == 3:
            pred = rng.choice((0, 3, 9, 15, 16, -2))
        d = ints(pred, colors, columns, bits)
        if how == 4:  # a parameter that is not an integer falls back to its default
            k = rng.choice(list(d))
            d[k] = rng.choice(('q15/10', 'm' + '58', 's3132', 'n', 't', 'A(i2)'))
        out.append(case(d, bytes(enc)))
    # no parameters at all / empty dictionary: identity
    for _ in range(20):
        data = bytes(rng.randrange(256) for _ in range(rng.randrange(0, 30)))
        out.append(case(None, data))
        out.append(case({}, data))
        out.append(case(ints(1, rng.choice(SWEEP), rng.choice(SWEEP), rng.choice(SWEEP)), data))
    return out


def cases(tier, rng):
    return matrix_cases(tier, rng) + triple_cases(tier, rng) + malformed_cases(tier, rng) + sweep_cases(tier, rng)


# ------------------------------------------------------------------ oracle
def expected(p, data):
    """the decoded samples the property demands, or None when the property only demands `no panic`"""
    pred, colors, columns, bits = p['Predictor'], p['Colors'], p['Columns'], p['BitsPerComponent']
    if pred == 1:
        return data
    if colors < 1 or columns < 1 or columns * colors * bits + 8 >= 2 ** 64:
        return None
    if len(data) == 0 and (pred == 2 and bits in (8, 16) or 10 <= pred <= 14 and bits in (1, 2, 4, 8, 16)):
        return b''          # zero rows
    if pred == 2 and bits in (8, 16):
        rb = row_bytes(columns, colors, bits)
        if len(data) % rb == 0:
            return tiff_decode(colors, bits, rb, data)
    if 10 <= pred <= 14 and bits in (1, 2, 4, 8, 16):
        rb = row_bytes(columns, colors, bits)
        if len(data) % (rb + 1) == 0 and all(data[k] == pred - 10 for k in range(0, len(data), rb + 1)):
            return png_decode(pix_bytes(colors, bits), rb, data)
    return None


def oracle(case, obs, prof):
    if obs == 'panic' or obs.startswith('crash') or obs == 'timeout':
        return 'the decoder panicked / crashed (%s)' % obs
    if not (obs.startswith('ok ') or obs.startswith('err ')):
        return 'unexpected observation "%s"' % obs
    p, data = parse_case(case)
    exp = expected(p, data)
    if exp is None:
        return None
    want = 'ok ' + hx(exp)
    if obs != want:
        return 'rows filtered per the PNG/TIFF specification must decode to "%s", implementation gave "%s"' % (want[:80], obs[:80])
    return None


def nontrivial(case, obs):
    p, data = parse_case(case)
    if p['Predictor'] == 1:
        return False
    if obs.startswith('ok '):
        return any(data)
    return obs.startswith('err ') and (p['Columns'] > 255 or p['Columns'] < 1 or p['Colors'] > 255 or p['Colors'] < 1
                                       or p['BitsPerComponent'] not in (1, 2, 4, 8, 16) or len(data) > 0)


def classify(case, obs):
    p, _ = parse_case(case)
    pr = p['Predictor']
    return 'pred%s:%s' % (pr if pr in (1, 2, 10, 11, 12, 13, 14, 15) else 'other', obs.split(' ')[0])


LEVEL_TEXT = ('Coq theorems: for predictors 2 and 10..14, every columns/colours, bits 8 and 16 (PNG also 1/2/4) and every number of '
              'rows, the decoder applied to the rows filtered per PNG spec 9 / TIFF predictor 2 returns the original samples '
              '(induction on rows and on the position in a row; Paeth/Average arithmetic over all byte triples by lia); for all '
              '64-bit parameter values and all data the result is Ok or Err, never a panic; parameter extraction defaults. '
              'The model is tied to pdf_filters.rs by a differential run through the real FlateDecode in debug and release builds')
LEVEL_NOTE = ('trusted: Coq kernel, hand transcription coq/Model/Pred.v (validated by the correspondence run), extraction + '
              'ocaml/drv.ml, harness/src/bin/c07.rs; zlib itself (the runner deflates, the implementation inflates)')
TECHNIQUE = 'Coq proof (loop invariants, induction on rows/positions) + differential correspondence model vs implementation'
