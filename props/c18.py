"""C18 — combinators implement ordered-choice backtracking (PEG) semantics.

case line:   <expr> <hex input> <cursor>
  expr (one token, prefix; '(' ',' ')' are decoration):
     =HH   AsciiChar guarded by c == 0xHH      .   unguarded AsciiChar     [HH..]  guarded by membership
     ~<guard>  DirtyChar: harness test double accepting the same bytes, but it advances the cursor before deciding
               and does not restore it on failure (a legitimate "arbitrary sub-parser")
     S(a,b) Sequence    A(a,b) Alternate    *(a) Star    !(a) Not
observation: ok <tree> @<cursor>  |  err <kind> @<cursor>
  tree = tag[start,end](kids): 'HH char, S sequence, L / R alternative taken, * repetition, ! negation
"""
import itertools

ID = 'C18'
PROFILES = ['debug', 'release']
THEOREMS = ['C18_impl_is_peg', 'C18_peg_total_wf', 'C18_peg_functional', 'C18_impl_total', 'C18_peg_eval_correct',
            'C18_star_nullable_diverges']
ALLOWED_AXIOMS = []
RULE = ('exhaustive: every expression of depth <= 3 (leaf = depth 1) over the guards {=a,=b,=c} whose Star operands are '
        'syntactically non-nullable x every string over {a,b,c} of length <= 5 (quick) / <= 6 (thorough) and every such '
        'string of length <= 4 / <= 5 with one byte replaced by the non-ASCII byte 0x80, cursor 0; the same expressions at '
        'non-zero cursors; every wf expression of depth <= 3 over {=a,=b} and the cursor-dirtying test leaves {~=a,~=b} x every '
        'string over {a,b} of length <= 5 / <= 6 (+ 0x80 variants); depth <= 2 over all guard forms; thorough: 20000 sampled '
        'depth-4 expressions x all strings over {a,b} of length <= 5; random expressions of depth <= 6 with unguarded / set guards on inputs derived from the '
        'expression (a matching string, then mutated, truncated or extended) of length <= 24, and a malformed stream of '
        'random bytes. non-trivial = the expression has a combinator and some operand consumed input during the parse')
TRUSTED = ['model of prim_combinators.rs / prim_ascii.rs / parse_guarded in coq/Model/Comb.v (hand transcription, '
           'validated by this correspondence run)']
ASSUMPTIONS = ['Star is applied only to syntactically non-nullable operands (wf): outside it the Rust loop does not terminate',
               'guards are pure predicates on the byte (equality, membership, none)',
               'a view behaves as its window (C17)']

# ----------------------------------------------------------------------------- expressions
# python form: ('c', guard) | ('d', guard) (dirty leaf) | ('S', a, b) | ('A', a, b) | ('*', a) | ('!', a); guard: None | int | frozenset


def show_guard(g):
    if g is None:
        return '.'
    if isinstance(g, int):
        return '=%02x' % g
    return '[' + ''.join('%02x' % b for b in sorted(g)) + ']'


def show_expr(e):
    t = e[0]
    if t == 'c':
        return show_guard(e[1])
    if t == 'd':
        return '~' + show_guard(e[1])
    if t in 'SA':
        return '%s(%s,%s)' % (t, show_expr(e[1]), show_expr(e[2]))
    return '%s(%s)' % (t, show_expr(e[1]))


def read_expr(tok):
    pos = [0]

    def rd():
        while pos[0] < len(tok) and tok[pos[0]] in '(),':
            pos[0] += 1
        ch = tok[pos[0]]
        pos[0] += 1
        if ch == '~':
            return ('d', rd()[1])
        if ch == '=':
            b = int(tok[pos[0]:pos[0] + 2], 16)
            pos[0] += 2
            return ('c', b)
        if ch == '.':
            return ('c', None)
        if ch == '[':
            st = []
            while tok[pos[0]] != ']':
                st.append(int(tok[pos[0]:pos[0] + 2], 16))
                pos[0] += 2
            pos[0] += 1
            return ('c', frozenset(st))
        if ch in 'SA':
            a = rd()
            b = rd()
            return (ch, a, b)
        if ch in '*!':
            return (ch, rd())
        raise ValueError('bad expression token')

    return rd()


def nullable(e):
    t = e[0]
    if t in 'cd':
        return False
    if t == 'S':
        return nullable(e[1]) and nullable(e[2])
    if t == 'A':
        return nullable(e[1]) or nullable(e[2])
    return True


def wf(e):
    t = e[0]
    if t in 'cd':
        return True
    if t in 'SA':
        return wf(e[1]) and wf(e[2])
    if t == '*':
        return wf(e[1]) and not nullable(e[1])
    return wf(e[1])


def depth(e):
    return 1 if e[0] in 'cd' else 1 + max(depth(x) for x in e[1:])


# ----------------------------------------------------------------------------- reference PEG semantics
# (independent of the Coq model: the textbook definition, on positions of the input)
def accepts(g, b):
    if b >= 128:
        return False
    if g is None:
        return True
    if isinstance(g, int):
        return b == g
    return b in g


class Ref:
    """peg(e, s, i) -> None (failure) | (tree, j): tree = (tag, i, j, kids) is the value structure annotated with
    the segment of the input each sub-expression consumed.  `far` records the furthest position any operand reached."""

    def __init__(self, s):
        self.s = s
        self.far = 0

    def peg(self, e, i):
        t = e[0]
        s = self.s
        if t == 'c' or t == 'd':
            if i < len(s) and accepts(e[1], s[i]):
                if i + 1 > self.far:
                    self.far = i + 1
                return (("'%02x" % s[i], i, i + 1, ()), i + 1)
            return None
        if t == 'S':
            r1 = self.peg(e[1], i)
            if r1 is None:
                return None
            r2 = self.peg(e[2], r1[1])
            if r2 is None:
                return None
            return (('S', i, r2[1], (r1[0], r2[0])), r2[1])
        if t == 'A':
            r1 = self.peg(e[1], i)
            if r1 is not None:
                return (('L', i, r1[1], (r1[0],)), r1[1])
            r2 = self.peg(e[2], i)
            if r2 is None:
                return None
            return (('R', i, r2[1], (r2[0],)), r2[1])
        if t == '*':
            kids = []
            j = i
            while True:
                r = self.peg(e[1], j)
                if r is None:
                    break
                if r[1] == j:
                    raise ValueError('Star operand succeeded without consuming (not wf)')
                kids.append(r[0])
                j = r[1]
            return (('*', i, j, tuple(kids)), j)
        if t == '!':
            r = self.peg(e[1], i)
            if r is None:
                return (('!', i, i, ()), i)
            return None
        raise ValueError(t)


def show_tree(t):
    tag, a, e, kids = t
    if tag[0] == "'" or tag == '!':
        return '%s[%d,%d]' % (tag, a, e)
    return '%s[%d,%d](%s)' % (tag, a, e, ','.join(show_tree(k) for k in kids))


def read_tree(txt):
    """parses an observed tree; returns (tag, a, e, kids) or raises."""
    pos = [0]

    def rd():
        ch = txt[pos[0]]
        if ch == "'":
            tag = txt[pos[0]:pos[0] + 3]
            pos[0] += 3
        else:
            tag = ch
            pos[0] += 1
        assert txt[pos[0]] == '['
        j = txt.index(']', pos[0])
        a, e = txt[pos[0] + 1:j].split(',')
        pos[0] = j + 1
        kids = []
        if pos[0] < len(txt) and txt[pos[0]] == '(':
            pos[0] += 1
            while txt[pos[0]] != ')':
                if txt[pos[0]] == ',':
                    pos[0] += 1
                kids.append(rd())
            pos[0] += 1
        return (tag, int(a), int(e), tuple(kids))

    t = rd()
    assert pos[0] == len(txt)
    return t


def erase(t):
    return (t[0], tuple(erase(k) for k in t[3]))


def nesting_error(t):
    """spans nest consistently with the structure: start <= end at every node, the children of a node lie inside its
    span, in order and without overlap."""
    tag, a, e, kids = t
    if a > e:
        return 'node %s has span [%d,%d]' % (tag, a, e)
    prev = a
    for k in kids:
        if k[1] < prev or k[2] > e:
            return 'child %s[%d,%d] of %s[%d,%d] out of place' % (k[0], k[1], k[2], tag, a, e)
        prev = k[2]
        m = nesting_error(k)
        if m:
            return m
    return None


_ecache = {}
_last = [None, None]


def _analyse(case):
    if _last[0] == case:
        return _last[1]
    t = case.split(' ')
    e = _ecache.get(t[0])
    if e is None:
        e = read_expr(t[0])
        if len(_ecache) > 200000:
            _ecache.clear()
        _ecache[t[0]] = e
    s = b'' if t[1] == '-' else bytes.fromhex(t[1])
    c = int(t[2])
    if c > len(s):
        r = ('badcase', None, None, e, c)
    elif not wf(e):
        r = ('notwf', None, None, e, c)
    else:
        ref = Ref(s)
        ref.far = c
        res = ref.peg(e, c)
        r = ('run', res, ref.far, e, c)
    _last[0], _last[1] = case, r
    return r


def oracle(case, obs, prof):
    """the property on the implementation's observation: same outcome as the reference semantics."""
    kind, res, far, e, c = _analyse(case)
    if kind != 'run':
        return None if obs == kind else 'case outside the domain (%s) but implementation gave "%s"' % (kind, obs)
    if res is None:
        if obs.startswith('err ') and obs.endswith(' @%d' % c):
            return None
        if obs.startswith('err ') and e[0] == 'd':
            return None                     # the bare test double is not under test: it may leave the cursor anywhere
        if obs.startswith('err '):
            return 'failure must leave the cursor at %d: "%s"' % (c, obs)
        return 'reference semantics fails, implementation gave "%s"' % obs
    tree, j = res
    exp = 'ok %s @%d' % (show_tree(tree), j)
    if obs == exp:
        return None
    # say what differs
    if not obs.startswith('ok '):
        return 'reference semantics succeeds consuming %d with %s, implementation gave "%s"' % (j - c, show_tree(tree), obs)
    try:
        body, cur = obs[3:].rsplit(' @', 1)
        got = read_tree(body)
        cur = int(cur)
    except Exception:
        return 'unreadable observation "%s"' % obs
    if erase(got) != erase(tree):
        return 'value structure differs: expected %s, got %s' % (show_tree(tree), body)
    if cur != j:
        return 'consumed length differs: expected cursor %d, got %d' % (j, cur)
    if (got[1], got[2]) != (c, j):
        return 'root span [%d,%d] is not the consumed segment [%d,%d]' % (got[1], got[2], c, j)
    m = nesting_error(got)
    if m:
        return 'spans do not nest: ' + m
    return 'spans are not the segments consumed by the sub-expressions: expected %s, got %s' % (show_tree(tree), body)


def nontrivial(case, obs):
    kind, res, far, e, c = _analyse(case)
    return kind == 'run' and e[0] not in 'cd' and far > c


def classify(case, obs):
    return case[0] + ':' + obs.split(' ')[0]


# ----------------------------------------------------------------------------- generators
def exprs_upto(d, leaves):
    """all expressions of depth <= d over the given leaves."""
    if d == 1:
        return list(leaves)
    sub = exprs_upto(d - 1, leaves)
    out = list(leaves)
    for a in sub:
        for b in sub:
            out.append(('S', a, b))
            out.append(('A', a, b))
    for a in sub:
        out.append(('*', a))
        out.append(('!', a))
    return out


def _hex(bs):
    return bytes(bs).hex() or '-'


def rand_expr(rng, d, need_consume=False):
    """random wf expression of depth <= d; need_consume: syntactically non-nullable."""
    if d <= 1 or rng.random() < 0.15:
        r = rng.random()
        if r < 0.2:
            return ('d', rng.choice(b'abcd'))
        if r < 0.6:
            return ('c', rng.choice(b'abcd'))
        if r < 0.75:
            return ('c', None)
        if r < 0.95:
            return ('c', frozenset(rng.sample(list(b'abcdx'), rng.randrange(1, 4))))
        return ('c', rng.choice([0x80, 0xe1, 0x00, 0x7f]))
    for _ in range(50):
        k = rng.choice('SSAA*!' if not need_consume else 'SSAA')
        if k in 'SA':
            e = (k, rand_expr(rng, d - 1), rand_expr(rng, d - 1))
        elif k == '*':
            e = ('*', rand_expr(rng, d - 1, True))
        else:
            e = ('!', rand_expr(rng, d - 1))
        if wf(e) and not (need_consume and nullable(e)):
            return e
    return ('c', rng.choice(b'abc'))


def sample_match(rng, e, budget=8):
    """a string the expression is likely to accept (a random derivation)."""
    t = e[0]
    if t in 'cd':
        g = e[1]
        if g is None:
            return [rng.choice(b'abcdx')]
        if isinstance(g, int):
            return [g]
        return [rng.choice(sorted(g))]
    if t == 'S':
        return sample_match(rng, e[1], budget) + sample_match(rng, e[2], budget)
    if t == 'A':
        return sample_match(rng, e[1 + rng.randrange(2)], budget)
    if t == '*':
        out = []
        for _ in range(rng.randrange(0, 4)):
            out += sample_match(rng, e[1], budget)
        return out
    return []


def rand_input(rng, e):
    r = rng.random()
    if r < 0.08:                                            # malformed stream
        return [rng.randrange(256) for _ in range(rng.randrange(0, 25))]
    s = sample_match(rng, e)
    if r < 0.35:
        s += [rng.choice(b'abcd') for _ in range(rng.randrange(0, 6))]
    elif r < 0.6 and s:
        for _ in range(rng.randrange(1, 3)):
            s[rng.randrange(len(s))] = rng.choice([0x61, 0x62, 0x63, 0x64, 0x80, 0x00])
    elif r < 0.7 and s:
        s = s[:rng.randrange(len(s))]
    elif r < 0.8:
        s = s + sample_match(rng, e)
    return s[:24]


def cases(tier, rng):
    out = []
    abc = b'abc'
    leaves = [('c', b) for b in abc]
    ex3 = [e for e in exprs_upto(3, leaves) if wf(e)]
    toks = [show_expr(e) for e in ex3]
    L = 6 if tier == 'thorough' else 5
    strings = []
    for n in range(0, L + 1):
        for w in itertools.product(abc, repeat=n):
            strings.append(_hex(w))
    for n in range(1, L):                                   # one byte replaced by 0x80
        for w in itertools.product(abc, repeat=n - 1):
            for p in range(n):
                strings.append(_hex(w[:p] + (0x80,) + w[p:]))
    for tk in toks:
        for h in strings:
            out.append('%s %s 0' % (tk, h))
    # the same expressions at non-zero cursors (including cursor = length)
    for tk in toks:
        for _ in range(6 if tier == 'thorough' else 3):
            n = rng.randrange(1, 8)
            w = [rng.choice(b'abc') for _ in range(n)]
            out.append('%s %s %d' % (tk, _hex(w), rng.randrange(1, n + 1)))
    # the same bound with cursor-dirtying leaves: depth <= 3 over {=a, =b, ~=a, ~=b} x strings over {a,b} (+ 0x80)
    ab = b'ab'
    exd = [e for e in exprs_upto(3, [('c', 0x61), ('c', 0x62), ('d', 0x61), ('d', 0x62)]) if wf(e)]
    Ld = 6 if tier == 'thorough' else 5
    sd = []
    for n in range(0, Ld + 1):
        for w in itertools.product(ab, repeat=n):
            sd.append(_hex(w))
    for n in range(1, 4):
        for w in itertools.product(ab, repeat=n - 1):
            for p in range(n):
                sd.append(_hex(w[:p] + (0x80,) + w[p:]))
    for e in exd:
        tk = show_expr(e)
        for h in sd:
            out.append('%s %s 0' % (tk, h))
    # depth <= 2 over all guard forms
    lv = [('c', 0x61), ('c', 0x62), ('c', None), ('c', frozenset(b'ab')), ('c', frozenset(b'bc')), ('d', None),
          ('d', frozenset(b'ac')), ('c', 0x80)]
    for e in exprs_upto(2, lv):
        if wf(e):
            tk = show_expr(e)
            for h in [h for h in strings if len(h) <= 10]:
                out.append('%s %s 0' % (tk, h))
    if tier == 'thorough':
        # depth 4 over {=a,=b,~=a}, sampled, x all strings over {a,b} of length <= 5
        d3 = exprs_upto(3, [('c', 0x61), ('c', 0x62), ('d', 0x61)])
        got = 0
        while got < 20000:
            k = rng.choice('SA*!')
            e = (k, rng.choice(d3), rng.choice(d3)) if k in 'SA' else (k, rng.choice(d3))
            if depth(e) == 4 and wf(e):
                got += 1
                tk = show_expr(e)
                for h in sd[:63]:
                    out.append('%s %s 0' % (tk, h))
    # random deeper expressions, inputs derived from the expression
    n = 400000 if tier == 'thorough' else 40000
    for i in range(n):
        e = rand_expr(rng, rng.randrange(2, 7))
        tk = show_expr(e)
        for _ in range(3):
            s = rand_input(rng, e)
            c = 0 if rng.random() < 0.6 else rng.randrange(0, len(s) + 1)
            out.append('%s %s %d' % (tk, _hex(s), c))
    return out


def shrink(v, observe):
    """greedy: replace a sub-expression by one of its operands, drop an input byte; keep while the oracle still fails."""
    case = v['case']
    prof = v.get('profile', 'debug')

    def subs(e):
        if e[0] in 'cd':
            return
        for k in e[1:]:
            yield k
        for ix in range(1, len(e)):
            for k in subs(e[ix]):
                yield e[:ix] + (k,) + e[ix + 1:]

    budget = 150
    improved = True
    while improved and budget > 0:
        improved = False
        tk, hx, c = case.split(' ')
        e = read_expr(tk)
        s = b'' if hx == '-' else bytes.fromhex(hx)
        cands = ['%s %s %s' % (show_expr(k), hx, c) for k in subs(e) if wf(k)]
        cands += ['%s %s %s' % (tk, _hex(s[:i] + s[i + 1:]), c) for i in range(int(c), len(s))]
        for cand in cands:
            budget -= 1
            if budget <= 0:
                break
            o = observe(cand)
            m = oracle(cand, o, prof)
            if m:
                case, improved = cand, True
                v = dict(v, case=cand, impl=o, oracle=m)
                break
    return v


LEVEL_TEXT = ('Coq theorem C18_impl_is_peg (all wf expressions over equality / membership / absent guards, all inputs, all '
              'cursors, any fuel > |input|): the transcribed Sequence/Alternate/Star/Not/AsciiChar succeed exactly when the '
              'textbook PEG big-step semantics succeeds, with the same value structure (locations erased), the same consumed '
              'length, every node span equal to the segment its sub-expression consumed (spans tile their parent), and fail '
              'exactly when it fails, with the cursor restored; never panic or run out of fuel; PEG semantics proved '
              'functional and total on wf expressions and equal to an executable evaluator; the model is tied to the Rust '
              'generic combinators by an exhaustive depth<=3 x length<=5/6 differential run plus random deeper expressions')
LEVEL_NOTE = ('trusted: Coq kernel, hand transcription coq/Model/Comb.v (validated by the correspondence run), extraction + '
              'ocaml/drv.ml, harness/src/bin/c18.rs (DynP wrapper that instantiates the real generic combinators at each node); '
              'assumes Star operands are syntactically non-nullable (the property\'s domain; outside it the Rust loop diverges), '
              'guards are pure byte predicates, and that a view behaves as its window (C17)')
TECHNIQUE = ('Coq refinement proof: structural induction on the expression with an inner induction on loop fuel for Star '
             '(impl_sound), transported through peg_functional; differential correspondence model vs implementation; '
             'independent python PEG oracle')
