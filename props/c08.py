"""C08 — the type checker accepts exactly the conforming objects.

Case line:  mode octx tctx chk obj   (text forms: docs/TCSPEC.md, coq/Base/PdfObj.v)
Three-way comparison: the implementation's verdict (runner c08), the model's verdict (extracted
`run`, compared byte for byte by ./pv), and the declarative reading of the specification — computed
here in Python (greatest fixed point over the reachable (object, check) pairs) and cross-checked
against the Coq `conforms_dec` (model runner, mode "c").
"""
import os, subprocess, itertools

ID = 'C08'
PROFILES = ['debug']
THEOREMS = ['C08_refuted', 'C08_refuted_any_entry', 'C08_refuted_any_entry_stream', 'C08_refuted_any_entry_star',
            'C08_fixed_memo_leak', 'C08_fixed_disjunct_attrs', 'C08_fixed_memo_pred', 'C08_fixed_compound_pred',
            'C08_fixed_any_elem', 'C08_fixed_self_reference', 'C08_fixed_examined_alternative', 'C08_fixed_named_disjunct',
            'C08_fixed_stale_index', 'C08_fixed_undefined_required',
            'C08_layer_i_machine_refines_recursive_checker', 'C08_layer_ii_ok', 'C08_layer_ii_fail', 'C08_accept_sound',
            'C08_reject_sound', 'C08_except_known', 'C08_full_outside_known_finding', 'C08_conforming_accepted', 'C08_verdict_wf',
            'C08_normalize_preserves_conformance', 'C08_except_known_as_written', 'C08_full_outside_known_finding_as_written']
ALLOWED_AXIOMS = []
CASE_TIMEOUT = 300
ROOT = os.path.dirname(os.path.dirname(os.path.abspath(__file__)))

# ====================================================================== text forms
PRIMS = {'b': 'b', 's': 's', 'm': 'm', 'n': 'n', 'i': 'i', 'q': 'q', 'c': 'c'}


class Rd:
    def __init__(self, s):
        self.s, self.i = s, 0

    def peek(self):
        return self.s[self.i] if self.i < len(self.s) else ''

    def take(self, ok):
        st = self.i
        while self.i < len(self.s) and ok(self.s[self.i]):
            self.i += 1
        return self.s[st:self.i]

    def expect(self, c):
        if self.peek() != c:
            raise ValueError('expected %r at %d in %r' % (c, self.i, self.s))
        self.i += 1


HEX = '0123456789abcdefABCDEF'


def _unhex(h):
    return bytes(int(h[k:k + 2], 16) for k in range(0, len(h) - 1, 2))


# ---- objects: ('n',) ('b',bool) ('i',int) ('q',n,d) ('s',bytes) ('m',bytes) ('c',bytes) ('R',n,g)
#               ('A',(objs…)) ('D',((key,obj)…)) ('S',((key,obj)…),content)
def _obj(r):
    c = r.peek()
    r.i += 1
    if c == 'n':
        return ('n',)
    if c == 't':
        return ('b', True)
    if c == 'f':
        return ('b', False)
    if c == 'i':
        return ('i', int(r.take(lambda x: x.isdigit() or x == '-') or '0'))
    if c == 'q':
        n = int(r.take(lambda x: x.isdigit() or x == '-') or '0')
        r.expect('/')
        return ('q', n, int(r.take(lambda x: x.isdigit() or x == '-') or '0'))
    if c in 'smc':
        return (c, _unhex(r.take(lambda x: x in HEX)))
    if c == 'R':
        n = int(r.take(str.isdigit) or '0')
        r.expect('.')
        return ('R', n, int(r.take(str.isdigit) or '0'))
    if c == 'A':
        r.expect('(')
        l = []
        while True:
            if r.peek() == ')':
                r.i += 1
                break
            if r.peek() == ',':
                r.i += 1
                continue
            l.append(_obj(r))
        return ('A', tuple(l))
    if c == 'D':
        r.expect('(')
        return ('D', _dict(r))
    if c == 'S':
        r.expect('(')
        r.expect('D')
        r.expect('(')
        d = _dict(r)
        r.expect(',')
        content = _unhex(r.take(lambda x: x in HEX))
        r.expect(')')
        return ('S', d, content)
    raise ValueError('bad object tag %r' % c)


def _dict(r):
    d = {}
    while True:
        if r.peek() == ')':
            r.i += 1
            break
        if r.peek() == ',':
            r.i += 1
            continue
        k = _unhex(r.take(lambda x: x in HEX))
        r.expect(':')
        d[k] = _obj(r)           # a later binding replaces an earlier one (BTreeMap::insert)
    return tuple(sorted(d.items()))


def parse_obj(s):
    r = Rd(s)
    o = _obj(r)
    if r.i != len(s):
        raise ValueError('trailing text in object')
    return o


def show_obj(o):
    t = o[0]
    if t == 'n':
        return 'n'
    if t == 'b':
        return 't' if o[1] else 'f'
    if t == 'i':
        return 'i%d' % o[1]
    if t == 'q':
        return 'q%d/%d' % (o[1], o[2])
    if t in 'smc':
        return t + o[1].hex()
    if t == 'R':
        return 'R%d.%d' % (o[1], o[2])
    if t == 'A':
        return 'A(' + ','.join(show_obj(x) for x in o[1]) + ')'
    if t == 'D':
        return 'D(' + ','.join(k.hex() + ':' + show_obj(v) for k, v in o[1]) + ')'
    if t == 'S':
        return 'S(D(' + ','.join(k.hex() + ':' + show_obj(v) for k, v in o[1]) + '),' + o[2].hex() + ')'
    raise ValueError(o)


def parse_octx(s):
    ctx = {}
    if s in ('-', ''):
        return ctx
    for part in s.split(';'):
        idt, txt = part.split('=', 1)
        n, g = idt.split('.')
        ctx[(int(n), int(g))] = parse_obj(txt)
    return ctx


def show_octx(ctx):
    if not ctx:
        return '-'
    return ';'.join('%d.%d=%s' % (k[0], k[1], show_obj(v)) for k, v in ctx.items())


# ---- checks: ('@',name) | ('r', ty, pred, ind)   ind in '!', '', '~'
#   ty: ('_',) ('p',letter) ('A',chk,size|None) ('H',(chks…)) ('D',(ents…),star|None) ('S',(ents…)) ('O',(chks…))
#   ent: (key, chk, opt)  opt in '+?-' ; star: (chk, opt)
#   pred: None | ('1',) ('0',) ('N',(names…)) ('I',(ints…)) ('L',n) ('#',k)
def _pred(r):
    k = r.peek()
    r.i += 1
    if k in '10':
        p = (k,)
    elif k == 'N':
        l = []
        if r.peek() != '}':
            while True:
                l.append(_unhex(r.take(lambda x: x in HEX)))
                if r.peek() == ',':
                    r.i += 1
                else:
                    break
        p = ('N', tuple(l))
    elif k == 'I':
        l = []
        if r.peek() != '}':
            while True:
                l.append(int(r.take(lambda x: x.isdigit() or x == '-') or '0'))
                if r.peek() == ',':
                    r.i += 1
                else:
                    break
        p = ('I', tuple(l))
    elif k == 'L':
        p = ('L', int(r.take(str.isdigit) or '0'))
    elif k == '#':
        p = ('#', int(r.take(str.isdigit) or '0'))
    else:
        raise ValueError('bad predicate')
    r.expect('}')
    return p


def _chk(r):
    if r.peek() == '@':
        r.i += 1
        return ('@', r.take(lambda x: x not in ',);='))
    ind = ''
    if r.peek() in ('!', '~'):
        ind = r.peek()
        r.i += 1
    p = None
    if r.peek() == '{':
        r.i += 1
        p = _pred(r)
    return ('r', _ty(r), p, ind)


def _list(r):
    l = []
    while True:
        if r.peek() == ')':
            r.i += 1
            break
        if r.peek() == ',':
            r.i += 1
            continue
        l.append(_chk(r))
    return tuple(l)


def _ents(r):
    l, star = [], None
    while True:
        if r.peek() == ')':
            r.i += 1
            break
        if r.peek() == ',':
            r.i += 1
            continue
        if r.peek() == '*':
            r.i += 1
            o = r.peek()
            r.i += 1
            r.expect(':')
            star = (_chk(r), o)
            continue
        k = _unhex(r.take(lambda x: x in HEX))
        o = r.peek()
        if o not in '+?-' or o == '':
            raise ValueError('bad key spec')
        r.i += 1
        r.expect(':')
        l.append((k, _chk(r), o))
    return tuple(l), star


def _ty(r):
    c = r.peek()
    r.i += 1
    if c == '_':
        return ('_',)
    if c in PRIMS:
        return ('p', c)
    if c == 'A':
        d = r.take(str.isdigit)
        r.expect('(')
        e = _chk(r)
        r.expect(')')
        return ('A', e, int(d) if d else None)
    if c == 'H':
        r.expect('(')
        return ('H', _list(r))
    if c == 'O':
        r.expect('(')
        return ('O', _list(r))
    if c == 'D':
        r.expect('(')
        l, star = _ents(r)
        return ('D', l, star)
    if c == 'S':
        r.expect('(')
        l, _ = _ents(r)
        return ('S', l)
    raise ValueError('bad type tag %r' % c)


def parse_chk(s):
    r = Rd(s)
    c = _chk(r)
    if r.i != len(s):
        raise ValueError('trailing text in check')
    return c


def show_pred(p):
    if p is None:
        return ''
    k = p[0]
    if k in '10':
        return '{%s}' % k
    if k == 'N':
        return '{N' + ','.join(x.hex() for x in p[1]) + '}'
    if k == 'I':
        return '{I' + ','.join(str(x) for x in p[1]) + '}'
    return '{%s%d}' % (k, p[1])


def show_chk(c):
    if c[0] == '@':
        return '@' + c[1]
    _, t, p, ind = c
    return ind + show_pred(p) + show_ty(t)


def _show_ents(l, star):
    parts = [k.hex() + o + ':' + show_chk(c) for k, c, o in l]
    if star is not None:
        parts.append('*' + star[1] + ':' + show_chk(star[0]))
    return ','.join(parts)


def show_ty(t):
    k = t[0]
    if k == '_':
        return '_'
    if k == 'p':
        return t[1]
    if k == 'A':
        return 'A' + ('' if t[2] is None else str(t[2])) + '(' + show_chk(t[1]) + ')'
    if k == 'H':
        return 'H(' + ','.join(show_chk(x) for x in t[1]) + ')'
    if k == 'O':
        return 'O(' + ','.join(show_chk(x) for x in t[1]) + ')'
    if k == 'D':
        return 'D(' + _show_ents(t[1], t[2]) + ')'
    if k == 'S':
        return 'S(' + _show_ents(t[1], None) + ')'
    raise ValueError(t)


def parse_tctx(s):
    ctx = {}
    if s in ('-', ''):
        return ctx
    for part in s.split(';'):
        name, txt = part.split('=', 1)
        c = parse_chk(txt)
        if c[0] != 'r':
            raise ValueError('a named check must be a representation')
        ctx[name] = c
    return ctx


def show_tctx(ctx):
    if not ctx:
        return '-'
    return ';'.join('%s=%s' % (k, show_chk(v)) for k, v in ctx.items())


def mk_case(mode, octx, tctx, chk, obj):
    return '%s %s %s %s %s' % (mode, show_octx(octx), show_tctx(tctx), show_chk(chk), show_obj(obj))


def parse_case(line):
    t = line.split(' ')
    return t[0], parse_octx(t[1]), parse_tctx(t[2]), parse_chk(t[3]), parse_obj(t[4])


# ====================================================================== the declarative reading
def pred_ok(p, o):
    if p is None:
        return True
    k = p[0]
    if k == '1':
        return True
    if k == '0':
        return False
    if k == 'N':
        return o[0] == 'm' and o[1] in p[1]
    if k == 'I':
        return o[0] == 'i' and o[1] in p[1]
    if k == 'L':
        return o[0] == 'A' and len(o[1]) == p[1]
    if k == '#':
        return True
    raise ValueError(p)


def value_of(octx, o):
    """the value a chain of references denotes; undefined or never reaching a value: null"""
    seen = set()
    while o[0] == 'R':
        k = (o[1], o[2])
        if k in seen or k not in octx:
            return ('n',)
        seen.add(k)
        o = octx[k]
    return o


PRIM_OF = {'b': 'b', 's': 's', 'm': 'm', 'n': 'n', 'i': 'i', 'q': 'q', 'c': 'c'}

FALSE = ('false',)


def unfold(octx, tctx, o, c, skip_any_entries=False):
    """one layer: returns FALSE, or ('and', [pairs]) / ('andor', [pairs], [alternatives]).
    skip_any_entries: the reading of known finding C08-any-entry (entries of type Any are not checked)"""
    if c[0] == '@':
        c = tctx.get(c[1])
        if c is None:
            return FALSE
    _, t, p, ind = c
    if t[0] == 'O':
        return ('andor', [(o, ('r', ('_',), p, ind))], [(o, a) for a in t[1]])
    if o[0] == 'R':
        if ind == '~':
            return FALSE
        return ('and', [(value_of(octx, o), ('r', t, p, ''))])
    if ind == '!':
        return FALSE
    if not pred_ok(p, o):
        return FALSE
    k = t[0]
    if k == '_':
        return ('and', [])
    if k == 'p':
        return ('and', []) if o[0] == PRIM_OF[t[1]] else FALSE
    if k == 'A':
        if o[0] != 'A' or (t[2] is not None and len(o[1]) != t[2]):
            return FALSE
        return ('and', [(x, t[1]) for x in o[1]])
    if k == 'H':
        if o[0] != 'A' or len(o[1]) != len(t[1]):
            return FALSE
        return ('and', list(zip(o[1], t[1])))
    if k in 'DS':
        if (k == 'D' and o[0] != 'D') or (k == 'S' and o[0] != 'S'):
            return FALSE
        d = dict(o[1])
        kids = []
        for key, ec, opt in t[1]:
            v = d.get(key)
            if v is None:
                if opt == '+':
                    return FALSE
            else:
                if opt == '-':
                    return FALSE
                if skip_any_entries and _is_any(tctx, ec):
                    continue
                kids.append((v, ec))
        if k == 'D' and t[2] is not None:
            sc, sopt = t[2]
            specified = set(key for key, _, _ in t[1])
            for key, v in o[1]:
                if key not in specified:
                    if sopt == '-':
                        return FALSE
                    if skip_any_entries and _is_any(tctx, sc):
                        continue
                    kids.append((v, sc))
        return ('and', kids)
    raise ValueError(t)


def _is_any(tctx, c):
    r = tctx.get(c[1]) if c[0] == '@' else c
    return r is not None and r[1][0] == '_'


def conforms(octx, tctx, o, c, skip_any_entries=False):
    """greatest fixed point by Kleene iteration over the reachable pairs"""
    nodes = {}
    work = [(o, c)]
    while work:
        p = work.pop()
        if p in nodes:
            continue
        u = unfold(octx, tctx, p[0], p[1], skip_any_entries)
        nodes[p] = u
        if u is not FALSE:
            work.extend(u[1])
            if u[0] == 'andor':
                work.extend(u[2])
    val = {p: nodes[p] is not FALSE for p in nodes}
    changed = True
    while changed:
        changed = False
        for p, u in nodes.items():
            if not val[p]:
                continue
            ok = all(val[q] for q in u[1])
            if ok and u[0] == 'andor':
                ok = any(val[q] for q in u[2])
            if not ok:
                val[p] = False
                changed = True
    return val[(o, c)]


def closed_spec(tctx, c):
    """every name mentioned is defined (an empty disjunction is a specification like any other:
    nothing conforms to it)"""
    seen, work = set(), [c] + list(tctx.values())
    while work:
        x = work.pop()
        if x[0] == '@':
            if x[1] not in tctx:
                return False
            continue
        t = x[1]
        k = t[0]
        if k == 'A':
            work.append(t[1])
        elif k in 'HO':
            work.extend(t[1])
        elif k in 'DS':
            work.extend(e[1] for e in t[1])
            if k == 'D' and t[2] is not None:
                work.append(t[2][0])
    return True


# ====================================================================== oracle
_COQ_SPEC = {}     # case text (mode v) -> 'conforms' / 'violates', from the model runner's mode "c"


def _coq_spec_batch(lines):
    run = os.path.join(ROOT, 'ocaml', 'build', 'c08', 'run')
    if not os.path.exists(run):
        return
    todo = [l for l in lines if l not in _COQ_SPEC]
    if not todo:
        return
    inp = '\n'.join('c ' + l.split(' ', 1)[1] for l in todo) + '\n'
    try:
        out = subprocess.run(['bash', '-c', 'ulimit -s unlimited 2>/dev/null; exec "$0"', run], input=inp.encode(),
                             stdout=subprocess.PIPE, stderr=subprocess.DEVNULL, timeout=600).stdout.decode().split('\n')
    except Exception:
        return
    for l, o in zip(todo, out):
        _COQ_SPEC[l] = o


def spec_verdict(case):
    mode, octx, tctx, chk, obj = parse_case(case)
    if not closed_spec(tctx, chk):
        return None
    return conforms(octx, tctx, obj, chk)


def oracle(case, obs, prof):
    verdict = obs.split(' steps=')[0]
    if verdict in ('timeout', 'notrun', 'missing') or verdict.startswith('crash'):
        return 'the checker did not answer: %s' % verdict
    if verdict == 'nondeterministic' or verdict.startswith('unstable'):
        return 'the verdict depends on the history of the type-check context: %s' % verdict
    want = spec_verdict(case)
    if want is None:
        return None            # ill-formed specification (undefined name / empty disjunction): no claim
    if case not in _COQ_SPEC:
        _coq_spec_batch([case])
    cq = _COQ_SPEC.get(case)
    if cq in ('conforms', 'violates') and (cq == 'conforms') != want:
        return 'MACHINERY: the Python reading (%s) and the Coq conforms_dec (%s) of the specification disagree' % (want, cq)
    got = verdict == 'accept'
    if got != want:
        return 'the object %s the specification but the checker answered "%s"' % (
            'conforms to' if want else 'does not conform to', obs)
    return None


# ---------------------------------------------------------------------- known classes
def _walk_chks(tctx, c):
    seen, work, out = set(), [c] + list(tctx.values()), []
    while work:
        x = work.pop()
        out.append(x)
        if x[0] == '@':
            continue
        t = x[1]
        k = t[0]
        if k == 'A':
            work.append(t[1])
        elif k in 'HO':
            work.extend(t[1])
        elif k in 'DS':
            work.extend(e[1] for e in t[1])
            if k == 'D' and t[2] is not None:
                work.append(t[2][0])
    return out


def _resolve(tctx, c):
    return tctx.get(c[1]) if c[0] == '@' else c


def _coarse(c):
    """the check with predicates and indirection erased (what the coarse Eq of TypeCheckRep sees)"""
    if c[0] == '@':
        return c
    t = c[1]
    k = t[0]
    if k == 'A':
        t = ('A', _coarse(t[1]), t[2])
    elif k in 'HO':
        t = (k, tuple(_coarse(x) for x in t[1]))
    elif k == 'D':
        t = ('D', tuple((a, _coarse(b), o) for a, b, o in t[1]), None if t[2] is None else (_coarse(t[2][0]), t[2][1]))
    elif k == 'S':
        t = ('S', tuple((a, _coarse(b), o) for a, b, o in t[1]))
    return ('r', t, None, '')


def features(case):
    """structural features of a case that select the known classes"""
    mode, octx, tctx, chk, obj = parse_case(case)
    f = set()
    chks = _walk_chks(tctx, chk)
    reps = [c for c in chks if c[0] == 'r']
    if any(c[1][0] == 'O' for c in reps):
        f.add('disjunct')
    # two sub-checks that the coarse equality identifies but that differ
    by = {}
    for c in reps:
        by.setdefault(_coarse(c), set()).add(c)
    if any(len(v) > 1 for v in by.values()):
        f.add('coarse')
    # the same check reached with Required and later with Allowed (allow_indirect) is also a coarse pair
    if any(c[3] != '' for c in reps):
        f.add('indirect-attr')
    if any(c[2] is not None and c[1][0] in 'HDS' for c in reps):
        f.add('compound-pred')
    if any(c[2] is not None and c[1][0] == 'A' and (_resolve(tctx, c[1][1]) or ('r', ('_',), None, ''))[1][0] != '_' for c in reps):
        f.add('compound-pred')
    for c in reps:
        if c[1][0] in 'DS':
            ents = [e[1] for e in c[1][1]] + ([c[1][2][0]] if c[1][0] == 'D' and c[1][2] is not None else [])
            for e in ents:
                r = _resolve(tctx, e)
                if r is not None and r[1][0] == '_' and (r[2] is not None or r[3] != ''):
                    f.add('any-entry')
    # reference cycles that never reach a value
    objs = list(octx.values()) + [obj]

    def refs(o, acc):
        if o[0] == 'R':
            acc.append(o)
        elif o[0] == 'A':
            for x in o[1]:
                refs(x, acc)
        elif o[0] in 'DS':
            for _, x in o[1]:
                refs(x, acc)
    acc = []
    for o in objs:
        refs(o, acc)
    for r in acc:
        seen, o = set(), r
        while o[0] == 'R' and (o[1], o[2]) in octx and (o[1], o[2]) not in seen:
            seen.add((o[1], o[2]))
            o = octx[(o[1], o[2])]
        if o[0] == 'R' and (o[1], o[2]) in seen:
            f.add('ref-cycle')
        if o[0] == 'R' and (o[1], o[2]) not in octx:
            f.add('undef-ref')
    return f


def known_class(kid, case, obs, prof):
    """C08-any-entry: the implementation's verdict is the one of the reading in which dictionary / stream
    entries (and the * entry) whose check has type Any are not checked at all, and the specification
    has such an entry carrying a predicate or a non-Allowed indirect specification"""
    if kid != 'C08-any-entry':
        return False
    if 'any-entry' not in features(case):
        return False
    mode, octx, tctx, chk, obj = parse_case(case)
    if not closed_spec(tctx, chk):
        return False
    verdict = obs.split(' steps=')[0]
    return (verdict == 'accept') == conforms(octx, tctx, obj, chk, skip_any_entries=True)


# ====================================================================== generators
A_, B_, K_, L_ = b'A', b'B', b'K', b'L'
ATOMS = [('i', 5), ('m', A_), ('m', B_), ('n',), ('b', True), ('s', b's')]


def rep(t, p=None, ind=''):
    return ('r', t, p, ind)


PRIM_T = [('_',), ('p', 'i'), ('p', 'm'), ('p', 'n')]
PREDS = [None, ('N', (A_,)), ('N', (B_,)), ('0',)]
INDS = ['', '!', '~']


def small_leaf_chks():
    out = []
    for t in PRIM_T:
        for p in PREDS:
            for ind in INDS:
                out.append(rep(t, p, ind))
    return out


def _pred_for(rng, kind):
    """a predicate that objects of that kind can satisfy (mostly), rarely an unsatisfiable or foreign one"""
    r = rng.random()
    if r < 0.55:
        return None
    if r < 0.60:
        return ('0',)
    if r < 0.66:
        return rng.choice([('N', (A_,)), ('I', (5,)), ('L', 2), ('1',)])
    if kind == 'm':
        return rng.choice([('N', (A_,)), ('N', (A_, B_)), ('N', (B_,))])
    if kind == 'i':
        return rng.choice([('I', (5,)), ('I', (5, 7))])
    if kind in 'AH':
        return rng.choice([('L', 2), ('1',)])
    return ('1',)


def gen_chk(rng, depth, names, allow_named=True):
    """random check of bounded depth over the small alphabet"""
    r = rng.random()
    ind = rng.choice(['', '', '', '', '!', '~'])
    if depth <= 0 or r < 0.25:
        t = rng.choice([('_',), ('p', 'i'), ('p', 'm'), ('p', 'n'), ('p', 'b'), ('p', 's')])
        kind = t[1] if t[0] == 'p' else rng.choice('mi')
        return rep(t, _pred_for(rng, kind), ind)
    if allow_named and names and r < 0.38:
        return ('@', rng.choice(names))
    k = rng.choice('AAHHDDDOOOS')
    p = _pred_for(rng, k)
    sub = lambda: gen_chk(rng, depth - 1, names, allow_named)
    if k == 'A':
        size = rng.choice([None, None, 1, 2])
        if p == ('L', 2) and size == 1:
            size = 2
        return rep(('A', sub(), size), p, ind)
    if k == 'H':
        n = 2 if p == ('L', 2) else rng.randrange(0, 3)
        return rep(('H', tuple(sub() for _ in range(n))), p, ind)
    if k == 'O':
        nalt = 0 if rng.random() < 0.04 else rng.randrange(1, 4)
        return rep(('O', tuple(sub() for _ in range(nalt))), p if rng.random() < 0.3 else None, ind)
    keys = rng.sample([K_, L_, b'M'], rng.randrange(0, 3))
    ents = tuple((key, sub(), rng.choice('++?-')) for key in keys)
    if k == 'S':
        return rep(('S', ents), p, ind)
    star = (sub(), rng.choice('??-+')) if rng.random() < 0.35 else None
    return rep(('D', ents, star), p, ind)


def witness(rng, octx, tctx, c, depth, fresh):
    """an object built to conform to [c] (best effort), possibly placing parts behind references"""
    if depth <= 0:
        return rng.choice(ATOMS)
    r = tctx.get(c[1]) if c[0] == '@' else c
    if r is None:
        return ('n',)
    _, t, p, ind = r
    k = t[0]
    if k == 'O':
        if not t[1]:
            return ('n',)
        return witness(rng, octx, tctx, rng.choice(t[1]), depth - 1, fresh)
    if k == '_':
        o = rng.choice(ATOMS)
        if p and p[0] == 'N' and p[1]:
            o = ('m', p[1][0])
        elif p and p[0] == 'I' and p[1]:
            o = ('i', p[1][0])
        elif p and p[0] == 'L':
            o = ('A', tuple(rng.choice(ATOMS) for _ in range(p[1])))
    elif k == 'p':
        o = {'i': ('i', 5), 'm': ('m', A_), 'n': ('n',), 'b': ('b', True), 's': ('s', b's'), 'q': ('q', 1, 2), 'c': ('c', b'c')}[t[1]]
        if p and p[0] == 'N' and p[1]:
            o = ('m', p[1][0])
    elif k == 'A':
        n = t[2] if t[2] is not None else (p[1] if p and p[0] == 'L' else rng.randrange(0, 3))
        o = ('A', tuple(witness(rng, octx, tctx, t[1], depth - 1, fresh) for _ in range(n)))
    elif k == 'H':
        o = ('A', tuple(witness(rng, octx, tctx, x, depth - 1, fresh) for x in t[1]))
    else:
        d = {}
        for key, ec, opt in t[1]:
            if opt == '+' or (opt == '?' and rng.random() < 0.5):
                d[key] = witness(rng, octx, tctx, ec, depth - 1, fresh)
        if k == 'D' and t[2] is not None and t[2][1] != '-' and rng.random() < 0.5:
            d[b'Z'] = witness(rng, octx, tctx, t[2][0], depth - 1, fresh)
        items = tuple(sorted(d.items()))
        o = ('D', items) if k == 'D' else ('S', items, b'')
    want_ref = ind == '!' or (ind == '' and rng.random() < 0.25)
    if want_ref and len(octx) < 4:
        # reuse an existing definition sometimes (sharing / cycles), else a fresh id
        if octx and rng.random() < 0.3:
            key = rng.choice(list(octx.keys()))
            return ('R', key[0], key[1])
        key = (fresh[0], 0)
        fresh[0] += 1
        octx[key] = o
        return ('R', key[0], key[1])
    return o


def mutate_obj(rng, o, octx):
    """one small mutation somewhere in the object"""
    t = o[0]
    r = rng.random()
    if t == 'A' and o[1] and r < 0.6:
        i = rng.randrange(len(o[1]))
        l = list(o[1])
        if r < 0.15:
            del l[i]
        elif r < 0.3:
            l.insert(i, rng.choice(ATOMS))
        else:
            l[i] = mutate_obj(rng, l[i], octx)
        return ('A', tuple(l))
    if t in 'DS' and r < 0.7:
        d = dict(o[1])
        if d and r < 0.4:
            key = rng.choice(list(d.keys()))
            d[key] = mutate_obj(rng, d[key], octx)
        elif d and r < 0.5:
            del d[rng.choice(list(d.keys()))]
        else:
            d[rng.choice([K_, L_, b'M', b'Z'])] = rng.choice(ATOMS)
        items = tuple(sorted(d.items()))
        return ('D', items) if t == 'D' else ('S', items, o[2])
    if t == 'R' and r < 0.5:
        return octx.get((o[1], o[2]), ('n',)) if r < 0.3 else ('R', rng.choice([1, 2, 3, 9]), 0)
    choices = ATOMS + [('R', 1, 0), ('R', 2, 0), ('R', 9, 0), ('A', ()), ('D', ()), ('A', (('i', 5),))]
    return rng.choice(choices)


def small_objects():
    """the small universe: atoms, arrays of <= 2 atoms/refs, dictionaries with <= 2 keys, references"""
    base = [('i', 5), ('m', A_), ('m', B_), ('n',)]
    refs = [('R', 1, 0), ('R', 2, 0), ('R', 9, 0)]
    elems = base + refs
    out = list(elems)
    out.append(('A', ()))
    out += [('A', (x,)) for x in elems]
    out += [('A', (x, y)) for x in elems for y in elems]
    out.append(('D', ()))
    out += [('D', ((K_, x),)) for x in elems]
    out += [('D', ((K_, x), (L_, y))) for x in base + refs[:1] for y in base + refs[:1]]
    return out


def small_ctxs():
    """object contexts over <= 2 indirect objects incl. self and mutual references"""
    vals = [('i', 5), ('m', A_), ('R', 1, 0), ('R', 2, 0), ('A', (('i', 5), ('i', 5))), ('A', (('m', A_), ('m', A_))),
            ('D', ((K_, ('R', 1, 0)),)), ('A', (('R', 2, 0),)), ('D', ((K_, ('m', A_)),))]
    out = [{}]
    for a in vals:
        out.append({(1, 0): a})
        for b in vals:
            out.append({(1, 0): a, (2, 0): b})
    return out


def exhaustive_specs():
    """all checks of depth <= 1 over the small alphabet (leaf attributes x one constructor)"""
    leaves = small_leaf_chks()
    plain = [rep(t) for t in PRIM_T]
    attr_leaves = [rep(('p', 'm'), p, ind) for p in PREDS for ind in INDS] + [rep(('_',), p, ind) for p in PREDS[1:] for ind in INDS] + [rep(('p', 'i'))]
    out = list(leaves)
    outer = [(None, ''), (('0',), ''), (None, '!'), (None, '~'), (('L', 2), '')]
    for (p, ind) in outer:
        for e in attr_leaves:
            out.append(rep(('A', e, None), p, ind))
        for e in plain:
            out.append(rep(('A', e, 2), p, ind))
        for a in attr_leaves[:8] + plain:
            for b in attr_leaves[:8] + plain:
                out.append(rep(('H', (a, b)), p, ind))
                out.append(rep(('O', (a, b)), p, ind))
        for a in attr_leaves[:6] + plain:
            for opt in '+?-':
                out.append(rep(('D', ((K_, a, opt),), None), p, ind))
                out.append(rep(('D', ((K_, rep(('p', 'i')), '?'),), (a, opt)), p, ind))
    return out


DESIGN_WITNESSES = [
    # the probes of DESIGN.md §6 C08 (1–9) and the controls
    'v - - H(m,i) A(i5,i5)',
    'v - - A(m) A(i5,i5)',
    'v - - O(H(m,i),A(m)) A(i5,i5)',
    'v - - O(A(m),H(m,i)) A(i5,i5)',
    'v - - !O(m,i) i5',
    'v - - H({N41}m,{N42}m) A(m41,m41)',
    'v - - {0}H(m,m) A(m41,m41)',
    'v - - {0}D(4b?:m) D(4b:m41)',
    'v - - {0}A(m) A(m41)',
    'v - - D(4b+:!{0}_) D(4b:i5)',
    'v 5.0=R5.0 - i R5.0',
    'v - - i R9.0',
    'v - nd=O(m,q) A(@nd) A(m61)',
    'v - - H(O(m,q),O(m,q,s)) A(t,s73)',
    'v - - H(O(m,q),O(m,q,s)) A(t,m6e)',
    'v - - !n R9.0',
    'v - - !_ R9.0',
    # empty disjunctions: top level, nested, as array element / dict entry / named / under a reference
    'v - - O() i5',
    'v - - !{N41}O() i5',
    'v - - O(O(),i) i5',
    'v - - O(O(),m) i5',
    'v - - O(!O(),i) i5',
    'v - - A(O()) A()',
    'v - - A(O()) A(i5)',
    'v - - H(O(),i) A(i5,i5)',
    'v - - D(4b?:O()) D()',
    'v - - D(4b?:O()) D(4b:i5)',
    'v - - D(4b-:O(),*?:O()) D(4c:n)',
    'v - e=O() A(@e) A(i5)',
    'v - e=O();t=O(@e,A(@t)) @t A(A(i5))',
    'v 1.0=i5 - O() R1.0',
    'v 1.0=A(R1.0) e=O() A(O(@e,A(O()))) R1.0',
    # reference chains with a tail before their cycle
    'v 1.0=R2.0;2.0=R3.0;3.0=R2.0 - n R1.0',
    'v 1.0=R2.0;2.0=R2.0 - i R1.0',
    'v 1.0=R2.0;2.0=R3.0;3.0=R4.0;4.0=R3.0 - A(O(n,i)) A(i5,R1.0)',
    'v 1.0=R2.0;2.0=R3.0;3.0=R3.0 - D(4b+:n) D(4b:R1.0)',
]


def spec_names(rng, n):
    return ['t%d' % i for i in range(n)]


def random_case(rng, mode='v', maxdepth=3):
    nn = rng.choice([0, 0, 1, 2])
    names = spec_names(rng, nn)
    tctx = {}
    for nm in names:
        c = gen_chk(rng, rng.randrange(1, maxdepth), names, True)
        while c[0] != 'r':
            c = gen_chk(rng, rng.randrange(1, maxdepth), names, True)
        tctx[nm] = c
    chk = gen_chk(rng, rng.randrange(0, maxdepth + 1), names, True)
    octx = {}
    fresh = [1]
    obj = witness(rng, octx, tctx, chk, 4, fresh)
    # back-edges: redirect some references inside the context to existing ids
    r = rng.random()
    if r < 0.3:
        for _ in range(rng.randrange(1, 3)):
            obj = mutate_obj(rng, obj, octx)
            if octx and rng.random() < 0.4:
                key = rng.choice(list(octx.keys()))
                octx[key] = mutate_obj(rng, octx[key], octx)
    elif r < 0.35:
        obj = rng.choice(small_objects())
    return mk_case(mode, octx, tctx, chk, obj)


def cases(tier, rng):
    out = list(DESIGN_WITNESSES)
    objs = small_objects()
    ctxs = small_ctxs()
    specs = exhaustive_specs()
    # (a) exhaustive small scope: every depth<=1 specification x every small object (references resolved in a
    #     few contexts); sampled down in the quick tier
    n_ctx = 6 if tier == 'thorough' else 2
    frac = 1.0 if tier == 'thorough' else 0.07
    for c in specs:
        ct = show_chk(c)
        for o in objs:
            if frac < 1.0 and rng.random() > frac:
                continue
            has_ref = 'R' in show_obj(o)
            cs = rng.sample(ctxs[1:], n_ctx) if has_ref else [{}]
            for ctx in cs:
                out.append('v %s - %s %s' % (show_octx(ctx), ct, show_obj(o)))
    # (b) recursive named specifications over cyclic graphs
    rec_specs = [
        ({'node': rep(('D', ((K_, rep(('A', ('@', 'node'), None)), '+'),), None))}, ('@', 'node')),
        ({'node': rep(('D', ((K_, ('@', 'kids'), '?'), (L_, rep(('p', 'i')), '?')), None)), 'kids': rep(('A', rep(('O', (('@', 'node'), rep(('p', 'i')))), None, '!'), None))}, ('@', 'node')),
        ({'t': rep(('O', (rep(('p', 'i')), rep(('A', ('@', 't'), None)))))}, ('@', 't')),
        ({'t': rep(('A', ('@', 't'), None))}, rep(('H', (('@', 't'), ('@', 't'))))),
        ({'a': rep(('D', ((K_, ('@', 'b'), '+'),), None)), 'b': rep(('D', ((K_, ('@', 'a'), '+'),), (rep(('p', 'm')), '?')))}, ('@', 'a')),
    ]
    gvals = [('D', ((K_, ('R', 1, 0)),)), ('D', ((K_, ('R', 2, 0)),)), ('D', ((K_, ('A', (('R', 1, 0), ('R', 2, 0)))),)),
             ('A', (('R', 1, 0),)), ('A', (('R', 2, 0), ('R', 3, 0))), ('D', ((K_, ('A', ())),)), ('i', 5), ('R', 3, 0), ('R', 1, 0),
             ('D', ((K_, ('A', (('R', 3, 0),))), (L_, ('i', 5)))), ('A', ())]
    n_g = 4000 if tier == 'thorough' else 700
    for _ in range(n_g):
        tctx, root = rng.choice(rec_specs)
        ctx = {(i, 0): rng.choice(gvals) for i in range(1, rng.randrange(2, 5))}
        out.append(mk_case('v', ctx, tctx, root, ('R', 1, 0)))
    # (c) random mostly-valid specification/object pairs and mutations of them
    n_r = 120000 if tier == 'thorough' else 14000
    for _ in range(n_r):
        out.append(random_case(rng, 'v', 3 if rng.random() < 0.8 else 4))
    out = list(dict.fromkeys(out))
    _coq_spec_batch(out)
    return out


def nontrivial(case, obs):
    t = case.split(' ')
    return any(ch in t[3] or ch in t[2] for ch in 'AHDSO@') or 'R' in t[4]


def classify(case, obs):
    f = sorted(features(case)) if obs.startswith('accept') or obs.startswith('reject') else []
    return obs.split(' steps=')[0] + ('' if not f else ' [' + ','.join(f) + ']')


RULE = ('exhaustive small scope: every specification of depth <= 1 over {Any,Int,Name,Null} x predicates {in{A},in{B},never} x '
        'indirection {allowed,required,forbidden} under Array/HetArray(2)/Disjunct(2)/Dict(1 key, all key specs, *) with outer '
        'attributes x every object of the small universe (atoms, arrays <= 2, dictionaries <= 2 keys, references incl. undefined) '
        'in contexts of <= 2 indirect objects incl. self and mutual references (sampled in the quick tier); recursive named '
        'specifications over random digraphs of <= 4 indirect objects; random specifications of depth <= 4 with an object built '
        'to conform and then mutated 0-2 times. non-trivial = the specification has a compound/named/disjunct node or the object a reference')
TRUSTED = ['model of pdf_type_check.rs in coq/Model/TypeCheck.v (hand transcription, validated by this correspondence run)',
           'the Python reading of the specification in props/c08.py (cross-checked against Coq conforms_dec on every case)']
ASSUMPTIONS = ['specifications are closed (every name defined)',
               'objects compare structurally (LocatedVal ignores locations; streams built by the harness have start = 0)']
LEVEL_TEXT = ('Coq theorems over all specifications and all object graphs (cyclic included): check_type = Accept <-> the object conforms, '
              'for every well-formed specification (wf_univ: names defined, no empty disjunction), in the reading conforms_skip = greatest-fixed-point '
              'declarative semantics with the one open finding built in (dictionary/stream entries of type Any are not checked); the full reading '
              'conforms when no such entry carries a predicate/indirection (C08_full_outside_known_finding); acceptance and rejection are sound without '
              'any side condition; proof in two refinement layers (work-list machine = recursive memoising checker = declarative reading); ten classes '
              'of the pinned tree refuted by witnesses and repaired in pdf_type_check.rs, their witnesses now agree (C08_fixed_*); model tied to the '
              'implementation by a three-way differential run (implementation, model, Python + Coq conforms_dec)')
LEVEL_NOTE = ('trusted: Coq kernel, hand transcription Model/TypeCheck.v (validated by the correspondence run), extraction + drv.ml, harness c08.rs + tcspec.rs; '
              'normalize_check is proved to preserve conformance (C08_normalize_preserves_conformance), so the theorems hold for the specification as written; predicates are compared by identity')
TECHNIQUE = 'Coq: simulation of the work-list machine by a recursive memoising checker (layer i), coinduction-up-to-assumptions + constructive refutations for the checker (layer ii), lexicographic measure for termination; three-way differential run'
