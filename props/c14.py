"""C14 — object streams yield each object under its identifier."""
import re, zlib, base64

ID = 'C14'
PROFILES = ['debug']
THEOREMS = ['C14_extract', 'C14_binds', 'C14_binds_only', 'C14_rejects_order', 'C14_rejects_pairs', 'C14_rejects_header',
            'C14_rejects_first', 'C14_rejects_overrun', 'C14_rejects_offset_beyond', 'C14_rejects_duplicate', 'C14_ctx_monotone', 'C14_total', 'C14_total_release', 'C14_offsets_witness',
            'C14_duplicate_witness']
KIDS = ['C14-offsets-unused', 'C14-duplicate-overwrites']
RULE = ('object streams of 1..12 objects of every value kind (integers, reals, names, strings, hex strings, booleans, null, '
        'references, nested arrays and dictionaries) x white-space / comment choices between header numbers and before '
        'objects x gap contents between the end of one object and the declared offset of the next {nothing, white space, '
        'comment, a comment-like gap "ws* % junk" with NO end of line before the next declared offset (also with the % directly '
        'after the previous member; first/middle/last), a complete other object, junk} x pre-defined contexts x filters {FlateDecode levels 0/1/6/9, ASCIIHex, '
        'ASCII85, A85+Flate, AHex+Flate, A85+AHex} x shapes {random, many repetitive members with compressed size < /First < '
        'decoded size, incompressible}; every single corruption of a '
        'header number (offset +-1, swapped, equal, negative, missing pair; offset = len-1 / len / len+1 / beyond / 2^31..2^64, '
        'identifier 0 / duplicate / huge), of /N and /First (0, 1, +-1, = len, huge), object data running past '
        'the next offset, duplicate identifiers (inside the stream and against the context); exhaustive: all 2-object '
        'streams over a 4-value alphabet x 5 gaps x offset shifts -1..+1.  non-trivial = success with >= 1 object, or a '
        'rejection of a case derived from a legal stream by one corruption; any answer other than ok/err (panic) is a violation')
TRUSTED = ['model coq/Model/ObjStm.v (hand transcription of pdf_streams.rs ObjStreamP and PDFObjContext::register_obj, validated by '
           'this correspondence run) on top of coq/Model/Obj.v (object parser) and coq/Model/Prim.v (token parsers)',
           'the oracle uses its own small PDF object reader (python) for the value located at a declared offset']
ASSUMPTIONS = ['buffer bytes are < 256', 'a view behaves as its window (C17)',
               'filter decoding (C06/C07) is outside this property: the model parses the decoder output supplied by the case',
               'the object parser itself is C02/C16 (Model/Obj.v)']

I64MAX = 2 ** 63 - 1
from props.c13 import hx, unhx, key, oname, show_dict, arr, ints, read_obj  # shared case-protocol helpers (same author)


# ------------------------------------------------------------------ python reader of PDF object text (oracle side)
WS = b' \x00\t\r\n\x0c'
DELIM = b'()<>[]{}/%'


class _Fail(Exception):
    pass


def _skip_ws(b, i):
    while i < len(b):
        if b[i] in WS:
            i += 1
        elif b[i] == 0x25:
            while i < len(b) and b[i] != 10:
                i += 1
            if i < len(b):
                i += 1
        else:
            break
    return i


_INT = re.compile(rb'-?[0-9]+')
_REAL = re.compile(rb'(-?)([0-9]*)\.([0-9]*)')
_REF = re.compile(rb'([0-9]+)((?:[ \x00\t\r\n\x0c]|%[^\n]*\n)+)([0-9]+)((?:[ \x00\t\r\n\x0c]|%[^\n]*\n)*)R')


def py_obj(b, i, depth=0):
    """returns (canonical token, end).  Only the sub-language the generator emits; _Fail otherwise."""
    if depth > 40:
        raise _Fail()
    if i >= len(b):
        raise _Fail()
    c = b[i]
    if c == 0x5b:                                   # [
        i += 1
        out = []
        while True:
            i = _skip_ws(b, i)
            if i < len(b) and b[i] == 0x5d:
                return 'A(' + ','.join(out) + ')', i + 1
            t, i = py_obj(b, i, depth + 1)
            out.append(t)
    if b[i:i + 2] == b'<<':
        i += 2
        d = {}
        while True:
            i = _skip_ws(b, i)
            if b[i:i + 2] == b'>>':
                ks = sorted(d)
                return 'D(' + ','.join('%s:%s' % (k.hex(), d[k]) for k in ks) + ')', i + 2
            if i >= len(b) or b[i] != 0x2f:
                raise _Fail()
            k, i = _name(b, i)
            if k in d:
                raise _Fail()
            i = _skip_ws(b, i)
            t, i = py_obj(b, i, depth + 1)
            if t != 'n':
                d[k] = t
    if c == 0x3c:                                   # <hex>
        j = b.find(b'>', i)
        if j < 0:
            raise _Fail()
        h = bytes(x for x in b[i + 1:j] if x not in WS)
        if not re.fullmatch(rb'[0-9a-fA-F]*', h):
            raise _Fail()
        if len(h) % 2:
            h += b'0'
        return 's' + bytes.fromhex(h.decode()).hex(), j + 1
    if c == 0x28:                                   # (simple literal string: no escapes, no nesting)
        j = i + 1
        while j < len(b) and b[j] not in b'()\\':
            j += 1
        if j >= len(b) or b[j] != 0x29:
            raise _Fail()
        return 's' + b[i + 1:j].hex(), j + 1
    if c == 0x2f:
        k, j = _name(b, i)
        return 'm' + k.hex(), j
    for kw, tok in ((b'true', 't'), (b'false', 'f'), (b'null', 'n')):
        if b[i:i + len(kw)] == kw:
            return tok, i + len(kw)
    m = _REF.match(b, i)
    if m and int(m.group(1)) >= 0 and int(m.group(3)) >= 0:
        return 'R%d.%d' % (int(m.group(1)), int(m.group(3))), m.end()
    m = _REAL.match(b, i)
    if m and (m.group(2) or m.group(3)):
        raise _Fail()                               # reals: left to C02 (not generated here)
    m = _INT.match(b, i)
    if m:
        v = int(m.group(0))
        if abs(v) > I64MAX:
            raise _Fail()
        return 'i%d' % v, m.end()
    raise _Fail()


def _name(b, i):
    j = i + 1
    while j < len(b) and b[j] not in WS and b[j] not in DELIM:
        j += 1
    raw = b[i + 1:j]
    if b'#' in raw:
        raise _Fail()
    return raw, j


# ------------------------------------------------------------------ reference semantics
def _isint(x):
    return isinstance(x, int) and not isinstance(x, bool)


def _ahex_decode(b):
    out = bytearray()
    for x in b:
        if x in WS:
            continue
        if x == 0x3e:
            if len(out) % 2:
                out.append(0x30)
            return bytes.fromhex(out.decode())
        if x not in b'0123456789abcdefABCDEF':
            return None
        out.append(x)
    return None                                      # no EOD


def _a85_decode(b):
    t = bytes(x for x in b if x not in WS)
    if not t.endswith(b'~>'):
        return None
    t = t[:-2]
    if t.startswith(b'<~'):
        t = t[2:]
    try:
        return base64.a85decode(t)
    except Exception:
        return None


def _py_decode(d, content):
    """python's own decoding of the declared filter chain (names only, no parameters); None if not handled here."""
    f = d.get(b'Filter')
    if f is None:
        return content
    if b'DecodeParms' in d:
        return None
    names = [f] if isinstance(f, tuple) else f
    if not isinstance(names, list) or not names:
        return None
    data = content
    for nm in names:
        if nm == ('name', b'FlateDecode'):
            try:
                data = zlib.decompress(data)
            except Exception:
                return None
        elif nm == ('name', b'ASCIIHexDecode'):
            data = _ahex_decode(data)
        elif nm == ('name', b'ASCII85Decode'):
            data = _a85_decode(data)
        else:
            return None
        if data is None:
            return None
    return data


_HNUM = re.compile(rb'(?:[ \x00\t\r\n\x0c]|%[^\n]*(?:\n|\Z))*([+-]?[0-9]+)')


def ref_objstm(d, data, ctx_ids):
    """('ok', [(id, token)]) | ('reject', why, kind) | None (not settled by the property text)."""
    if d.get(b'Type') != ('name', b'ObjStm'):
        return None
    n, first = d.get(b'N'), d.get(b'First')
    if not _isint(n) or n < 0 or not _isint(first) or first < 0:
        return ('reject', 'missing or invalid /N or /First', 'dict')
    if n == 0:
        return None                                  # an empty object stream: the text does not say
    if first >= len(data):
        return ('reject', '/First beyond the data', 'first')
    head = data[:first]
    pairs, pos = [], 0
    for _ in range(n):
        m1 = _HNUM.match(head, pos)
        m2 = _HNUM.match(head, m1.end()) if m1 else None
        if not m1 or not m2:
            return ('reject', 'fewer than /N pairs in the header', 'pairs')
        a, o = int(m1.group(1)), int(m2.group(1))
        if a < 0 or o < 0 or a > I64MAX or o > I64MAX:
            return ('reject', 'negative or oversized header number', 'pairs')
        if pairs and o <= pairs[-1][1]:
            return ('reject', 'offsets not strictly increasing', 'order')
        pairs.append((a, o))
        pos = m2.end()
    body = data[first:]
    out, seen = [], set()
    for i, (a, o) in enumerate(pairs):
        if o > len(body):
            return ('reject', 'declared offset beyond the data', 'offset')
        try:
            p = _skip_ws(body, o)
            tok, end = py_obj(body, p)
        except _Fail:
            return None                              # no object of the generated sub-language there: not judged
        except IndexError:
            return None
        if i + 1 < len(pairs) and end > pairs[i + 1][1]:
            return ('reject', 'object %d runs past the next declared offset' % i, 'overrun')
        if (a, 0) in ctx_ids or a in seen:
            return ('reject', 'identifier (%d, 0) already defined' % a, 'dup')
        seen.add(a)
        out.append((a, tok))
    return ('ok', out)


def _parse_case(case):
    t = case.split(' ')
    o = read_obj(t[4])
    d, content = o[1], o[2]
    ctx = {}
    if t[3] != '-':
        for part in t[3].split(';'):
            i, v = part.split('=', 1)
            a, g = i.split('.')
            ctx[(int(a), int(g))] = v
    return t, d, content, ctx


def _verdict(case):
    t, d, content, ctx = _parse_case(case)
    if t[2] == '1':
        return None, ctx
    data = _py_decode(d, content)
    if data is None:
        return None, ctx
    if b'Filter' in d and data != unhx(t[5]):
        return None, ctx
    return ref_objstm(d, data, set(ctx)), ctx


def _queries(obs):
    q = obs.split(' | ')[1] if ' | ' in obs else '-'
    out = {}
    if q != '-':
        for part in q.split(';'):
            i, v = part.split('=', 1)
            a, g = i.split('.')
            out[(int(a), int(g))] = v
    return out


def oracle(case, obs, prof):
    head = obs.split(' | ')[0].split(' ')[0]
    if head not in ('ok', 'err'):
        # panic (assert / unwrap / index), crash, timeout: never an acceptable way to reject an object stream
        return 'the implementation did not answer ok/err but "%s"' % obs[:80]
    v, ctx = _verdict(case)
    if v is None:
        # not settled by the property text; still, pre-existing definitions must survive
        got = _queries(obs)
        for i, val in ctx.items():
            if i in got and got[i] != val:
                return 'identifier %d.%d was defined as %s before the call and is %s after it' % (i[0], i[1], val[:60], got[i][:60])
        return None
    res = obs.split(' | ')[0].split(' ')
    got = _queries(obs)
    if int(case.split(' ')[1]) < 6 and res[0] == 'err' and v[0] == 'ok':
        return None                                  # nesting bound of the context (C16) may be exceeded: not judged
    # whatever happens, an identifier that was defined before keeps its definition
    for i, val in ctx.items():
        if i in got and got[i] != val:
            return 'identifier %d.%d was defined as %s before the call and is %s after it' % (i[0], i[1], val[:60], got[i][:60])
    if v[0] == 'reject':
        if res[0] == 'err':
            return None
        return 'malformed object stream (%s) must be rejected, implementation gave "%s"' % (v[1], obs[:200])
    if res[0] != 'ok':
        return 'expected the %d objects, implementation gave "%s"' % (len(v[1]), obs[:200])
    ents = [] if res[1] == '-' else res[1].split(',')
    # entries are id.gen=token@a-b; tokens may contain commas inside A( ) / D( ): re-split on the id pattern
    ents = re.findall(r'(\d+)\.(\d+)=(.*?)@\d+-\d+(?:,(?=\d+\.\d+=)|$)', res[1]) if res[1] != '-' else []
    exp = [(str(a), '0', tok) for (a, tok) in v[1]]
    if [tuple(e) for e in ents] != exp:
        return 'expected %s, implementation gave "%s"' % (exp[:6], obs[:200])
    for (a, tok) in v[1]:
        if (a, 0) in got and got[(a, 0)] != tok:
            return 'identifier %d.0 must be bound to %s, lookup gives %s' % (a, tok[:60], got[(a, 0)][:60])
    return None


def known_class(kid, case, obs, prof):
    v, ctx = _verdict(case)
    if v is None:
        return False
    res = obs.split(' | ')[0].split(' ')
    got = _queries(obs)
    if kid == 'C14-duplicate-overwrites':
        # rejected as it must be, but the old definition was replaced
        return v[0] == 'reject' and v[2] == 'dup' and res[0] == 'err' and any(i in got and got[i] != val for i, val in ctx.items())
    if kid == 'C14-offsets-unused':
        # every identifier is bound, but to the value found where the previous object ended
        if any(i in got and got[i] != val for i, val in ctx.items()):
            return False
        return v[0] == 'ok' or (v[0] == 'reject' and v[2] in ('overrun',) and res[0] == 'ok')
    return False


def nontrivial(case, obs):
    res = obs.split(' | ')[0].split(' ')
    if res[0] == 'ok':
        return len(res) > 1 and res[1] != '-'
    return res[0] == 'err' and len(case) > 80


def classify(case, obs):
    return ' '.join(obs.split(' | ')[0].split(' ')[:(2 if obs.startswith('err') else 1)])


# ------------------------------------------------------------------ generators
def rand_value(rng, depth=0):
    k = rng.randrange(11 if depth < 2 else 8)
    if k == 0:
        return b'%d' % rng.choice([0, 1, 7, 42, 65535, -3, I64MAX, rng.randrange(10 ** 6)])
    if k == 1:
        return b'/' + bytes(rng.choice(b'ABCxyz019_.-') for _ in range(rng.randrange(0, 6)))
    if k == 2:
        return b'(' + bytes(rng.choice(b'abc xyz123%/[]<>') for _ in range(rng.randrange(0, 8))) + b')'
    if k == 3:
        return b'<' + bytes(rng.choice(b'0123456789abcdefABCDEF') for _ in range(rng.randrange(0, 7))) + b'>'
    if k == 4:
        return rng.choice([b'true', b'false', b'null'])
    if k == 5:
        return b'%d %d R' % (rng.randrange(100), rng.randrange(3))
    if k == 6:
        return b'-%d' % rng.randrange(100)
    if k == 7:
        return b'%d' % rng.randrange(100)
    if k in (8, 9):
        n = rng.randrange(0, 4)
        sep = rng.choice([b' ', b' ', b'\n', b''])
        items = [rand_value(rng, depth + 1) for _ in range(n)]
        return b'[' + (sep or b' ').join(items) + rng.choice([b'', b' ']) + b']'
    n = rng.randrange(0, 3)
    out = b'<<'
    keys = rng.sample([b'/A', b'/Bc', b'/Type', b'/K1', b'/Z'], n)
    for kk in keys:
        out += kk + rng.choice([b' ', b' ', b'\n']) + rand_value(rng, depth + 1) + rng.choice([b'', b' '])
    return out + b'>>'


GAPS = [b'', b' ', b'\n', b'  \r\n', b'%gap\n', b' 99 ', b' /Other ', b' [1 2] ', b' (x) ', b' <<>> ', b'\x00']


def build_stream(rng, ids, vals, gaps=None, hdr_sep=None, lead=None, shift=None, first_pad=b''):
    """returns (dict entries, content).  gaps[i] is placed after object i; lead[i] = white space between the declared
    offset and the object; shift[i] is added to the declared offset of object i."""
    n = len(ids)
    gaps = gaps or [b' '] * n
    lead = lead or [b''] * n
    shift = shift or [0] * n
    body, offs = b'', []
    for i in range(n):
        offs.append(len(body))
        body += lead[i] + vals[i] + gaps[i]
    seps = hdr_sep or [b' '] * (2 * n)
    head = b''
    for i in range(n):
        head += b'%d' % ids[i] + seps[2 * i] + b'%d' % max(0, offs[i] + shift[i]) + seps[2 * i + 1]
    head += first_pad
    return {'Type': oname('ObjStm'), 'N': 'i%d' % n, 'First': 'i%d' % len(head)}, head + body


def os_case(d, content, ctx=None, queries=None, depth=10, enc=0, decoded=None):
    ctx = ctx or {}
    ctok = ';'.join('%d.%d=%s' % (k[0], k[1], v) for k, v in ctx.items()) or '-'
    q = ','.join('%d.%d' % k for k in (queries or [])) or '-'
    return 'os %d %d %s S(%s,%s) %s %s' % (depth, enc, ctok, show_dict(d), bytes(content).hex(),
                                           hx(content if decoded is None else decoded), q)


def cases(tier, rng):
    out = []
    seps = [b' ', b' ', b'\n', b'  ', b'\r\n', b' %c\n', b'\t']

    def qs(ids, ctx):
        return sorted(set([(i, 0) for i in ids] + list(ctx) + [(ids[0], 1), (999, 0)]))

    # legal streams: every value kind, white space, gaps
    reps = 12000 if tier == 'thorough' else 1500
    for r in range(reps):
        n = rng.randrange(1, 13)
        ids = rng.sample(range(1, 60), n)
        vals = [rand_value(rng) for _ in range(n)]
        gaps = [rng.choice(GAPS) if r % 2 else rng.choice(GAPS[:4]) for _ in range(n)]
        # an integer-like value must be separated from what follows
        gaps = [g if g[:1] in (b' ', b'\n') or g == b'%gap\n' or vals[i][-1:] in b')]>' and g[:1] not in b'0123456789' else b' ' + g
                for i, g in enumerate(gaps)]
        lead = [rng.choice([b'', b'', b' ', b'\n', b'%c\n']) for _ in range(n)]
        hs = [rng.choice(seps) for _ in range(2 * n)]
        d, content = build_stream(rng, ids, vals, gaps, hs, lead, None, rng.choice([b'', b' ', b'\n', b'%pad\n']))
        ctx = {}
        if r % 5 == 0:
            for _ in range(rng.randrange(1, 3)):
                ctx[(rng.randrange(60, 70), 0)] = rng.choice(['i1', 'n', 'A(i1,i2)'])
            ctx[(ids[0], 1)] = 'i77'
        out.append(os_case(d, content, ctx, qs(ids, ctx), depth=rng.choice([10, 10, 3, 50])))
    # gaps of the form ws* % junk WITHOUT an end of line before the next declared offset: the next member lies inside
    # what a lexer would take for a comment, also with the % directly after the previous member; first/middle/last
    cgaps = [b'%', b' %', b'  %x', b'\t%50', b' %(', b'%[', b'\n %<<', b'\x00% ', b' %%', b'%/N 1 ', b' % 7 0 R ']
    cvals = [b'(a)', b'(x)', b'(b)', b'<</A 1>>', b'[1 2]', b'[3]', b'/Nm', b'12', b'<4142>', b'true', b'null', b'7 0 R']
    out.append(os_case(*build_stream(rng, [5, 6, 7], [b'(a)', b'(x)', b'(b)'], [b' %', b' \n', b'']), {}, [(5, 0), (6, 0), (7, 0)]))
    out.append(os_case(*build_stream(rng, [5, 6, 7], [b'<</A 1>>', b'[1 2]', b'[3]'], [b' %50', b'', b'']), {}, [(5, 0), (6, 0), (7, 0)]))
    n_g = 400 if tier == 'thorough' else 60
    for r in range(n_g):
        n = 3 if r % 2 == 0 else rng.randrange(2, 7)
        ids = rng.sample(range(1, 60), n)
        vals = [rng.choice(cvals) if r % 3 else rand_value(rng) for _ in range(n)]
        gaps = [b' '] * n
        where = [r // 2 % n] if r % 4 < 2 else [k for k in range(n) if rng.random() < 0.6] or [0]
        for k in where:                                  # k = 0: after the first, …, n-1: after the last member
            gaps[k] = rng.choice(cgaps)
        ctx = {(77, 0): 'i7'} if r % 5 == 0 else {}
        d, c = build_stream(rng, ids, vals, gaps)
        out.append(os_case(d, c, ctx, qs(ids, ctx)))
    # the design witness: header "5 0 6 6", data "11 22 33"
    out.append(os_case({'Type': oname('ObjStm'), 'N': 'i2', 'First': 'i8'}, b'5 0 6 6 11 22 33', {}, [(5, 0), (6, 0)]))
    # corruptions of a legal stream
    n_c = 1500 if tier == 'thorough' else 150
    for r in range(n_c):
        n = rng.randrange(2, 6)
        ids = rng.sample(range(1, 40), n)
        vals = [rand_value(rng) for _ in range(n)]
        base_gaps = [b' '] * n
        k = rng.randrange(n)
        muts = []
        for delta in (-1, 1, 2, -2):
            sh = [0] * n
            sh[k] = delta
            muts.append(build_stream(rng, ids, vals, base_gaps, None, None, sh))
        # equal / swapped / decreasing offsets
        d, c = build_stream(rng, ids, vals, base_gaps)
        head, body = c[:int(d['First'][1:])], c[int(d['First'][1:]):]
        nums = head.split()
        for mut in ('eq', 'swap', 'neg', 'drop', 'dupid', 'junk'):
            nn = list(nums)
            if mut == 'eq' and k > 0:
                nn[2 * k + 1] = nn[2 * k - 1]
            elif mut == 'swap' and k > 0:
                nn[2 * k + 1], nn[2 * k - 1] = nn[2 * k - 1], nn[2 * k + 1]
            elif mut == 'neg':
                nn[2 * k + rng.randrange(2)] = b'-1'
            elif mut == 'drop':
                nn = nn[:-1] if rng.random() < 0.5 else nn[:-2]
            elif mut == 'dupid' and k > 0:
                nn[2 * k] = nn[0]
            elif mut == 'junk':
                nn[rng.randrange(len(nn))] = rng.choice([b'x', b'1.5', b'/N', b'9223372036854775808'])
            else:
                continue
            h2 = b' '.join(nn) + b' '
            muts.append((dict(d, First='i%d' % len(h2)), h2 + body))
        # /N and /First
        for kk, vv in (('N', 'i%d' % (n + 1)), ('N', 'i%d' % (n - 1)), ('N', 'i0'), ('N', 'i-1'), ('N', 'n'), ('N', 'q2/1'),
                       ('First', 'i%d' % len(c)), ('First', 'i%d' % (len(c) + 5)), ('First', 'i%d' % (len(c) - 1)),
                       ('First', 'i0'), ('First', 'i-1'), ('First', 'i%d' % I64MAX), ('First', oname('8')),
                       ('Type', oname('XRef')), ('Type', 's' + b'ObjStm'.hex())):
            if r % 3 == 0 or kk == 'First':
                muts.append((dict(d, **{kk: vv}), c))
        for kk in ('N', 'First', 'Type'):
            d2 = dict(d)
            del d2[kk]
            if r % 4 == 0:
                muts.append((d2, c))
        # identifier already defined in the context
        ctx = {(ids[k], 0): 'm' + b'old'.hex()}
        out.append(os_case(d, c, ctx, qs(ids, ctx)))
        for (dd, cc) in muts:
            out.append(os_case(dd, cc, {}, qs(ids, {})))
        if r % 6 == 0:
            out.append(os_case(d, c, {}, qs(ids, {}), enc=1))
            out.append(os_case(d, c, {}, qs(ids, {}), depth=0))
            out.append(os_case(dict(d, Filter=oname('LZWDecode')), c, {}, qs(ids, {})))
    # systematic single corruptions of one header number / of /N / of /First of a legal stream
    BIG = [2 ** 31, 2 ** 32 - 1, 2 ** 32, 2 ** 63 - 1, 2 ** 63, 2 ** 64 - 1, 2 ** 64]
    n_s = 60 if tier == 'thorough' else 8
    for r in range(n_s):
        n = rng.randrange(1, 5)
        ids = rng.sample(range(1, 40), n)
        vals = [rand_value(rng) for _ in range(n)]
        d, c = build_stream(rng, ids, vals, [b' '] * n)
        first = int(d['First'][1:])
        head, body = c[:first], c[first:]
        nums = head.split()
        lb = len(body)
        ctx = {(77, 0): 'i7'} if r % 2 else {}
        if r % 3 == 0:
            ctx[(ids[-1], 0)] = 'm' + b'old'.hex()      # the last identifier is already defined
        q = qs(ids, ctx)
        for k in range(n):
            prev = int(nums[2 * k - 1]) if k else -1
            for off in [lb - 1, lb, lb + 1, lb + 2, lb + 479, prev, prev + 1, 0] + BIG:
                if off < 0:
                    continue
                nn = list(nums)
                nn[2 * k + 1] = b'%d' % off
                h2 = b' '.join(nn) + b' '
                out.append(os_case(dict(d, First='i%d' % len(h2)), h2 + body, ctx, q))
            for idv in [0, ids[0], 2 ** 31, 2 ** 63 - 1, 2 ** 63, 2 ** 64 - 1]:
                nn = list(nums)
                nn[2 * k] = b'%d' % idv
                h2 = b' '.join(nn) + b' '
                out.append(os_case(dict(d, First='i%d' % len(h2)), h2 + body, ctx, sorted(set(q + [(idv, 0)])) if idv < 2 ** 63 else q))
        for nv in [0, 1, n - 1, n + 1, n + 2, 2 ** 31, 2 ** 63 - 1]:
            out.append(os_case(dict(d, N='i%d' % nv), c, ctx, q))
        for fv in [0, 1, first - 1, first + 1, len(c) - 1, len(c), len(c) + 1, 2 ** 31, 2 ** 32, 2 ** 63 - 1]:
            if fv >= 0:
                out.append(os_case(dict(d, First='i%d' % fv), c, ctx, q))
    # the seeded witness: header 10 0 11 500 with 21 bytes of content
    out.append(os_case({'Type': oname('ObjStm'), 'N': 'i2', 'First': 'i12'}, b'10 0 11 500 1 2 3 4 5', {}, [(10, 0), (11, 0)]))
    out.append(os_case({'Type': oname('ObjStm'), 'N': 'i1', 'First': 'i6'}, b'10 99 1 2 3', {}, [(10, 0)]))
    # object running past the next declared offset
    for v1, v2 in ((b'1234', b'5'), (b'[1 2 3]', b'7'), (b'(abcdef)', b'/N'), (b'<<//A 1>>', b'2')):
        for cut in range(1, len(v1) + 1):
            body = v1 + b' ' + v2
            head = b'3 0 4 %d ' % cut
            out.append(os_case({'Type': oname('ObjStm'), 'N': 'i2', 'First': 'i%d' % len(head)}, head + body, {}, [(3, 0), (4, 0)]))
    # exhaustive small scope: 2 objects over a small alphabet x gaps x offset shifts
    alpha = [b'11', b'/A', b'[2]', b'(s)']
    gaps = [b' ', b'  ', b' 22 ', b' %x\n', b' /G ']
    for v1 in alpha:
        for v2 in alpha:
            for g in gaps:
                for sh in (-1, 0, 1):
                    d, c = build_stream(rng, [5, 6], [v1, v2], [g, b''], None, None, [0, sh])
                    out.append(os_case(d, c, {}, [(5, 0), (6, 0)]))
    # filtered object streams ("with any supported filter"): FlateDecode at several levels, ASCIIHex, ASCII85 and chains;
    # the decoder output goes to the model, the implementation decodes itself.  Shapes: random members; many small
    # repetitive members (long header, data compresses well: compressed size < /First < decoded size); incompressible
    def enc_flate(level):
        return lambda b: zlib.compress(b, level)

    def enc_ahex(b):
        h = b.hex().encode()
        if rng.random() < 0.5:
            h = h.upper()
        if rng.random() < 0.5:
            h = b'\n'.join(h[i:i + 32] for i in range(0, len(h), 32))
        return h + b'>'

    def enc_a85(b):
        return (b'<~' if rng.random() < 0.3 else b'') + base64.a85encode(b) + b'~>'

    chains = [(['FlateDecode'], [enc_flate(0)]), (['FlateDecode'], [enc_flate(1)]), (['FlateDecode'], [enc_flate(6)]),
              (['FlateDecode'], [enc_flate(9)]), (['ASCIIHexDecode'], [enc_ahex]), (['ASCII85Decode'], [enc_a85]),
              (['ASCII85Decode', 'FlateDecode'], [enc_a85, enc_flate(9)]), (['ASCIIHexDecode', 'FlateDecode'], [enc_ahex, enc_flate(6)]),
              (['ASCII85Decode', 'ASCIIHexDecode'], [enc_a85, enc_ahex])]
    nf = 40 if tier == 'thorough' else 4
    for (names, encs) in chains:
        for shape in ('random', 'repetitive', 'incompressible'):
            for r in range(nf if shape == 'random' else max(2, nf // 2)):
                if shape == 'random':
                    n = rng.randrange(1, 10)
                    vals = [rand_value(rng) for _ in range(n)]
                    gaps = [rng.choice(GAPS[:5]) if vals[i][-1:] in b')]>' else b' ' for i in range(n)]
                elif shape == 'repetitive':
                    n = rng.choice([40, 60, 90])
                    vals = [rng.choice([b'[ 0 0 0 0 ]', b'[ 0 0 0 0 ]', b'<< /A 0 >>', b'0'])] * n
                    gaps = [b' '] * n
                else:
                    n = rng.randrange(1, 4)
                    vals = [b'<' + bytes(rng.choice(b'0123456789abcdef') for _ in range(2 * rng.randrange(40, 120))) + b'>' for _ in range(n)]
                    gaps = [b' '] * n
                ids = rng.sample(range(1, 400), n)
                d, c = build_stream(rng, ids, vals, gaps)
                e = c
                for f in reversed(encs):                      # the first declared filter is applied last when encoding
                    e = f(e)
                d['Filter'] = oname(names[0]) if len(names) == 1 and r % 2 == 0 else arr([oname(x) for x in names])
                ctx = {(ids[-1], 0): 'm' + b'old'.hex()} if r % 4 == 3 else {}
                out.append(os_case(d, e, ctx, qs(ids[:6] + ids[-2:], ctx), decoded=c))
    return out


LEVEL_TEXT = ('Coq theorems: for every header of (identifier, offset) pairs in any legal spelling, every data section and every '
              'context, if the object parser reads a value at each declared offset, no value runs past the next declared offset and '
              'the identifiers are new, extraction returns exactly these values in header order under (id, 0) and defines them — '
              'with arbitrary bytes in the gaps; non-increasing offsets, fewer than /N pairs, /First at or beyond the data, an '
              'overrun and an already defined identifier are rejected; an existing definition is never changed, whatever the input '
              '(refuted on the pinned code in two ways — offsets unused, duplicate overwrites — both repaired: 681cda4, f218988; '
              'witnesses kept in corpus/c14.txt and as theorems about the repaired code)')
LEVEL_NOTE = ('trusted: Coq kernel, hand transcription coq/Model/ObjStm.v (validated by the correspondence run) over coq/Model/Obj.v and '
              'Prim.v, extraction + ocaml/drv.ml, harness/src/bin/c14.rs; the value at an offset is defined through the object parser '
              'model (C02/C16); filter decoding is C06/C07 (decoder output supplied by the case)')
TECHNIQUE = 'Coq proofs by induction over header pairs and members (prefix lemmas, context invariant) + differential correspondence'
