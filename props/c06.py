"""C06 — stream filter decoding is the exact inverse of encoding."""
import zlib
from props import c07 as PRED

ID = 'C06'
PROFILES = ['debug', 'release']
# the model does not depend on the build profile any more (C06_a85_profile_independent: proved for every input);
# the debug and the release build of the implementation are both compared with the one model run
MODEL_PER_PROFILE = False
CASE_TIMEOUT = 1500
THEOREMS = ['C06_ahex', 'C06_a85', 'C06_flate', 'C06_chain', 'C06_chain_shapes', 'C06_shape_errors', 'C06_corrupt', 'C06_inflate0', 'C06_chain_stored', 'C06_a85_profile_independent', 'C06_decode_stream_no_panic',
            'C06_decode_stream_fuel_only_unmodelled']
RULE = ('payloads 0 B .. 64 KiB (quick) / 1 MiB (thorough): empty, all-zero (forces z), text, random, around 32 KiB and the '
        'ASCII group sizes; encoded by independent python encoders drawing every legal choice (whitespace anywhere, hex case, odd '
        'final digit, z groups or not, final partial group, EOD, trailing EOL bytes; zlib levels 0/1/6/9 and hand-built stored '
        'blocks); chains of length 0..3 over {Flate, ASCIIHex, ASCII85}; /DecodeParms absent, single, null or array (incl. PNG-Up '
        'predictor parms); malformed stream: corrupt encodings (illegal char, missing EOD, group >= 2^32, misaligned z, lone '
        'final digit, truncated / bit-flipped zlib data) and every mismatched /Filter-/DecodeParms shape. '
        'non-trivial = at least one filter applied to a non-empty payload, or an error for a corrupt / mis-shaped stream')
TRUSTED = ['models coq/Model/{AHex,A85,Flate,Filters}.v of pdf_filters.rs, the vendored ascii85-0.2.1 and binascii-0.1.4 crates, '
           'StreamT::filters and decode_stream (hand transcription, validated by this correspondence run in debug and release)',
           'zlib inflate is an oracle: python zlib.decompressobj answers (output, unused_data) for every Flate stage input and '
           'passes them to the model as tokens; the implementation uses the real zlib through flate2']
ASSUMPTIONS = ['inflate oracle hypothesis: inflate (e ++ t) = Some (p, t) for a valid zlib encoding e of p (Section hypothesis of '
               'C06_flate / C06_chain; instantiated for stored blocks by C06_inflate0)',
               'stream bytes are < 256; dictionaries have distinct keys']

WS = [0x00, 0x09, 0x0A, 0x0C, 0x0D, 0x20]
FL, AH, A85 = 'FlateDecode', 'ASCIIHexDecode', 'ASCII85Decode'


def hx(b):
    return b.hex() or '-'


def name_tok(s):
    return 'm' + s.encode().hex()


def key(s):
    return s.encode().hex()


# ------------------------------------------------------------------ independent encoders (every legal choice drawn from rng)
def sprinkle(rng, data, rate):
    """PDF whitespace anywhere"""
    if rate <= 0:
        return data
    out = bytearray()
    for b in data:
        while rng.random() < rate:
            out.append(rng.choice(WS))
        out.append(b)
    while rng.random() < rate:
        out.append(rng.choice(WS))
    return bytes(out)


GAPS = [bytes([w]) for w in WS] + [b'\r\n', b'\n\n', b' \n', b'\r\n \t']


def marker_gap(rng, share=0.4):
    """white space an encoder may put directly before the EOD marker and between the `~` and `>` of it: each
    PDF white-space byte and the usual EOL pairs, in a good share of the cases"""
    return rng.choice(GAPS) if rng.random() < share else b''


def line_wrap(rng, text):
    """a fixed-width line wrapper over digits AND marker: the line break may fall anywhere, also inside `~>`"""
    width = rng.choice([1, 2, 3, 5, 7, 16, 64, 72, 76, 80])
    eol = rng.choice([b'\n', b'\r\n', b'\r'])
    return eol.join(text[i:i + width] for i in range(0, len(text), width))


def eol_tail(rng):
    return rng.choice([b'', b'\n', b'\r\n', b'\r', b'\n\n', b' \n'])


def ahex_encode(rng, p, ws=0.0):
    style = rng.randrange(3)
    if len(p) > 2000 and style == 2:
        style = 0
    if style == 2:                            # mixed case, digit pair by digit pair
        digs = bytearray()
        for b in p:
            s = '%02x' % b
            digs += (s.upper() if rng.random() < 0.5 else s).encode()
    else:
        digs = bytearray((p.hex().upper() if style == 1 else p.hex()).encode())
    if p and p[-1] & 15 == 0 and rng.random() < 0.7:
        digs = digs[:-1]                    # odd number of digits: the last one is followed by an implied 0
    if len(p) <= 5000 and rng.random() < 0.25:
        return line_wrap(rng, bytes(digs) + b'>') + eol_tail(rng)
    body = sprinkle(rng, bytes(digs), ws)
    return body + marker_gap(rng) + b'>' + eol_tail(rng)


def a85_group(v, n):
    d = []
    for _ in range(5):
        d.append(v % 85 + 33)
        v //= 85
    return bytes(reversed(d))[:n]


def a85_encode(rng, p, ws=0.0, zprob=0.8):
    out = a85_body(rng, p, zprob)
    if len(p) <= 5000 and rng.random() < 0.25:
        return line_wrap(rng, out + b'~>') + eol_tail(rng)
    body = sprinkle(rng, out, ws)
    return body + marker_gap(rng) + b'~' + marker_gap(rng) + b'>' + eol_tail(rng)


def a85_body(rng, p, zprob=0.8):
    """the characters of an encoding of p (no white space, no marker)"""
    out = bytearray()
    i = 0
    while i + 4 <= len(p):
        v = int.from_bytes(p[i:i + 4], 'big')
        if v == 0 and rng.random() < zprob:
            out += b'z'
        else:
            out += a85_group(v, 5)
        i += 4
    if i < len(p):
        n = len(p) - i
        v = int.from_bytes(p[i:] + bytes(4 - n), 'big')
        out += a85_group(v, n + 1)
    return bytes(out)


def adler(b):
    return zlib.adler32(b) & 0xffffffff


def stored_zlib(rng, p):
    """hand-built zlib stream of stored (BTYPE 00) blocks with random chunking"""
    out = bytearray(b'\x78\x01')
    i = 0
    if not p:
        out += b'\x01\x00\x00\xff\xff'
    while i < len(p):
        n = min(len(p) - i, rng.choice([1, 2, 7, 100, 4096, 65535]))
        last = 1 if i + n == len(p) else 0
        out += bytes([last]) + n.to_bytes(2, 'little') + (n ^ 0xffff).to_bytes(2, 'little') + p[i:i + n]
        i += n
    out += adler(p).to_bytes(4, 'big')
    return bytes(out)


def flate_encode(rng, p):
    lvl = rng.choice([0, 1, 6, 9, 'stored'])
    z = stored_zlib(rng, p) if lvl == 'stored' else zlib.compress(p, lvl)
    return z + eol_tail(rng)


# ------------------------------------------------------------------ reference decoders (specification, strict)
class Corrupt(Exception):
    pass


_WS_TABLE = bytes(WS)
_HEXSET = set(b'0123456789abcdefABCDEF')


def ref_ahex(data):
    k = data.find(b'>')
    if k < 0:
        body = data.translate(None, _WS_TABLE)
        if any(b not in _HEXSET for b in body):
            raise Corrupt('illegal hex char')
        raise Corrupt('no EOD')
    digs = data[:k].translate(None, _WS_TABLE)
    if not _HEXSET.issuperset(digs):
        raise Corrupt('illegal hex char')
    if len(digs) % 2:
        digs += b'0'
    return bytes.fromhex(digs.decode())


def ref_a85(data):
    s = data.translate(None, _WS_TABLE)
    if s.startswith(b'<~'):
        s = s[2:]               # the Adobe-style start marker is tolerated (as the ascii85 crate always did)
    k = s.find(b'~')
    if k < 0 or s[k:] != b'~>':
        raise Corrupt('no EOD / bytes after EOD')
    body = s[:k]
    out = bytearray()
    i, n = 0, len(body)
    while i < n:
        c = body[i]
        if c == 0x7A:
            out += bytes(4)
            i += 1
            continue
        grp = body[i:i + 5]
        if not all(33 <= x <= 117 for x in grp):
            raise Corrupt('illegal char or misaligned z')
        m = len(grp)
        if m == 1:
            raise Corrupt('lone final digit')
        v = 0
        for x in grp:
            v = v * 85 + (x - 33)
        for _ in range(5 - m):
            v = v * 85 + 84
        if v >= 2 ** 32:
            raise Corrupt('group too large')
        out += v.to_bytes(4, 'big')[:4 if m == 5 else m - 1]
        i += m
    return bytes(out)


def inflate(data):
    """zlib's answer: (output, unused tail) or None"""
    d = zlib.decompressobj()
    try:
        out = d.decompress(data)
    except zlib.error:
        return None
    if not d.eof:
        return None
    return out, d.unused_data


def ref_flate(data, parms):
    r = inflate(data)
    if r is None:
        raise Corrupt('zlib')
    out = r[0]
    p = {'Predictor': 1, 'Colors': 1, 'Columns': 1, 'BitsPerComponent': 8}
    for k, v in (parms or {}).items():
        if k in p and isinstance(v, int):
            p[k] = v
    exp = PRED.expected(p, out)
    if exp is None:
        raise Corrupt('predictor')      # not generated on purpose
    return exp


# ------------------------------------------------------------------ objects (python values <-> tokens)
# dict: python dict name->value; value: int | ('name', str) | None (null) | dict | list | ('str', bytes) | bool
def tok(v):
    if v is None:
        return 'n'
    if v is True:
        return 't'
    if v is False:
        return 'f'
    if isinstance(v, int):
        return 'i%d' % v
    if isinstance(v, tuple) and v[0] == 'name':
        return name_tok(v[1])
    if isinstance(v, tuple) and v[0] == 'str':
        return 's' + v[1].hex()
    if isinstance(v, list):
        return 'A(' + ','.join(tok(x) for x in v) + ')'
    if isinstance(v, dict):
        return dict_tok(v)
    raise ValueError(v)


def dict_tok(d):
    return 'D(' + ','.join('%s:%s' % (key(k), tok(d[k])) for k in sorted(d, key=lambda s: s.encode())) + ')'


def stream_case(d, content, oracle_inputs):
    toks = ['s', 'S(%s,%s)' % (dict_tok(d), content.hex())]
    for x in oracle_inputs:
        toks += oracle_entry(x)
    return ' '.join(toks)


def window(data):
    """what a single write + finish on flate2::write::ZlibDecoder delivered in the pinned code (only for replaying the
    pinned model, C06_PINNED=1): one inflate call with a 32 KiB output buffer, then calls without input"""
    d = zlib.decompressobj()
    try:
        o = d.decompress(data, 32768)
        while True:
            x = d.decompress(b'', 65536)
            if not x:
                break
            o += x
    except zlib.error:
        return None
    return o


def oracle_entry(x):
    import os
    r = inflate(x)
    k = 'z%d.%d' % (len(x), adler(x))
    e = [k, 'E', '-'] if r is None else [k, hx(r[0]), hx(r[1])]
    if os.environ.get('C06_PINNED'):
        w = window(x)
        e += ['w%d.%d' % (len(x), adler(x)), 'E' if w is None else hx(w), '-']
    return e


# ------------------------------------------------------------------ reference decode_stream
def ref_filters(d):
    """the /Filter x /DecodeParms pairing per ISO 32000 7.3.8.2 / Table 5; raises Corrupt for mismatched shapes"""
    f = d.get('Filter')
    dp = d.get('DecodeParms')
    if f is None:
        return []
    if isinstance(f, tuple) and f[0] == 'name':
        if dp is None or not isinstance(dp, (dict, list)):
            return [(f[1], None)]
        if isinstance(dp, dict):
            return [(f[1], dp)]
        raise Corrupt('name with array parms')
    if isinstance(f, list):
        if isinstance(dp, list):
            if len(dp) != len(f):
                raise Corrupt('unequal lengths')
            out = []
            for a, b in zip(f, dp):
                if not (isinstance(a, tuple) and a[0] == 'name'):
                    raise Corrupt('non-name filter')
                if b is None:
                    out.append((a[1], None))
                elif isinstance(b, dict):
                    out.append((a[1], b))
                else:
                    raise Corrupt('bad parm')
            return out
        out = []
        for a in f:
            if not (isinstance(a, tuple) and a[0] == 'name'):
                raise Corrupt('non-name filter')
            out.append((a[1], None))
        return out
    return []


def ref_decode(d, content):
    """-> (pruned dict, payload, [flate stage inputs])"""
    fs = ref_filters(d)
    data = content
    zin = []
    for name, parms in fs:
        if name == FL:
            zin.append(data)
            data = ref_flate(data, parms)
        elif name == AH:
            data = ref_ahex(data)
        elif name == A85:
            data = ref_a85(data)
        else:
            raise Corrupt('unknown filter')
    nd = {k: v for k, v in d.items() if k not in ('Filter', 'DecodeParms')}
    return nd, data, zin


def flate_inputs(d, content):
    """inputs of the Flate stages as far as the reference pipeline gets"""
    zin = []
    try:
        fs = ref_filters(d)
    except Corrupt:
        return zin
    data = content
    for name, parms in fs:
        try:
            if name == FL:
                zin.append(data)
                data = ref_flate(data, parms)
            elif name == AH:
                data = ref_ahex(data)
            elif name == A85:
                data = ref_a85(data)
            else:
                break
        except Corrupt:
            break
    return zin


# ------------------------------------------------------------------ generators
def payloads(tier, rng):
    out = [b'', b'\x00', b'a', b'\x00\x00\x00\x00', b'\x00' * 5, b'\xff' * 4, b'\xff' * 7, b'Man is distinguished', bytes(range(256))]
    for n in (1, 2, 3, 4, 5, 6, 7, 8, 9, 15, 16, 17, 63, 64, 65, 255, 1000):
        out.append(bytes(rng.randrange(256) for _ in range(n)))
        out.append(bytes(rng.choice((0, 0, 0, 1, 255)) for _ in range(n)))
    text = b'The quick brown fox jumps over the lazy dog. '
    for n in (4000, 32767, 32768, 32769, 33000, 40000, 65536):
        out.append((text * (n // len(text) + 1))[:n])
        out.append(bytes(n))
    out.append(rng.getrandbits(8 * 40000).to_bytes(40000, 'big'))
    out.append(rng.getrandbits(8 * 65536).to_bytes(65536, 'big'))
    if tier == 'thorough':
        for n in (100000, 300000, 1 << 20):
            out.append((text * (n // len(text) + 1))[:n])
            out.append(bytes(n))
            out.append(rng.getrandbits(8 * n).to_bytes(n, 'big'))
    return out


def encode_with(rng, name, p, ws):
    if name == FL:
        return flate_encode(rng, p)
    if name == AH:
        return ahex_encode(rng, p, ws)
    return a85_encode(rng, p, ws)


BASE_DICTS = [{}, {'Length': 5}, {'Type': ('name', 'XObject'), 'Length': 12, 'Zeta': [1, ('name', 'A')]},
              {'DL': 7, 'F': ('str', b'x'), 'Length': 3, 'Filtered': True}]


def build_stream(rng, chain, payload, ws, parm_shape):
    """chain: list of filter names in decoding order; returns (dict, content)"""
    data = payload
    parms = [None] * len(chain)
    for i in range(len(chain) - 1, -1, -1):
        if chain[i] == FL and parm_shape in ('dict', 'array') and rng.random() < 0.5:
            # PNG Up rows or Predictor 1 with other entries
            if rng.random() < 0.5 and len(data) <= 4096:
                cols = rng.randrange(1, 6)
                pad = (-len(data)) % cols
                rows_b = data + bytes(pad)
                rows = [rows_b[k:k + cols] for k in range(0, len(rows_b), cols)]
                if pad == 0:
                    data = PRED.png_encode(2, 1, rows)
                    parms[i] = {'Predictor': 12, 'Columns': cols}
            else:
                parms[i] = {'Predictor': 1, 'Columns': rng.choice([1, 5, -3])}
        data = encode_with(rng, chain[i], data, ws)
    d = dict(rng.choice(BASE_DICTS))
    if len(chain) == 1 and parm_shape != 'array' and rng.random() < 0.6:
        d['Filter'] = ('name', chain[0])
        if parms[0] is not None:
            d['DecodeParms'] = parms[0]
        elif parm_shape == 'dict' and rng.random() < 0.3:
            d['DecodeParms'] = {}
    elif chain or rng.random() < 0.5:
        d['Filter'] = [('name', f) for f in chain]
        if parm_shape == 'array' or any(x is not None for x in parms):
            d['DecodeParms'] = [x if x is not None else (None if rng.random() < 0.7 else {}) for x in parms]
    elif parm_shape == 'dict':
        d['DecodeParms'] = {}            # parameters without a filter
    return d, data


def valid_cases(tier, rng):
    out = []
    chains = [[]] + [[a] for a in (FL, AH, A85)] + [[a, b] for a in (FL, AH, A85) for b in (FL, AH, A85)] + \
             [[a, b, c] for a in (FL, AH, A85) for b in (FL, AH, A85) for c in (FL, AH, A85)]
    ps = payloads(tier, rng)
    for p in ps:
        big = len(p) > 5000
        if big:
            cs = [[FL], [AH], [A85], [FL, FL], [A85, FL], [AH, FL], [FL, A85], [AH, A85, FL]]
            if len(p) > 70000:
                # the ASCII encodings of 100 KB .. 1 MiB are run on their own up to 300 KB, and around the
                # (much smaller) compressed form of compressible payloads at any size
                compressible = len(zlib.compress(p, 1)) < len(p) // 4
                cs = [[FL]] + ([[A85, FL], [AH, FL]] if compressible else []) + ([[A85], [AH]] if len(p) <= 300000 else [])
        else:
            cs = chains if (tier == 'thorough' or len(p) < 10) else [c for c in chains if rng.random() < 0.45]
        for chain in cs:
            reps = 1 if big else 2
            for _ in range(reps):
                ws = rng.choice([0.0, 0.0, 0.05, 0.4]) if not big else 0.0
                shape = rng.choice(['none', 'dict', 'array'])
                d, content = build_stream(rng, chain, p, ws, shape)
                out.append(stream_case(d, content, flate_inputs(d, content)))
    # single transforms, observed at BufferTransformT::transform
    for p in ps:
        if len(p) > 70000:
            continue
        for name in (FL, AH, A85):
            ws = rng.choice([0.0, 0.1]) if len(p) < 5000 else 0.0
            enc = encode_with(rng, name, p, ws)
            toks = ['t', name, 'n', hx(enc)] + (oracle_entry(enc) if name == FL else [])
            out.append(' '.join(toks))
    # exhaustive small scope: every 1-byte payload and every final-group size, both ASCII filters, with and without z
    for b in range(256):
        for tail in (b'', b'\x00\x00\x00\x00'):
            p = tail + bytes([b])
            out.append(' '.join(['t', AH, 'n', hx(ahex_encode(rng, p))]))
            out.append(' '.join(['t', A85, 'n', hx(a85_encode(rng, p))]))
    p63 = bytes((7 * i + 3) & 255 for i in range(63))
    d63 = a85_body(rng, p63, zprob=0.0)
    wrapped = b'\n'.join((d63 + b'~>')[i:i + 80] for i in range(0, len(d63) + 2, 80))      # 79 digits + `~` | `>`
    assert len(d63) == 79 and wrapped.endswith(b'~\n>')
    out.append(' '.join(['t', A85, 'n', hx(wrapped)]))
    out.append(stream_case({'Filter': ('name', A85), 'Length': len(wrapped)}, wrapped, []))
    for g in GAPS:
        for p in (b'', b'a', b'abcd', b'\x00\x00\x00\x00', p63):
            body = a85_body(rng, p)
            hbody = p.hex().encode()
            for enc_, name in ((body + b'~' + g + b'>', A85), (body + g + b'~>', A85), (body + g + b'~' + g + b'>' + g, A85),
                               (hbody + g + b'>', AH)):
                out.append(' '.join(['t', name, 'n', hx(enc_)]))
                d = {'Filter': [('name', name)], 'Length': len(enc_)}
                out.append(stream_case(d, enc_, []))
                z = zlib.compress(enc_)
                d2 = {'Filter': [('name', FL), ('name', name)]}
                out.append(stream_case(d2, z, flate_inputs(d2, z)))
                inner = (zlib.compress(p).hex().encode() if name == AH else
                         a85_body(rng, zlib.compress(p)))
                enc2 = inner + (g + b'>' if name == AH else b'~' + g + b'>')
                d3 = {'Filter': [('name', name), ('name', FL)]}
                out.append(stream_case(d3, enc2, flate_inputs(d3, enc2)))
    for p in (b'', b'abcd', b'\x00\x00\x00\x00xy', b'<~>'):
        out.append(' '.join(['t', A85, 'n', hx(b'<~' + a85_encode(rng, p))]))
        out.append(' '.join(['t', A85, 'n', hx(b' <~<~' + a85_encode(rng, p))]))      # repeated marker: not tolerated
    for v in (0, 1, 84, 85, 2 ** 32 - 1, 2 ** 32 - 2, 2 ** 31, 0x01000000, 0x00ffffff, 85 ** 4, 85 ** 4 - 1, 85 ** 3, 614124):
        for n in (1, 2, 3, 4):
            p = v.to_bytes(4, 'big')[:n]
            out.append(' '.join(['t', A85, 'n', hx(a85_encode(rng, p))]))
            out.append(' '.join(['t', A85, 'n', hx(a85_encode(rng, bytes(4) + p, zprob=1.0))]))
    return out


def corrupt_cases(tier, rng):
    out = []
    n = 1500 if tier == 'thorough' else 400
    small = [p for p in payloads('quick', rng) if 0 < len(p) <= 300]
    for _ in range(n):
        p = rng.choice(small)
        name = rng.choice((FL, AH, A85))
        enc = bytearray(encode_with(rng, name, p, rng.choice([0.0, 0.1])))
        how = rng.randrange(6)
        if name == AH:
            if how == 0:
                enc = bytearray(bytes(enc).replace(b'>', b''))                   # no EOD
            elif how == 1:
                enc.insert(rng.randrange(bytes(enc).index(b'>') + 1), rng.choice(b'gGzZ~<!/\x80\xff'))
            elif how == 2:
                enc = bytearray(bytes(enc).split(b'>')[0] + b'>' + bytes(rng.randrange(256) for _ in range(5)))   # junk after EOD: ignored
            elif how == 3:
                enc = enc[:rng.randrange(len(enc))]
        elif name == A85:
            body = bytes(enc).split(b'~')[0]
            if how == 0:
                enc = bytearray(body)                                               # no EOD
            elif how == 1:
                enc = bytearray(body[:rng.randrange(len(body) + 1)] + bytes([rng.choice(b'vwxy{|}\x7f\x80\xa0\x85\xff')]) + b'~>')
            elif how == 2:
                k = rng.randrange(len(body) + 1)
                enc = bytearray(body[:k] + b'z' + body[k:] + b'~>')                 # possibly misaligned z
            elif how == 3:
                enc = bytearray(body + rng.choice([b'!', b'u', b'5']) + b'~>') if len(bytes(b for b in body if b not in WS and b != 0x7A)) % 5 == 0 \
                    else bytearray(body + b'~>')                                    # lone final digit
            elif how == 4:
                g = rng.choice([b's8W-"', b'uuuuu', b's8W-!', b'tzzzz', b'uu', b'uuu', b'uuuu', b's8W.', b's8W-'])
                enc = bytearray(body[:len(body) // 5 * 5] if b'z' not in body and not any(b in WS for b in body) else b'')
                enc += g + b'~>'                                                    # group >= 2^32 (or just below)
            else:
                enc = bytearray(body + b'~>' + bytes([rng.choice(b'x!~>z')]))       # bytes after EOD
        else:
            if how == 0:
                enc = enc[:rng.randrange(2, max(3, len(enc) - 4))]                  # truncated
            elif how == 1:
                k = rng.randrange(len(enc))
                enc[k] ^= 1 << rng.randrange(8)                                     # bit flip
            elif how == 2:
                enc = bytearray(rng.randrange(256) for _ in range(rng.randrange(0, 12)))
            elif how == 3:
                enc = bytearray(zlib.compress(p)) + bytes(rng.randrange(256) for _ in range(4))   # junk after the stream: ignored
        enc = bytes(enc)
        toks = ['t', name, 'n', hx(enc)] + (oracle_entry(enc) if name == FL else [])
        out.append(' '.join(toks))
        # the same as the last stage of a chain (so that no later stage depends on it)
        if rng.random() < 0.5:
            first = rng.choice((AH, A85))
            content = encode_with(rng, first, enc, 0.0)
            d = {'Filter': [('name', first), ('name', name)], 'Length': len(content)}
            out.append(stream_case(d, content, flate_inputs(d, content) or ([enc] if name == FL else [])))
    return out


def shape_cases(tier, rng):
    out = []
    p = b'hello shapes'
    z = zlib.compress(p)
    h = z.hex().encode() + b'>'
    N = lambda s: ('name', s)
    shapes = [
        {'Filter': N(FL), 'DecodeParms': [None]},                 # name with array parms
        {'Filter': N(FL), 'DecodeParms': []},
        {'Filter': [N(FL)], 'DecodeParms': [None, None]},          # unequal lengths
        {'Filter': [N(AH), N(FL)], 'DecodeParms': [None]},
        {'Filter': [N(FL)], 'DecodeParms': []},
        {'Filter': [N(FL), 5]},                                    # non-name in Filter
        {'Filter': [5], 'DecodeParms': [None]},
        {'Filter': [N(FL)], 'DecodeParms': [7]},                   # non-dict/non-null parm
        {'Filter': [N(FL)], 'DecodeParms': [N('X')]},
        {'Filter': [N(FL)], 'DecodeParms': [[1]]},
        {'Filter': N('NoSuchDecode')},                             # unknown filter
        {'Filter': [N(FL), N('LZWDecode')]},
        {'Filter': N('FlateDecod')},
        {'Filter': N(FL), 'DecodeParms': 7},                       # non-dict single parm: ignored
        {'Filter': N(FL), 'DecodeParms': None},
        {'Filter': [N(FL)], 'DecodeParms': {}},                    # array filter with dict parms: parms ignored
        {'Filter': 7},                                             # neither name nor array: no filter
        {'Filter': None, 'DecodeParms': [None]},
        {'Filter': []},
        {'Filter': [], 'DecodeParms': []},
        {'Filter': [], 'DecodeParms': [None]},
        {'DecodeParms': [None]},
        {'Filter': [N(FL)], 'DecodeParms': [{}]},
        {'Filter': [N(AH), N(FL)], 'DecodeParms': [None, {'Predictor': 1}]},
        {'Filter': [N(AH), N(FL)], 'DecodeParms': [{'Predictor': 12}, None]},   # parms belong to their own position
    ]
    for s in shapes:
        for extra in ({}, {'Length': 3, 'Zz': True}):
            d = dict(extra)
            d.update(s)
            f = s.get('Filter')
            content = h if isinstance(f, list) and f and f[0] == N(AH) else z
            out.append(stream_case(d, content, flate_inputs(d, content) or [z]))
    return out


def cases(tier, rng):
    out = shape_cases(tier, rng) + corrupt_cases(tier, rng) + valid_cases(tier, rng)
    rng.shuffle(out)        # spreads the large payloads over the parallel runner shards
    return out


# ------------------------------------------------------------------ oracle
def untok(t):
    """token -> python value (subset the generators produce)"""
    v, rest = _rd(t)
    return v


def _rd(s):
    c = s[0]
    if c == 'n':
        return None, s[1:]
    if c == 't':
        return True, s[1:]
    if c == 'f':
        return False, s[1:]
    if c == 'i':
        j = 1
        while j < len(s) and (s[j].isdigit() or s[j] == '-'):
            j += 1
        return int(s[1:j]), s[j:]
    if c in 'ms':
        j = 1
        while j < len(s) and s[j] in '0123456789abcdef':
            j += 1
        b = bytes.fromhex(s[1:j])
        return (('name', b.decode('latin1')) if c == 'm' else ('str', b)), s[j:]
    if c == 'A':
        s = s[2:]
        out = []
        while s[0] != ')':
            if s[0] == ',':
                s = s[1:]
                continue
            v, s = _rd(s)
            out.append(v)
        return out, s[1:]
    if c == 'D':
        s = s[2:]
        out = {}
        while s[0] != ')':
            if s[0] == ',':
                s = s[1:]
                continue
            j = s.index(':')
            k = bytes.fromhex(s[:j]).decode('latin1')
            v, s = _rd(s[j + 1:])
            out[k] = v
        return out, s[1:]
    raise ValueError(s[:20])


def show_content(b):
    return hx(b) if len(b) <= 64 else '#%d.%d' % (len(b), adler(b))


_WANT = {}


def oracle(case, obs, prof):
    if obs == 'panic' or obs.startswith('crash') or obs in ('timeout', 'missing'):
        return 'the decoder panicked / crashed (%s)' % obs
    want = _WANT.get(case)
    if want is None:
        want = _WANT[case] = _expected_obs(case)
    if want == 'err':
        if not obs.startswith('err '):
            return 'a corrupt encoding / mismatched filter shape must produce an error, implementation gave "%s"' % obs[:100]
        return None
    if obs != want:
        return 'decoding a conformant encoding must give "%s", implementation gave "%s"' % (want[:120], obs[:120])
    return None


def _expected_obs(case):
    t = case.split(' ')
    if t[0] == 't':
        data = b'' if t[3] == '-' else bytes.fromhex(t[3])
        try:
            exp = {FL: lambda x: ref_flate(x, None), AH: ref_ahex, A85: ref_a85}[t[1]](data)
            want = 'ok ' + show_content(exp)
        except Corrupt:
            want = 'err'
    else:
        tokn = t[1]
        j = tokn.rindex(',')
        d = untok(tokn[2:j])
        content = bytes.fromhex(tokn[j + 1:-1])
        try:
            nd, payload, _ = ref_decode(d, content)
            want = 'ok %s %s' % (dict_tok(nd), show_content(payload))
        except Corrupt:
            want = 'err'
    return want


def nontrivial(case, obs):
    t = case.split(' ')
    if obs.startswith('err '):
        return True
    if t[0] == 't':
        return obs not in ('ok -',)
    return ('4669' in t[1].split(',')[0] or key('Filter') in t[1]) and not obs.endswith(' -')


def classify(case, obs):
    t = case.split(' ')
    if t[0] == 't':
        return 't:%s:%s' % (t[1], obs.split(' ')[0])
    n = t[1].count(name_tok(FL)) + t[1].count(name_tok(AH)) + t[1].count(name_tok(A85))
    return 's:%d:%s' % (n, ' '.join(obs.split(' ')[:2]) if obs.startswith('err') else 'ok')


LEVEL_TEXT = ('Coq theorems: ASCIIHexDecode and ASCII85Decode invert every legal encoding (relations covering whitespace anywhere, hex '
              'case, odd final digit, z groups, final partial group, EOD, trailing EOL bytes) for all payloads; FlateDecode and chains '
              'of any length relative to the inflate oracle hypothesis (instantiated by a Gallina inflate for stored blocks); '
              'dictionary pruned of /Filter and /DecodeParms; mismatched shapes and the listed corrupt encodings give errors. '
              'The model is tied to the code by a differential run in debug and release builds with python zlib as the inflate oracle')
LEVEL_NOTE = ('trusted: Coq kernel, hand transcriptions coq/Model/{AHex,A85,Flate,Filters,Pred}.v (validated by the correspondence '
              'run), extraction + ocaml/drv.ml, harness/src/bin/c06.rs; zlib itself is not verified (oracle hypothesis)')
TECHNIQUE = 'Coq proof (induction over encoder derivations and chains; base-85 arithmetic by lia) + differential correspondence'
