"""C19 — binary integer parsers decode exactly the bytes under the cursor."""
ID = 'C19'
PROFILES = ['debug', 'release']
THEOREMS = ['C19_uint_ok', 'C19_uint_short', 'C19_int_ok', 'C19_int_short', 'C19_bytevec_ok',
            'C19_bytevec_short', 'C19_bytevec_any_length', 'C19_no_panic']
RULE = ('exhaustive: every 1-byte and 2-byte pattern x {BE,LE} x {U,I} x cursor 0..2 of a padded buffer x every '
        'remaining length 0..w; boundary + random 32/64-bit patterns; ByteVecP with len 0..n+2. '
        'non-trivial = distinct case whose parse succeeds with a non-zero value or fails after the first half succeeded')
TRUSTED = ['model of prim_binary.rs in coq/Model/Bin.v (hand transcription, validated by this correspondence run)']
ASSUMPTIONS = ['buffer bytes are < 256 (wfb)', 'a view behaves as its window (C17)']
W = {'u8': 1, 'i8': 1, 'u16': 2, 'i16': 2, 'u32': 4, 'i32': 4, 'u64': 8, 'i64': 8}


def cases(tier, rng):
    out = []
    pad = ['', 'ee', 'eeee']
    # exhaustive 8-bit and 16-bit
    for k in ('u8', 'i8'):
        for b in range(256):
            for p in pad[:2]:
                out.append('%s be %s%02x %d' % (k, p, b, len(p) // 2))
    step = 1 if tier == 'thorough' else 7
    for k in ('u16', 'i16'):
        for e in ('be', 'le'):
            for v in list(range(0, 65536, step)) + [65535, 0x7fff, 0x8000, 0x00ff, 0xff00]:
                p = pad[v % 3]
                out.append('%s %s %s%04x %d' % (k, e, p, v, len(p) // 2))
    # truncations: every remaining length 0..w-1, for every width, at cursors 0..3
    for k, w in W.items():
        for e in ('be', 'le'):
            for rem in range(0, w + 1):
                for cur in range(0, 4):
                    buf = ''.join('%02x' % rng.randrange(256) for _ in range(cur + rem))
                    out.append('%s %s %s %d' % (k, e, buf or '-', cur))
    # boundary and random 32/64
    n = 20000 if tier == 'thorough' else 1500
    bnd = [0, 1, 0x7f, 0x80, 0xff, 0x7fffffff, 0x80000000, 0xffffffff, 0x7fffffffffffffff, 0x8000000000000000,
           0xffffffffffffffff, 0x0102030405060708, 0x00000000ffffffff, 0xffffffff00000000]
    for k in ('u32', 'i32', 'u64', 'i64'):
        w = W[k]
        for e in ('be', 'le'):
            vals = [b & ((1 << (8 * w)) - 1) for b in bnd] + [rng.getrandbits(8 * w) for _ in range(n)]
            for v in vals:
                cur = rng.randrange(4)
                tail = rng.randrange(3)
                buf = 'aa' * cur + ('%0*x' % (2 * w, v)) + 'bb' * tail
                out.append('%s %s %s %d' % (k, e, buf, cur))
    # byte vectors
    for ln in range(0, 10):
        for total in range(0, 10):
            for cur in range(0, total + 1):
                buf = ''.join('%02x' % rng.randrange(256) for _ in range(total))
                out.append('bytes %d %s %d' % (ln, buf or '-', cur))
    # the same parsers on a restricted view: the window is `buf`, with other bytes before and after it in
    # the underlying storage (tokens 5 and 6); every truncation again, so that reading past the window shows
    more = []
    for k, w in W.items():
        for e in ('be', 'le'):
            for rem in range(0, w + 1):
                for cur in range(0, 3):
                    buf = ''.join('%02x' % rng.randrange(256) for _ in range(cur + rem))
                    pre = ''.join('%02x' % rng.randrange(256) for _ in range(rng.randrange(0, 4)))
                    post = ''.join('%02x' % rng.randrange(256) for _ in range(rng.choice([0, 1, w, 2 * w])))
                    more.append('%s %s %s %d %s %s' % (k, e, buf or '-', cur, pre or '-', post or '-'))
    for ln in range(0, 8):
        for total in range(0, 8):
            for cur in range(0, total + 1):
                buf = ''.join('%02x' % rng.randrange(256) for _ in range(total))
                more.append('bytes %d %s %d %s %s' % (ln, buf or '-', cur, 'aabb', 'ccddeeff0011'))
    # ByteVecP with absurd lengths (a usize): must be EndOfBuffer with the cursor unmoved, never an overflow
    for ln in (2 ** 64 - 1, 2 ** 64 - 2, 2 ** 63, 2 ** 63 - 1, 2 ** 32, 2 ** 31, 10 ** 9):
        for total in (0, 1, 2, 5):
            for cur in range(0, total + 1):
                buf = ''.join('%02x' % rng.randrange(256) for _ in range(total))
                more.append('bytes %d %s %d' % (ln, buf or '-', cur))
                more.append('bytes %d %s %d %s %s' % (ln, buf or '-', cur, 'aabb', 'ccdd'))
    return out + more


def _unhex(s):
    return b'' if s == '-' else bytes.fromhex(s)


def oracle(case, obs, prof):
    """independent statement of the property on the implementation's observation."""
    t = case.split(' ')
    kind, buf, cur = t[0], _unhex(t[2]), int(t[3])
    if kind == 'bytes':
        n = int(t[1])
        if cur + n <= len(buf):
            exp = 'ok %s %d %d @%d' % (buf[cur:cur + n].hex() or '-', cur, cur + n, cur + n)
        else:
            exp = 'err eob @%d' % cur
    else:
        w = W[kind]
        if cur + w <= len(buf):
            v = int.from_bytes(buf[cur:cur + w], 'big' if t[1] == 'be' else 'little', signed=kind[0] == 'i')
            exp = 'ok %d %d %d @%d' % (v, cur, cur + w, cur + w)
        else:
            exp = 'err eob @%d' % cur
    return None if obs == exp else 'expected "%s", implementation gave "%s"' % (exp, obs)


def nontrivial(case, obs):
    t = case.split(' ')
    if obs.startswith('ok '):
        return obs.split(' ')[1] not in ('0', '-')
    # failure after a first half succeeded
    if t[0] in W and W[t[0]] > 1:
        buf, cur = _unhex(t[2]), int(t[3])
        return len(buf) - cur >= W[t[0]] // 2
    return False


def classify(case, obs):
    return case.split(' ')[0] + ':' + obs.split(' ')[0]

LEVEL_TEXT = ('Coq theorems (all buffers, all cursors, widths 1/2/4/8, both byte orders, signed and unsigned): value = '
              'big/little-endian denotation of the next w bytes, span and cursor advance = w, EndOfBuffer with the cursor '
              'unmoved when fewer remain, no reachable overflow/assert; the model is tied to prim_binary.rs by an exhaustive '
              '8/16-bit + random 32/64-bit differential run in debug and release builds')
LEVEL_NOTE = ('trusted: Coq kernel, hand transcription coq/Model/Bin.v (validated by the correspondence run), extraction + '
              'ocaml/drv.ml, harness/src/bin/c19.rs; assumes buffer bytes < 256 and that a view behaves as its window (C17)')
TECHNIQUE = 'Coq proof by induction on width (uN_ok/uN_short) + differential correspondence model vs implementation'
