"""Shared by props/c03.py and props/c04.py: document / history generators, the RENDERER that turns an
abstract document history + layout into real PDF bytes (trusted glue: python, not Coq), the abstract
description `offset -> what the parsers find there` read by the Coq model (coq/Model/Loader.v), the
specification-level semantics `resolve` (independent of the model) and the oracle helpers.

Case line:
  L <flen> <magic 0|1> <startxref|-> <probes> <spec> <hex of the file> item*
    spec  = kind~flags~root~bk~exp      (read only by the oracle; the model and the runner ignore it)
      kind  : wf | cycle | oob | idmis | other
      flags : letters naming known-finding classes the history falls in, or '-'
      root  : n.g expected root or '-'
      bk    : ids the loader may additionally bind to a bookkeeping container (*xref / *objstm)
      exp   : n.g=text+...  the objects `resolve` defines (text = canonical object, *xref, *objstm)
"""
import zlib

WS = b' \t\r\n\x0c\x00'


# ------------------------------------------------------------------ values
# ('null',) ('bool',b) ('int',z) ('real',num,k) ('str',bytes) ('name',bytes) ('ref',n,g)
# ('arr',[v]) ('dict',[(key,v)]) ('stream',[(key,v)],payload)   -- stream dict WITHOUT /Length (added by the renderer)
def show(v):
    t = v[0]
    if t == 'null':
        return 'n'
    if t == 'bool':
        return 't' if v[1] else 'f'
    if t == 'int':
        return 'i%d' % v[1]
    if t == 'real':
        return 'q%d/%d' % (v[1], 10 ** v[2])
    if t == 'str':
        return 's' + v[1].hex()
    if t == 'name':
        return 'm' + v[1].hex()
    if t == 'ref':
        return 'R%d.%d' % (v[1], v[2])
    if t == 'arr':
        return 'A(' + ','.join(show(x) for x in v[1]) + ')'
    if t == 'dict':
        return 'D(' + ','.join('%s:%s' % (k.hex(), show(x)) for k, x in sorted(v[1])) + ')'
    if t == 'stream':
        return 'S(D(' + ','.join('%s:%s' % (k.hex(), show(x)) for k, x in sorted(v[1])) + '),' + v[2].hex() + ')'
    raise ValueError(t)


def spell(rng, v):
    """a plain spelling (spellings are property C02's business)."""
    t = v[0]
    if t == 'null':
        return b'null'
    if t == 'bool':
        return b'true' if v[1] else b'false'
    if t == 'int':
        return b'%d' % v[1]
    if t == 'real':
        num, k = v[1], v[2]
        s = str(abs(num)).zfill(k + 1)
        return (b'-' if num < 0 else b'') + s[:-k].encode() + b'.' + s[-k:].encode()
    if t == 'str':
        if all(32 <= c < 127 and c not in b'()\\' for c in v[1]) and rng.random() < 0.6:
            return b'(' + v[1] + b')'
        return b'<' + v[1].hex().encode() + b'>'
    if t == 'name':
        return b'/' + v[1]
    if t == 'ref':
        return b'%d %d R' % (v[1], v[2])
    if t == 'arr':
        return b'[' + b' '.join(spell(rng, x) for x in v[1]) + b']'
    if t == 'dict':
        sep = rng.choice([b' ', b'\n', b'  '])
        return b'<<' + sep.join(b'/' + k + b' ' + spell(rng, x) for k, x in v[1]) + b'>>'
    raise ValueError(t)


NAMES = [b'Type', b'Kids', b'Count', b'Parent', b'A', b'B', b'Font', b'X1', b'Resources', b'MediaBox', b'Zz', b'Pages', b'Catalog']


def gen_prim(rng, maxnum=12):
    k = rng.randrange(8)
    if k == 0:
        return ('null',)
    if k == 1:
        return ('bool', rng.random() < 0.5)
    if k == 2:
        return ('int', rng.choice([0, 1, -1, 7, 42, 255, 65536, -300, 2 ** 31, rng.randrange(-10 ** 6, 10 ** 6)]))
    if k == 3:
        kk = rng.randrange(1, 4)
        num = rng.randrange(-10 ** 5, 10 ** 5)
        if num % 10 == 0:
            num += 1
        return ('real', num, kk)
    if k == 4:
        return ('str', bytes(rng.randrange(256) for _ in range(rng.randrange(0, 9))) if rng.random() < 0.4
                else bytes(rng.choice(b'abcdefXYZ 0123') for _ in range(rng.randrange(0, 9))))
    if k == 5:
        return ('name', rng.choice(NAMES))
    return ('ref', rng.randrange(1, maxnum + 1), rng.choice([0, 0, 0, 1]))


def gen_value(rng, depth=3, maxnum=12, top=False):
    r = rng.random()
    if depth <= 0 or r < 0.45:
        v = gen_prim(rng, maxnum)
        if top and v[0] == 'null' and rng.random() < 0.5:
            return ('int', 0)
        return v
    if r < 0.7:
        return ('arr', [gen_value(rng, depth - 1, maxnum) for _ in range(rng.randrange(0, 4))])
    return ('dict', gen_entries(rng, depth, maxnum))


def gen_entries(rng, depth, maxnum):
    ks = rng.sample(NAMES, rng.randrange(0, 4))
    out = []
    for k in ks:
        x = gen_value(rng, depth - 1, maxnum)
        if x[0] == 'null':          # a null-valued entry denotes an absent entry (C02); keep documents unambiguous
            x = ('int', 3)
        out.append((k, x))
    return out


TRICKY = [b'endstream', b'startxref\n0\n%%EOF\n', b'%%EOF', b'\nendstream\nendobj\n', b'trailer << /Root 9 0 R >>', b'xref\n0 1\n',
          b'%PDF-1.4', b'1 0 obj', b'endobj', b'stream\r\n']


def gen_payload(rng):
    parts = []
    for _ in range(rng.randrange(0, 4)):
        r = rng.random()
        if r < 0.45:
            parts.append(rng.choice(TRICKY))
        elif r < 0.75:
            parts.append(bytes(rng.randrange(256) for _ in range(rng.randrange(0, 24))))
        else:
            parts.append(bytes(rng.choice(b'BT ET Tj 0123 \n') for _ in range(rng.randrange(0, 24))))
    return b''.join(parts)


def gen_stream(rng, maxnum=12):
    ents = [(k, x) for k, x in gen_entries(rng, 2, maxnum) if k != b'Type']
    return ('stream', ents, gen_payload(rng))


# ------------------------------------------------------------------ history (specification level)
class Def:
    """object `num gen` gets value `val` in this revision.  place: 'file' or ('stm', k) = member of the k-th
    object stream of the revision.  lenmode (stream values / containers): 'direct' | ('ref', holder_num)."""

    def __init__(self, num, gen, val, place='file', lenmode='direct', kind='obj'):
        self.num, self.gen, self.val, self.place, self.lenmode, self.kind = num, gen, val, place, lenmode, kind
        # kind: 'obj' ordinary | 'objstm' container (val = index k) | 'holder' (an /Length holder)


class Free:
    def __init__(self, num, gen_written):
        self.num, self.gen = num, gen_written


class Rev:
    def __init__(self, ops, root, xkind='table', xid=None, opts=None):
        self.ops = ops              # list of Def / Free
        self.root = root            # ('ref', n, g) or None or another value
        self.xkind = xkind          # 'table' | 'stream' | 'hybrid'
        self.xid = xid              # (num, gen) of the xref stream object (stream / hybrid)
        self.opts = opts or {}      # layout options
        self.prev_override = None   # ('abs', n) | ('self',) | ('rev', j) | ('first',) | ('none',): mutate /Prev


def resolve(history):
    """THE SPECIFICATION: each object number resolves to its definition in the most recent revision that
    mentions it; a number whose most recent mention is a free entry is not defined.  Returns
    {(num, gen): text}.  The xref-stream objects are objects of the document too when their own section lists them."""
    table = {}
    for rev in history:
        for op in rev.ops:
            if isinstance(op, Free):
                table.pop(op.num, None)
            else:
                if op.kind == 'objstm':
                    txt = '*objstm'
                elif op.kind == 'xref':
                    txt = '*xref'
                else:
                    txt = show_with_length(op)
                table[op.num] = (op.gen, txt)
    return {(n, g): t for n, (g, t) in table.items()}


def show_with_length(op):
    v = op.val
    if v[0] != 'stream':
        return show(v)
    ents = list(v[1])
    if op.lenmode == 'direct':
        ents.append((b'Length', ('int', len(v[2]))))
    else:
        ents.append((b'Length', ('ref', op.lenmode[1], 0)))
    return show(('stream', ents, v[2]))


def latest_root(history):
    return history[-1].root


# ------------------------------------------------------------------ known-finding classes (computed on the history)
def history_flags(history):
    flags = set()
    # (a) a free entry written with a generation different from the generation the object is defined with
    cur = {}
    for rev in history:
        for op in rev.ops:
            if isinstance(op, Free):
                if op.num in cur and cur[op.num] != op.gen:
                    flags.add('a')
                cur.pop(op.num, None)
            else:
                cur[op.num] = op.gen
    # (b) a member of an object stream is redefined or freed by a later revision while the stream is still in use
    final = {}          # num -> ('stm', rev index, k) | 'file' | 'free'
    stm_members = {}    # (rev index, k) -> [num]
    for i, rev in enumerate(history):
        for op in rev.ops:
            if isinstance(op, Free):
                final[op.num] = 'free'
            elif op.place != 'file':
                final[op.num] = ('stm', i, op.place[1])
                stm_members.setdefault((i, op.place[1]), []).append(op.num)
            else:
                final[op.num] = 'file'
    for (i, k), nums in stm_members.items():
        live = [n for n in nums if final.get(n) == ('stm', i, k)]
        if live and len(live) != len(nums):
            flags.add('b')
    # (c) the id of an xref stream of some revision is also used by another object / xref stream of the history
    xids = [rev.xid for rev in history if rev.xkind in ('stream', 'hybrid') and rev.xid]
    if len(set(xids)) != len(xids):
        flags.add('c')
    for i, rev in enumerate(history):
        for op in rev.ops:
            if isinstance(op, Def) and op.kind != 'xref':
                for j, r2 in enumerate(history):
                    if r2.xkind in ('stream', 'hybrid') and r2.xid and r2.xid[0] == op.num:
                        flags.add('c')
            if isinstance(op, Free):
                for r2 in history:
                    if r2.xkind in ('stream', 'hybrid') and r2.xid and r2.xid[0] == op.num:
                        flags.add('c')
    # (d) the /Length of a stream is a reference to an object that lives in an object stream
    holders = set()
    for rev in history:
        for op in rev.ops:
            if isinstance(op, Def) and op.lenmode != 'direct':
                holders.add(op.lenmode[1])
    for rev in history:
        for op in rev.ops:
            if isinstance(op, Def) and op.num in holders and op.place != 'file':
                flags.add('d')
    return flags


# ------------------------------------------------------------------ renderer
def png_up(data, columns):
    assert len(data) % columns == 0
    out = bytearray()
    prev = bytes(columns)
    for i in range(0, len(data), columns):
        row = data[i:i + columns]
        out.append(2)
        out += bytes((row[j] - prev[j]) & 255 for j in range(columns))
        prev = row
    return bytes(out)


def be(v, w):
    return v.to_bytes(w, 'big') if w else b''


def need_width(v):
    w = 1
    while v >= 1 << (8 * w):
        w += 1
    return w


class Item:
    def __init__(self, kind, off, **kw):
        self.kind, self.off, self.f = kind, off, kw
        self.aliases = []
        self.next = None


def ent_text(e):
    num, gen, k, a, b = e
    if k == 's':
        return '%d.%d.s.%d.%d' % (num, gen, a, b)
    return '%d.%d.%s.%d' % (num, gen, k, a)


def lst(xs):
    xs = list(xs)
    return '+'.join(xs) if xs else '-'


def opt(x):
    return '-' if x is None else str(x)


def item_tokens(it):
    f = it.f
    if it.kind == 'X':
        if f['trailer'] is None:
            tail = '!;-;-'
        else:
            root, prev, xstm = f['trailer']
            tail = '%s;%s;%s' % ('-' if root is None else show(root), opt(prev), opt(xstm))
        body = 'X;%%d;%d;%s;%s' % (it.next, lst(ent_text(e) for e in f['ents']), tail)
    elif it.kind == 'T':
        body = 'T;%%d;%d;%d.%d;%s;%s;%s' % (it.next, f['id'][0], f['id'][1], lst(ent_text(e) for e in f['ents']),
                                           '-' if f['root'] is None else show(f['root']), opt(f['prev']))
    elif it.kind == 'O':
        body = 'O;%%d;%d;%d.%d;%s' % (it.next, f['id'][0], f['id'][1], f['text'])
    elif it.kind == 'M':
        lr = f['lenref']
        body = 'M;%%d;%d;%d.%d;%d;%s;%s' % (it.next, f['id'][0], f['id'][1], f['clen'],
                                           '-' if lr is None else '%d.%d' % lr,
                                           lst('%d=%s' % (n, t) for n, t in f['members']))
    else:
        body = 'G;%%d;%d' % it.next
    return [body % o for o in [it.off] + it.aliases]


class Renderer:
    """writes revisions one after the other; offsets are relative to the header."""

    def __init__(self, rng, version=b'1.5', binary=True):
        self.rng = rng
        self.b = bytearray(b'%PDF-' + version + b'\n')
        if binary:
            self.b += b'%\xe2\xe3\xcf\xd3\n'
        self.items = []
        self.sect_off = []         # offset of the (main) xref section of every revision
        self.mentioned = set()     # every (num, gen) that occurs anywhere

    # ---- low level
    def pad(self, heavy=False):
        r = self.rng
        if not heavy and r.random() < 0.6:
            return
        n = r.randrange(0, 3)
        for _ in range(n):
            k = r.random()
            if k < 0.5:
                self.b += r.choice([b' ', b'\n', b'\r\n', b'\t', b'  \n'])
            else:
                self.b += b'%' + bytes(r.choice(b'abc xyz12') for _ in range(r.randrange(0, 8))) + b'\n'

    def item(self, kind, data, **kw):
        it = Item(kind, len(self.b), **kw)
        self.b += data
        self.items.append(it)
        return it

    # ---- objects
    def stream_obj(self, num, gen, ents, payload, lenmode):
        r = self.rng
        d = list(ents)
        if lenmode == 'direct':
            d.append((b'Length', ('int', len(payload))))
        else:
            d.append((b'Length', ('ref', lenmode[1], 0)))
        r.shuffle(d)
        eol = r.choice([b'\n', b'\r\n'])
        tail = r.choice([b'\n', b'\r\n', b'', b'\r'])
        return (b'%d %d obj\n' % (num, gen) + spell(r, ('dict', d)) + r.choice([b'\n', b' ', b'']) + b'stream' + eol + payload + tail +
                b'endstream' + r.choice([b'\n', b' ', b'']) + b'endobj\n'), d

    def emit_def(self, op, containers):
        """returns the offset usable in an xref entry."""
        r = self.rng
        self.pad()
        pre = len(self.b)
        if r.random() < 0.25:
            self.b += r.choice([b' ', b'\n', b'\n\n', b'%c\n'])          # an entry may point at this padding
        if op.kind == 'objstm':
            members, payload, first, enc, ents = containers[op.val]
            data, _ = self.stream_obj(op.num, op.gen, ents, enc, op.lenmode)
            it = self.item('M', data, id=(op.num, op.gen), clen=len(enc),
                           lenref=None if op.lenmode == 'direct' else (op.lenmode[1], 0),
                           members=[(n, show(v)) for n, v in members])
        elif op.val[0] == 'stream':
            data, d = self.stream_obj(op.num, op.gen, op.val[1], op.val[2], op.lenmode)
            it = self.item('O', data, id=(op.num, op.gen), text=show(('stream', d, op.val[2])))
        else:
            sp = spell(r, op.val)
            sep = r.choice([b' ', b'\n', b'\r\n'])
            # a token that could run into the keyword needs a separator
            data = b'%d %d obj' % (op.num, op.gen) + sep + sp + r.choice([b'\n', b' ']) + b'endobj\n'
            it = self.item('O', data, id=(op.num, op.gen), text=show(op.val))
        start = it.off
        use = start
        if pre != start and r.random() < 0.5:
            use = pre
            it.aliases.append(pre)
        self.mentioned.add((op.num, op.gen))
        return use, it

    def build_container(self, members):
        """object-stream payload: `num ofs num ofs … ` then the objects.  returns (payload, first)."""
        r = self.rng
        bodies = []
        for n, v in members:
            bodies.append(spell(r, v))
        offs, cur, body = [], 0, bytearray()
        for i, sp in enumerate(bodies):
            if i > 0:
                sepb = r.choice([b' ', b'\n', b'  '])
                body += sepb
            offs.append(len(body))
            body += sp
        # the pinned parser requires strictly increasing offsets after the first
        head = b' '.join(b'%d %d' % (n, o) for (n, _), o in zip(members, offs)) + r.choice([b' ', b'\n'])
        return bytes(head + body), len(head)

    # ---- one revision
    def revision(self, rev, index, prev_off, size):
        r = self.rng
        defs = [op for op in rev.ops if isinstance(op, Def)]
        frees = [op for op in rev.ops if isinstance(op, Free)]
        # object-stream contents
        containers = {}
        for op in defs:
            if op.kind == 'objstm':
                mem = [(m.num, m.val) for m in defs if m.place == ('stm', op.val)]
                payload, first = self.build_container(mem)
                ents = [(b'Type', ('name', b'ObjStm')), (b'N', ('int', len(mem))), (b'First', ('int', first))]
                enc = payload
                mode = getattr(op, 'filt', 'none')
                if mode == 'flate':
                    enc = zlib.compress(payload)
                    ents.append((b'Filter', ('name', b'FlateDecode')))
                elif mode == 'up':
                    cols = getattr(op, 'cols', 4)
                    padded = payload + b' ' * ((-len(payload)) % cols)
                    enc = zlib.compress(png_up(padded, cols))
                    ents.append((b'Filter', ('name', b'FlateDecode')))
                    ents.append((b'DecodeParms', ('dict', [(b'Predictor', ('int', 12)), (b'Columns', ('int', cols))])))
                containers[op.val] = (mem, payload, first, enc, ents)
                if op.lenmode != 'direct':                      # the holder must carry the encoded length
                    for h in defs:
                        if h.kind == 'holder' and h.num == op.lenmode[1]:
                            h.val = ('int', len(enc))
        infile = [op for op in defs if op.place == 'file' and op.kind != 'xref']
        order = list(infile)
        if rev.opts.get('shuffle', True):
            r.shuffle(order)
        # forward / backward placement of /Length holders
        fw = rev.opts.get('holder_pos')
        if fw in ('after', 'before'):
            holders = [op for op in order if op.kind == 'holder']
            rest = [op for op in order if op.kind != 'holder']
            order = rest + holders if fw == 'after' else holders + rest
        offs = {}
        wrong = rev.opts.get('wrong_id', {})
        for op in order:
            if op.num in wrong:                                  # header id differs from the xref entry
                real = (op.num, op.gen)
                op.num, op.gen = wrong[op.num]
                o, _ = self.emit_def(op, containers)
                op.num, op.gen = real
                offs[op.num] = o
            else:
                offs[op.num], _ = self.emit_def(op, containers)
        if rev.opts.get('swap'):
            a, b = rev.opts['swap']
            offs[a], offs[b] = offs[b], offs[a]
        ents = []
        for op in defs:
            if op.kind == 'xref':
                continue
            if op.place == 'file':
                ents.append((op.num, op.gen, 'n', offs[op.num], 0))
            else:
                k = op.place[1]
                cont = [c for c in defs if c.kind == 'objstm' and c.val == k][0]
                idx = [n for n, _ in containers[k][0]].index(op.num)
                ents.append((op.num, 0, 's', rev.opts.get('bad_container', cont.num), idx))
        for op in frees:
            ents.append((op.num, op.gen, 'f', 0, 0))
            self.mentioned.add((op.num, op.gen))
        if rev.opts.get('obj0', index == 0) and not any(e[0] == 0 for e in ents):
            ents.append((0, 65535, 'f', 0, 0))
        ents.sort(key=lambda e: e[0])
        self.pad()
        root = rev.root
        po = rev.prev_override
        prev = prev_off
        # /Prev mutations that do not need the final layout are resolved here; the others are patched by fix_prev
        xkind = rev.xkind
        if xkind == 'table':
            self.sect_off.append(len(self.b))
            self.xref_table(ents, ents_stream=None, root=root, prev=prev, xstm=None, size=size, rev=rev)
        elif xkind == 'stream':
            self.sect_off.append(len(self.b))
            self.xref_stream(rev, ents, root, prev, size, selfent=rev.opts.get('selfent', True))
        else:   # hybrid: type-2 entries (and whatever else the layout puts there) live in the /XRefStm stream
            in_stm = [e for e in ents if e[2] == 's']
            in_tab = [e for e in ents if e[2] != 's']
            if rev.opts.get('hybrid_dup'):
                in_stm = in_stm + [e for e in in_tab if e[2] == 'n'][:2]
                in_stm.sort(key=lambda e: e[0])
            xoff = len(self.b)
            junk = rev.opts.get('hybrid_junk')
            self.xref_stream(rev, in_stm, ('ref', 99, 0) if junk else None, xoff if junk else None, size, selfent=False, hybrid_part=True)
            self.pad()
            in_tab.append((rev.xid[0], rev.xid[1], 'n', xoff, 0))
            in_tab.sort(key=lambda e: e[0])
            self.sect_off.append(len(self.b))
            self.xref_table(in_tab, None, root, prev, rev.opts.get('xrefstm_override', xoff), size, rev)
        # startxref block (garbage for every object / xref parser)
        sx = self.sect_off[-1]
        if rev.opts.get('sx_override') is not None:
            sx = rev.opts['sx_override']
        blk = b'startxref\n%d\n' % sx
        if rev.opts.get('eof', True):
            blk += b'%%EOF' + r.choice([b'\n', b'\r\n', b''])
        self.item('G', blk)

    def xref_table(self, ents, ents_stream, root, prev, xstm, size, rev):
        r = self.rng
        out = bytearray(b'xref' + r.choice([b'\n', b'\r\n', b' \n']))
        # subsections: maximal runs, optionally split further
        runs = []
        for e in ents:
            if runs and runs[-1][-1][0] + 1 == e[0] and r.random() < 0.85:
                runs[-1].append(e)
            else:
                runs.append([e])
        if not runs:
            runs = [[]]
        for run in runs:
            out += b'%d %d\n' % (run[0][0] if run else 0, len(run))
            for (num, gen, k, a, b) in run:
                out += b'%010d %05d %s' % (a, gen, b'n' if k == 'n' else b'f') + r.choice([b' \n', b' \r', b'\r\n'])
        tr = None
        if not rev.opts.get('no_trailer'):
            d = [(b'Size', ('int', size))]
            if root is not None:
                d.append((b'Root', root))
            if prev is not None:
                d.append((b'Prev', ('int', prev)))
            if xstm is not None:
                d.append((b'XRefStm', ('int', xstm)))
            r.shuffle(d)
            out += b'trailer' + r.choice([b'\n', b' ', b'']) + spell(r, ('dict', d)) + b'\n'
            tr = (root, prev, xstm)
        it = self.item('X', bytes(out), ents=[e for run in runs for e in run], trailer=tr)
        it.patch = ('table', len(it.f['ents']))
        for e in ents:
            self.mentioned.add((e[0], e[1]))
        return it

    def xref_stream(self, rev, ents, root, prev, size, selfent, hybrid_part=False):
        r = self.rng
        xid = rev.xid
        off = len(self.b)
        ents = list(ents)
        if selfent and not any(e[0] == xid[0] for e in ents):
            ents.append((xid[0], xid[1], 'n', off, 0))
            ents.sort(key=lambda e: e[0])
        use_index = rev.opts.get('index', True)
        if not use_index:
            have = {e[0] for e in ents}
            top = max([size] + [e[0] + 1 for e in ents])
            size = top
            for n in range(top):
                if n not in have:
                    ents.append((n, 65535 if n == 0 else 0, 'f', 0, 0))
            ents.sort(key=lambda e: e[0])
            runs = [ents]
        else:
            runs = []
            for e in ents:
                if runs and runs[-1][-1][0] + 1 == e[0] and r.random() < 0.85:
                    runs[-1].append(e)
                else:
                    runs.append([e])
            # /Index subsections are disjoint but need not be ascending (e.g. a writer that lists the xref
            # stream's own entry first): any order, single-entry and adjacent subsections included
            mode = rev.opts.get('index_order')
            if mode is None:
                mode = r.choice(['asc', 'asc', 'shuffle', 'shuffle', 'reverse', 'self_first', 'singles'])
            if mode == 'singles':
                runs = [[e] for run in runs for e in run]
                r.shuffle(runs)
            elif mode == 'shuffle':
                r.shuffle(runs)
            elif mode == 'reverse':
                runs.reverse()
            elif mode == 'self_first':
                mine = [run for run in runs if any(e[0] == xid[0] for e in run)]
                if mine:
                    run = mine[0]
                    runs.remove(run)
                    me = [e for e in run if e[0] == xid[0]]
                    lo = [e for e in run if e[0] < xid[0]]
                    hi = [e for e in run if e[0] > xid[0]]
                    runs = [me] + [x for x in (lo, hi) if x] + runs
        flat = [e for run in runs for e in run]
        # field values
        rows = []
        for (num, gen, k, a, b) in flat:
            if k == 'f':
                rows.append((0, a, gen))
            elif k == 'n':
                rows.append((1, a, gen))
            else:
                rows.append((2, a, b))
        w1 = max([need_width(x[1]) for x in rows] + [1])
        w2 = max([need_width(x[2]) for x in rows] + [1])
        W = rev.opts.get('W')
        all1 = all(x[0] == 1 for x in rows)
        all0 = all(x[2] == 0 for x in rows)
        if W is None:
            w0 = 0 if (all1 and r.random() < 0.7) else r.choice([1, 1, 1, 2])     # /W [0 n m]: legal when every entry is type 1
            w1 = r.randrange(w1, 5)
            w2 = 0 if (all0 and r.random() < 0.5) else r.randrange(w2, 5)
            W = (w0, w1, w2)
        else:
            W = (W[0] if (W[0] > 0 or all1) else 1, max(W[1], w1), 0 if (W[2] == 0 and all0) else max(W[2], w2))
        raw = b''.join(be(t, W[0]) + be(a, W[1]) + be(b, W[2]) for t, a, b in rows)
        d = [(b'Type', ('name', b'XRef')), (b'Size', ('int', size)), (b'W', ('arr', [('int', x) for x in W]))]
        if use_index:
            d.append((b'Index', ('arr', [('int', x) for run in runs for x in (run[0][0], len(run))])))
        if root is not None:
            d.append((b'Root', root))
        if prev is not None:
            d.append((b'Prev', ('int', prev)))
        filt = rev.opts.get('xfilt', 'none')
        enc = raw
        if filt == 'flate':
            enc = zlib.compress(raw)
            d.append((b'Filter', ('name', b'FlateDecode')))
        elif filt == 'up' and sum(W) > 0 and raw:
            enc = zlib.compress(png_up(raw, sum(W)))
            d.append((b'Filter', ('name', b'FlateDecode')))
            d.append((b'DecodeParms', ('dict', [(b'Predictor', ('int', 12)), (b'Columns', ('int', sum(W)))])))
        data, _ = self.stream_obj(xid[0], xid[1], d, enc, 'direct')
        if rev.opts.get('junk_before_xstm') and not hybrid_part:
            # garbage-then-xref-stream: the start of an indirect object that does not end, glued in front of the
            # xref-stream object, and startxref / the newer /Prev pointing AT THE GARBAGE.  IndirectP fails there only
            # after having moved the cursor up to the xref-stream object.
            self.sect_off[-1] = len(self.b)
            self.item('G', rev.opts['junk_before_xstm'])
        it = self.item('T', data, id=xid, ents=flat, root=root, prev=prev)
        for e in flat:
            self.mentioned.add((e[0], e[1]))
        self.mentioned.add(xid)
        return it

    # ---- finish
    def finish(self, garbage=b''):
        body = bytes(self.b)
        flen = len(body)
        items = self.items
        for i, it in enumerate(items):
            it.next = items[i + 1].off if i + 1 < len(items) else flen
        if items and items[0].off != 0:
            items[0].aliases.append(0)            # the header is a comment: whitespace for every parser
        return garbage + body, flen, items


def find_startxref(body):
    """what parse_data's two backward scans + StartXrefP compute on the view that starts at the header."""
    pos = len(body)
    e = body.rfind(b'%%EOF', 0, pos)
    if e >= 0:
        pos = e
    s = body.rfind(b'startxref', 0, pos)
    if s < 0:
        return None
    i = s + 9
    j = i
    while j < len(body) and body[j] in WS:
        j += 1
    if j == i:
        return None
    k = j
    while k < len(body) and 48 <= body[k] <= 57:
        k += 1
    if k == j:
        return None
    return int(body[j:k])


def render_once(seed, history, garbage, sect_guess):
    import random
    rng = random.Random(seed)
    R = Renderer(rng, version=rng.choice([b'1.4', b'1.5', b'1.7']), binary=rng.random() < 0.8)
    prev = None
    size = 1 + max([op.num for rev in history for op in rev.ops] + [rev.xid[0] for rev in history if rev.xid] + [0])
    for i, rev in enumerate(history):
        po = rev.prev_override
        p = prev
        if po is not None:
            if po[0] == 'abs':
                p = po[1]
            elif po[0] == 'none':
                p = None
            elif po[0] == 'rev':
                p = sect_guess[po[1]] if po[1] < len(sect_guess) else 10 ** 6
            elif po[0] == 'flen':
                p = sect_guess[-1] + po[1] if sect_guess else 10 ** 6      # sect_guess[-1] carries flen
            elif po[0] == 'item':
                p = sect_guess[-2] if len(sect_guess) > 1 else 10 ** 6     # sect_guess[-2] carries an object offset
        R.revision(rev, i, p, size)
        prev = R.sect_off[-1]
    return R


def render_history(seed, history, garbage=b'', kind=None, extra_flags=()):
    """returns (case line, info).  Rendering is repeated with the same seed until the offsets that /Prev
    overrides refer to are stable."""
    import copy
    guess = []
    R = None
    for _ in range(6):
        h = copy.deepcopy(history)
        R = render_once(seed, h, garbage, guess)
        objs = [it.off for it in R.items if it.kind == 'O']
        g2 = list(R.sect_off) + [objs[len(objs) // 2] if objs else 0, len(R.b)]
        if g2 == guess:
            break
        guess = g2
    else:
        return None, None
    history = h
    data, flen, items = R.finish(garbage)
    assert data.find(b'%PDF-') in (len(garbage), -1)
    body = data[len(garbage):]
    exp = resolve(history)
    root = latest_root(history)
    flags = set(history_flags(history)) | set(extra_flags)
    bk = set(rev.xid for rev in history if rev.xid)
    probes = set(R.mentioned) | set(exp) | bk
    for (n, g) in list(probes):
        probes.add((n, g + 1))
        if g > 0:
            probes.add((n, g - 1))
        probes.add((n, 0))
    if root is not None and root[0] == 'ref':
        probes.add((root[1], root[2]))
    probes = sorted(probes)
    sx = find_startxref(body)
    spec = '~'.join([kind or 'wf', ''.join(sorted(flags)) or '-',
                     '%d.%d' % (root[1], root[2]) if root is not None and root[0] == 'ref' else '-',
                     lst('%d.%d' % i for i in sorted(bk)),
                     lst('%d.%d=%s' % (n, g, t) for (n, g), t in sorted(exp.items()))])
    toks = ['L', str(flen), '1' if b'%PDF-' in data else '0', opt(sx), lst('%d.%d' % p for p in probes), spec, data.hex() or '-']
    for it in items:
        toks += item_tokens(it)
    return ' '.join(toks), dict(data=data, flen=flen, items=items, sect_off=R.sect_off, body=body, history=history)


# ------------------------------------------------------------------ oracle helpers
def parse_spec(case):
    t = case.split(' ')
    kind, flags, root, bk, exp = t[5].split('~')
    E = {}
    if exp != '-':
        for p in exp.split('+'):
            k, v = p.split('=', 1)
            E[k] = v
    return dict(kind=kind, flags='' if flags == '-' else flags, root=None if root == '-' else root,
                bk=set() if bk == '-' else set(bk.split('+')), exp=E, ntok=len(t))


def split_items(obs):
    """(outcome part, items verdict) of an observation `<outcome> items=ok|items=bad:…`."""
    i = obs.rfind(' items=')
    if i < 0:
        return obs, None
    return obs[:i], obs[i + 7:]


def parse_obs(obs):
    obs, _ = split_items(obs)
    t = obs.split(' ')
    if t[0] != 'loaded':
        return None
    O = {}
    for p in t[2:]:
        k, v = p.split('=', 1)
        O[k] = v
    return t[1][len('root='):], O


def oracle_common(case, obs):
    S = parse_spec(case)
    kind = S['kind']
    obs, items = split_items(obs)
    if items is not None and items != 'ok':
        # the abstract description given to the model is not what the real parsers find in the bytes:
        # a defect of the generator / renderer (it also shows as a model-vs-implementation disagreement)
        return 'abstract description not confirmed by the real parsers: %s' % items[:200]
    if kind == 'other':
        return None
    if obs in ('panic', 'timeout', 'missing') or obs.startswith('crash'):
        return 'loader did not answer: %s' % obs
    if kind in ('cycle', 'oob', 'idmis'):
        return None if obs == 'rejected' else 'expected rejection (%s), implementation gave "%s"' % (kind, obs[:80])
    # wf
    po = parse_obs(obs)
    if po is None:
        return 'well-formed document was not loaded: "%s"' % obs[:80]
    root, O = po
    if root != S['root']:
        return 'root %s, expected %s (the most recent trailer)' % (root, S['root'])
    for k in sorted(set(O) | set(S['exp']), key=lambda s: tuple(int(x) for x in s.split('.'))):
        if k in S['exp']:
            if O.get(k) != S['exp'][k]:
                return 'object %s: expected %s, loader has %s' % (k, S['exp'][k][:60], str(O.get(k))[:60])
        elif not (k in S['bk'] and O[k].startswith('*')):
            return 'object %s is defined (%s) but the document does not define it' % (k, O[k][:60])
    return None


# ------------------------------------------------------------------ generators
def gen_garbage(rng):
    n = rng.choice([0, 0, 1, 5, 17, 200])
    g = bytes(rng.randrange(256) for _ in range(n))
    return g.replace(b'%PDF-', b'%PDX-')


def gen_history(rng, nrev, nobj=(3, 8), maxnum=12, kinds=('table', 'stream', 'hybrid'), objstm=0.5, lenref=0.4,
                free_modes=('same', 'same', 'incr', 'incr', 'any'), gens=True, streams=0.3, holder_in_stm=0.0, xid_reuse=0.0,
                opts=None, pfree=0.35):
    """a history of nrev revisions over object numbers 1..maxnum; bookkeeping objects use numbers >= maxnum+8."""
    bk = [maxnum + 8]

    def fresh():
        bk[0] += 1
        return bk[0] - 1

    cur, lastgen, history = {}, {}, []
    old_xids = []
    reserved = set()        # low numbers taken by /Length holders: never touched by later revisions
    for i in range(nrev):
        xkind = rng.choice(kinds)
        ops = []
        used_low = set()
        lo, hi = nobj if i == 0 else (1, min(6, maxnum))
        pool = [x for x in range(1, maxnum + 1) if x not in reserved]
        nums = rng.sample(pool, min(len(pool), rng.randrange(lo, hi + 1)))
        nstm = rng.randrange(1, 3) if (xkind != 'table' and rng.random() < objstm) else 0
        for num in nums:
            if num in cur and i > 0 and rng.random() < pfree:
                g = cur[num]
                mode = rng.choice(free_modes)
                if mode == 'same':
                    gw = g
                elif mode == 'incr':
                    gw = min(g + 1, 65535)      # a generation is a 5-digit / 16-bit field: never beyond 65535
                else:                       # any other generation is a legal spelling of a free entry too
                    gw = rng.choice([65535, 65535, 1, 2, 65534])
                ops.append(Free(num, gw))
                del cur[num]
                lastgen[num] = gw
                if gw >= 65535:
                    reserved.add(num)       # deleted and never reusable
                continue
            if num in cur:
                g = min(cur[num] + (1 if (gens and rng.random() < 0.1) else 0), 65535)
            else:
                g = lastgen.get(num, rng.choice([0, 0, 0, 0, 1, 2]) if gens else 0)
            is_stream = rng.random() < streams
            val = gen_stream(rng, maxnum) if is_stream else gen_value(rng, 3, maxnum, top=True)
            place, lenmode = 'file', 'direct'
            if not is_stream and g == 0 and nstm and rng.random() < 0.6:
                place = ('stm', rng.randrange(nstm))
            if is_stream and rng.random() < lenref:
                low = [x for x in range(1, maxnum + 1) if x not in nums and x not in cur and x not in lastgen and x not in used_low and x not in reserved]
                if low and rng.random() < 0.5:
                    h = rng.choice(low)
                    used_low.add(h)
                    reserved.add(h)
                else:
                    h = fresh()
                lenmode = ('ref', h)
                hp = 'file'
                if nstm and rng.random() < holder_in_stm:
                    hp = ('stm', rng.randrange(nstm))
                ops.append(Def(h, 0, ('int', len(val[2])), place=hp, kind='holder'))
            ops.append(Def(num, g, val, place, lenmode))
            cur[num] = g
            lastgen[num] = g
        if i == 0 and rng.random() < 0.5:
            # free entries for numbers the document does not use, in assorted generations
            unused = [x for x in pool if x not in nums and x not in used_low]
            for num in rng.sample(unused, min(len(unused), rng.randrange(1, 3))):
                gw = rng.choice([0, 1, 2, 65534, 65535, 65535])
                ops.append(Free(num, gw))
                lastgen[num] = gw
                if gw >= 65535:
                    reserved.add(num)
        for k in range(nstm):
            if any(isinstance(op, Def) and op.place == ('stm', k) for op in ops):
                c = Def(fresh(), 0, k, kind='objstm')
                c.filt = rng.choice(['none', 'flate', 'up'])
                c.cols = rng.randrange(1, 9)
                if rng.random() < lenref:
                    h = fresh()
                    c.lenmode = ('ref', h)
                    ops.append(Def(h, 0, ('int', 0), kind='holder'))
                ops.append(c)
        o = dict(shuffle=True, holder_pos=rng.choice([None, 'after', 'before']),
                 index=True if i > 0 else rng.random() < 0.5, xfilt=rng.choice(['none', 'flate', 'up']),
                 selfent=rng.random() < 0.7, hybrid_dup=rng.random() < 0.15, hybrid_junk=rng.random() < 0.3)
        if xkind == 'stream' and o['index'] and rng.random() < 0.5:
            o['obj0'] = False            # with /Index the section need not list object 0: all entries can be type 1
        if opts:
            o.update(opts)
        xid = None
        if xkind != 'table':
            if old_xids and rng.random() < xid_reuse:
                xid = rng.choice(old_xids)
            else:
                xid = (fresh(), 0)
            old_xids.append(xid)
            if xkind == 'hybrid' or o['selfent']:
                ops.append(Def(xid[0], xid[1], None, kind='xref'))
        rootnum = rng.choice(sorted(cur)) if cur else 1
        root = ('ref', rootnum, cur.get(rootnum, 0))
        history.append(Rev(ops, root, xkind, xid, o))
    return history


def one_case(rng, history, garbage=b'', kind=None, extra_flags=()):
    line, info = render_history(rng.getrandbits(48), history, garbage, kind, extra_flags)
    return line


def mutate_prev(rng, history, what):
    """what: 'self' | 'newer' | 'len' | 'len1' | 'huge' | 'zero' | 'obj' | 'lenm1' — returns (history, kind)."""
    n = len(history)
    i = rng.randrange(n)
    rev = history[i]
    if what == 'self':
        rev.prev_override = ('rev', i)
        return 'cycle'
    if what == 'newer':
        if i == n - 1:
            rev.prev_override = ('rev', i)
        else:
            rev.prev_override = ('rev', rng.randrange(i + 1, n))
        return 'cycle'
    if what == 'len':
        rev.prev_override = ('flen', 0)
        return 'oob'
    if what == 'len1':
        rev.prev_override = ('flen', 1)
        return 'oob'
    if what == 'huge':
        rev.prev_override = ('abs', 2 ** 63 - 1)
        return 'oob'
    if what == 'zero':
        rev.prev_override = ('abs', 0)
        return 'other'
    if what == 'obj':
        rev.prev_override = ('item',)
        return 'other'
    rev.prev_override = ('flen', -1)
    return 'other'


# ------------------------------------------------------------------ tiny hand-made cases (short enough for pv's vm_compute cross-check of the extraction)
def tiny_cases():
    out = []

    def mk(objs, sections, kind='wf', exp=None, root='1.0', probes=None):
        """objs: [(num, gen, pdf text, canonical text)], sections: [(entries [(num,gen,'n'|'f',target num or 0)], root text or None, prev index/abs/None)]"""
        b = bytearray(b'%PDF-1.4\n')
        items = []
        offs = {}
        seq = []
        secoff = []
        oi = 0
        for sec_i, (nobj, ents, rt, pv) in enumerate(sections):
            for (num, gen, txt, can) in objs[oi:oi + nobj]:
                offs[(num, gen)] = len(b)
                seq.append(['O', len(b), '%d.%d;%s' % (num, gen, can)])
                b += b'%d %d obj %s endobj\n' % (num, gen, txt)
            oi += nobj
            so = len(b)
            secoff.append(so)
            b += b'xref\n'
            et = []
            for (num, gen, k, tgt) in ents:
                o = offs.get((num, tgt), 0) if k == 'n' else 0
                if k == 'n' and isinstance(tgt, tuple):
                    o = offs[tgt]
                b += b'%d 1\n%010d %05d %s \n' % (num, o, gen, k.encode())
                et.append('%d.%d.%s.%d' % (num, gen, k, o))
            p = None
            if pv is not None:
                p = secoff[pv[1]] if pv[0] == 'sec' else pv[1]
            b += b'trailer<<' + (b'/Root %s' % rt if rt else b'') + (b'/Prev %d' % p if p is not None else b'') + b'>>\n'
            rcan = '-'
            if rt:
                w = rt.split()
                rcan = 'R%s.%s' % (w[0].decode(), w[1].decode()) if rt.endswith(b'R') else 'i' + rt.decode()
            seq.append(['X', so, '%s;%s;%s;-' % (lst(et), rcan, opt(p))])
            g = len(b)
            b += b'startxref\n%d\n%%%%EOF\n' % so
            seq.append(['G', g, ''])
        flen = len(b)
        toks = []
        for i, (k, off, rest) in enumerate(seq):
            nx = seq[i + 1][1] if i + 1 < len(seq) else flen
            body = '%s;%%d;%d%s' % (k, nx, (';' + rest) if rest else '')
            toks.append(body % off)
            if i == 0 and off != 0:
                toks.append(body % 0)
        sx = find_startxref(bytes(b))
        pr = probes or sorted(set((n, g) for (n, g, _, _) in objs) | set((n, g) for _, es, _, _ in sections for (n, g, _, _) in es))
        spec = '~'.join([kind, '-', root if kind == 'wf' else '-', '-', lst('%s=%s' % kv for kv in (exp or [])) if kind == 'wf' else '-'])
        out.append(' '.join(['L', str(flen), '1', opt(sx), lst('%d.%d' % q for q in pr), spec, bytes(b).hex()] + toks))

    R = b'1 0 R'
    mk([(1, 0, b'7', 'i7')], [(1, [(1, 0, 'n', 0)], R, None)], exp=[('1.0', 'i7')])
    mk([(1, 0, b'[/A (x)]', 'A(m41,s78)')], [(1, [(1, 0, 'n', 0)], R, None)], exp=[('1.0', 'A(m41,s78)')])
    mk([(1, 0, b'<</K 2 0 R>>', 'D(4b:R2.0)'), (2, 0, b'true', 't')], [(2, [(1, 0, 'n', 0), (2, 0, 'n', 0)], R, None)],
       exp=[('1.0', 'D(4b:R2.0)'), ('2.0', 't')])
    # freed in the same table / identity mismatches / cycle / out of range
    mk([(1, 0, b'7', 'i7')], [(1, [(1, 0, 'n', 0), (2, 0, 'f', 0)], R, None)], exp=[('1.0', 'i7')])
    mk([(1, 0, b'7', 'i7')], [(1, [(1, 1, 'n', (1, 0))], R, None)], kind='idmis')
    mk([(2, 0, b'7', 'i7')], [(1, [(1, 0, 'n', (2, 0))], R, None)], kind='idmis')
    mk([(1, 0, b'7', 'i7')], [(1, [(1, 0, 'n', 0)], R, ('sec', 0))], kind='cycle')
    mk([(1, 0, b'7', 'i7')], [(1, [(1, 0, 'n', 0)], R, ('abs', 2 ** 63 - 1))], kind='oob')
    mk([(1, 0, b'7', 'i7')], [(1, [(1, 0, 'n', 0)], R, ('abs', 3))], kind='other')
    mk([(1, 0, b'7', 'i7')], [(1, [(1, 0, 'n', 0)], None, None)], kind='other')
    mk([(1, 0, b'7', 'i7')], [(1, [(1, 0, 'n', 0)], b'5', None)], kind='other')
    # two revisions: redefinition / free with incremented generation
    mk([(1, 0, b'7', 'i7'), (1, 0, b'8', 'i8')], [(1, [(1, 0, 'n', 0)], R, None), (1, [(1, 0, 'n', 0)], R, ('sec', 0))], exp=[('1.0', 'i8')])
    mk([(1, 0, b'7', 'i7'), (2, 0, b'8', 'i8')], [(2, [(1, 0, 'n', 0), (2, 0, 'n', 0)], R, None), (0, [(2, 1, 'f', 0)], R, ('sec', 0))],
       exp=[('1.0', 'i7')])
    return out
