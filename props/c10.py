"""C10 — the shipped catalog and page-tree specification is enforced."""
import os, re, subprocess, hashlib, shutil, glob

ID = 'C10'
PROFILES = ['debug']
THEOREMS = ['C10_dump_is_spec', 'C10_dump_read', 'C10_catalog_keys', 'C10_root_node_keys', 'C10_inner_node_keys', 'C10_page_keys', 'C10_template_keys', 'C10_type_names', 'C10_kids_indirect', 'C10_kid_alternatives', 'C10_recursion_by_name', 'C10_parent_checks', 'C10_rectangles', 'C10_iso_name_lists', 'C10_optional_entries', 'C10_predicates', 'C10_no_pinned_predicates', 'C10_shape', 'C10_accepts_decl', 'C10_rejects_decl', 'C10_accepts', 'C10_rejects_except_known', 'C10_rejects_not_accepted', 'C10_mutation_weaken', 'C10_example_checked', 'C10_any_typed_entries_refuted', 'C10_numtree_pinned_refuted', 'C10_date_pinned_refuted']
ROOT = os.path.dirname(os.path.dirname(os.path.abspath(__file__)))

SRC_FILES = ['catalog.rs', 'page_tree.rs', 'page.rs', 'common_data_structures.rs', 'name_tree.rs', 'number_tree.rs']

# ====================================================================== objects (python side)
# ('n',) ('b',bool) ('i',int) ('q',num,den) ('s',bytes) ('m',bytes) ('c',bytes) ('R',num,gen)
# ('A',[objs]) ('D',{bytes:obj}) ('S',{bytes:obj},bytes)
NULL = ('n',)


def N(s):
    return ('m', s.encode() if isinstance(s, str) else bytes(s))


def S(s):
    return ('s', s.encode() if isinstance(s, str) else bytes(s))


def I(i):
    return ('i', int(i))


def Q(n, d=1):
    return ('q', int(n), int(d))


def R(n, g=0):
    return ('R', int(n), int(g))


def A(*xs):
    return ('A', list(xs))


def D(**kw):
    return ('D', {k.encode(): v for k, v in kw.items()})


def DD(pairs):
    return ('D', {(k.encode() if isinstance(k, str) else bytes(k)): v for k, v in pairs})


def STM(d=None, content=b''):
    return ('S', dict(d or {}), bytes(content))


def show(o):
    t = o[0]
    if t == 'n':
        return 'n'
    if t == 'b':
        return 't' if o[1] else 'f'
    if t == 'i':
        return 'i%d' % o[1]
    if t == 'q':
        return 'q%d/%d' % (o[1], o[2])
    if t in ('s', 'm', 'c'):
        return t + o[1].hex()
    if t == 'R':
        return 'R%d.%d' % (o[1], o[2])
    if t == 'A':
        return 'A(' + ','.join(show(x) for x in o[1]) + ')'
    if t == 'D':
        return 'D(' + ','.join('%s:%s' % (k.hex(), show(o[1][k])) for k in sorted(o[1])) + ')'
    if t == 'S':
        return 'S(D(' + ','.join('%s:%s' % (k.hex(), show(o[1][k])) for k in sorted(o[1])) + '),' + o[2].hex() + ')'
    raise ValueError(o)


def parse_obj(s):
    o, i = _pobj(s, 0)
    if i != len(s):
        raise ValueError('trailing text in object')
    return o


def _hex(s, i):
    j = i
    while j < len(s) and s[j] in '0123456789abcdefABCDEF':
        j += 1
    return bytes.fromhex(s[i:j]), j


def _num(s, i):
    j = i
    while j < len(s) and (s[j].isdigit() or s[j] == '-'):
        j += 1
    return int(s[i:j]), j


def _pdict(s, i):
    d = {}
    while True:
        if s[i] == ')':
            return d, i + 1
        if s[i] == ',':
            i += 1
            continue
        k, i = _hex(s, i)
        assert s[i] == ':'
        v, i = _pobj(s, i + 1)
        d[k] = v


def _pobj(s, i):
    c = s[i]
    i += 1
    if c == 'n':
        return NULL, i
    if c == 't':
        return ('b', True), i
    if c == 'f':
        return ('b', False), i
    if c == 'i':
        v, i = _num(s, i)
        return ('i', v), i
    if c == 'q':
        n, i = _num(s, i)
        assert s[i] == '/'
        d, i = _num(s, i + 1)
        return ('q', n, d), i
    if c in 'smc':
        h, i = _hex(s, i)
        return (c, h), i
    if c == 'R':
        n, i = _num(s, i)
        assert s[i] == '.'
        g, i = _num(s, i + 1)
        return ('R', n, g), i
    if c == 'A':
        assert s[i] == '('
        i += 1
        xs = []
        while True:
            if s[i] == ')':
                return ('A', xs), i + 1
            if s[i] == ',':
                i += 1
                continue
            x, i = _pobj(s, i)
            xs.append(x)
    if c == 'D':
        assert s[i] == '('
        d, i = _pdict(s, i + 1)
        return ('D', d), i
    if c == 'S':
        assert s[i:i + 3] == '(D('
        d, i = _pdict(s, i + 3)
        assert s[i] == ','
        h, i = _hex(s, i + 1)
        assert s[i] == ')'
        return ('S', d, h), i + 1
    raise ValueError('bad object tag %r' % c)


def show_ctx(objs):
    return ';'.join('%d.%d=%s' % (k[0], k[1], show(v)) for k, v in sorted(objs.items())) or '-'


# ====================================================================== reference predicates (python)
_DATE_TAIL = (r"(([0][1-9]|[1][0-2])(([0][1-9]|[1-2][0-9]|[3][0-1])(([0-1][0-9]|[2][0-3])(([0-5][0-9])"
              r"(([0-5][0-9])([+\-Z](([0-1][0-9]'|[2][0-3]')([0-5][0-9](')?)?)?)?)?)?)?)?)?\Z")
_DATE_ASCII = re.compile(r"\AD:[0-9]{4}" + _DATE_TAIL)
_DATE_UNI = re.compile(r"\AD:\d{4}" + _DATE_TAIL)       # python's \d on str = Unicode Nd, as the regex crate's


def py_date(o, unicode_digits=False):
    if o[0] != 's':
        return False
    try:
        s = o[1].decode('utf-8')
    except UnicodeDecodeError:
        return False
    return bool((_DATE_UNI if unicode_digits else _DATE_ASCII).match(s))


def py_tree(o, pairs_key, shape_key, keytag):
    if o[0] != 'D':
        return False
    d = o[1]
    a = d.get(pairs_key)
    if a is not None:
        if a[0] != 'A' or len(a[1]) % 2:
            return False
        for i in range(0, len(a[1]), 2):
            if a[1][i][0] != keytag or a[1][i + 1][0] != 'R':
                return False
    a = d.get(b'Limits')
    if a is not None and a[0] == 'A':
        if any(x[0] != keytag for x in a[1]) or len(a[1]) != 2:
            return False
    a = d.get(b'Kids')
    if a is not None:
        if a[0] != 'A' or any(x[0] != 'R' for x in a[1]):
            return False
    n, l, k = shape_key in d, b'Limits' in d, b'Kids' in d
    return (n and l and not k) or (not n and l and k) or (not n and not l and k) or (n and not l and not k)


# opaque predicate numbers of coq/Model/ShippedPreds.v
OPAQUE = [
    (0, 'date (ASCII year)', lambda o: py_date(o, False)),
    (1, 'name tree', lambda o: py_tree(o, b'Names', b'Names', 's')),
    (2, 'number tree (/Nums)', lambda o: py_tree(o, b'Nums', b'Nums', 'i')),
    (3, 'number tree, pairs read from /Names (pinned)', lambda o: py_tree(o, b'Names', b'Nums', 'i')),
    (4, 'date (Unicode \\d year, pinned)', lambda o: py_date(o, True)),
]

ISO_PAGEMODE = ['UseNone', 'UseOutlines', 'UseThumbs', 'FullScreen', 'UseOC', 'UseAttachments']
ISO_PAGELAYOUT = ['SinglePage', 'OneColumn', 'TwoColumnLeft', 'TwoColumnRight', 'TwoPageLeft', 'TwoPageRight']
ISO_TABS = ['R', 'C', 'S', 'A', 'W']


def fixed_probes():
    """objects other than names on which every dumped predicate is run."""
    p = [NULL, ('b', True), ('b', False), I(0), I(5), I(-1), Q(1, 2), S(''), S('Page'), S('D:'), ('c', b'x'), R(1), R(7, 1),
         A(), A(I(1)), A(R(1)), A(I(1), I(2), I(3), I(4)), D(), STM(), STM({b'Type': N('Page')}), D(Type=N('Page'))]
    dates = ["D:1992", "D:199212", "D:19921223", "D:1992122319", "D:199212231952", "D:19921223195200", "D:19921223195200-",
             "D:19921223195200+", "D:19921223195200Z", "D:19921223195200-08'", "D:19921223195200-08'00", "D:19921223195200-08'00'",
             "D:19921223195200-23'59'", "D:20000101", "D:20001231235959Z00'", "D1992", "D:199213", "D:199200", "D:19921243",
             "D:19921200", "D:1992122349", "D:1992122324", "D:199212231972", "D:19921223195280", "D:19921223195290-",
             "D:199212231952-", "D:19921223195200-58'", "D:19921223195200-24'", "D:19921223195200-08", "D:19921223195200-08'0099",
             "D:19921223195200-08'60", "D:19921223195200-08'00''", "D:19921223195200X", "D:199", "D:19921", "D:1992122",
             "d:1992", "D:1992\n", " D:1992", "D:19a2", "1992", "D:19921223195200-08'00'0"]
    p += [S(x) for x in dates]
    p += [('s', "D:\u0662\u0660\u0662\u0660".encode('utf-8')), ('s', "D:20\u0662\u0660".encode('utf-8')),
          ('s', "D:\uff11\uff19\uff19\uff12".encode('utf-8')), ('s', b'D:1992\xff'), ('s', b'\xffD:1992'),
          ('s', "D:1992\u0661\u0662".encode('utf-8')), ('s', b'D:19\xc0\xb12'), ('s', b'D:\xed\xa0\x80992')]
    sr, ir = [S('a'), R(5)], [I(1), R(5)]
    for key, good, other in ((b'Names', sr, ir), (b'Nums', ir, sr)):
        for lim in (None, A(S('a'), S('b')), A(I(1), I(2)), A(S('a')), A(I(1)), A(S('a'), S('b'), S('c')), A(I(1), I(2), I(3)),
                    A(S('a'), I(2)), I(3), A()):
            for kids in (None, A(R(6)), A(R(6), R(7)), A(I(6)), A(), R(6), D()):
                for pairs in (None, A(*good), A(*(good + good)), A(*other), A(*good[:1]), A(good[0], I(5)), A(), R(9), D(),
                              A(*(good + other))):
                    d = {}
                    if pairs is not None:
                        d[key] = pairs
                    if lim is not None:
                        d[b'Limits'] = lim
                    if kids is not None:
                        d[b'Kids'] = kids
                    p.append(('D', d))
    p.append(('D', {b'Names': A(*sr), b'Nums': A(*ir)}))
    p.append(('D', {b'Names': A(*ir), b'Nums': A(*ir)}))
    p.append(('D', {b'Names': A(*sr), b'Nums': A(*sr)}))
    p.append(('D', {b'Names': A(*ir), b'Nums': A(*sr)}))
    p.append(('D', {b'Names': A(*sr), b'Nums': A(*ir), b'Limits': A(I(1), I(2))}))
    p.append(('D', {b'Names': I(1), b'Nums': A(*ir)}))
    p.append(('D', {b'Type': N('Pages'), b'Kids': A(R(4), R(10)), b'Count': I(3)}))
    return p


# ====================================================================== TCSPEC text (docs/TCSPEC.md)
# chk: ('@', name) | ('rep', ty, pred, ind)   ind in '!', '', '~'
# ty : ('_',) ('p', c) ('A', chk, size|None) ('H', [chk]) ('D', [ent], star|None) ('S', [ent]) ('O', [chk])
# ent: (key bytes, opt, chk)   star: (opt, chk)   pred: None | ('1',) ('0',) ('N',[bytes]) ('I',[int]) ('L',n) ('#',k)
class _P:
    def __init__(self, s):
        self.s, self.i = s, 0

    def peek(self):
        return self.s[self.i] if self.i < len(self.s) else ''

    def eat(self, c):
        if self.peek() != c:
            raise ValueError('TCSPEC: expected %r at %d' % (c, self.i))
        self.i += 1

    def while_(self, f):
        j = self.i
        while self.i < len(self.s) and f(self.s[self.i]):
            self.i += 1
        return self.s[j:self.i]

    def chk(self):
        if self.peek() == '@':
            self.i += 1
            return ('@', self.while_(lambda c: c not in ',);='))
        ind = ''
        if self.peek() in '!~':
            ind = self.peek()
            self.i += 1
        pred = None
        if self.peek() == '{':
            self.i += 1
            pred = self.pred()
        return ('rep', self.ty(), pred, ind)

    def pred(self):
        c = self.peek()
        self.i += 1
        if c in '10':
            p = (c,)
        elif c == 'N':
            l = []
            if self.peek() != '}':
                while True:
                    l.append(bytes.fromhex(self.while_(lambda c: c in '0123456789abcdefABCDEF')))
                    if self.peek() == ',':
                        self.i += 1
                    else:
                        break
            p = ('N', l)
        elif c == 'I':
            l = []
            if self.peek() != '}':
                while True:
                    l.append(int(self.while_(lambda c: c.isdigit() or c == '-')))
                    if self.peek() == ',':
                        self.i += 1
                    else:
                        break
            p = ('I', l)
        elif c == 'L':
            p = ('L', int(self.while_(str.isdigit)))
        elif c == '#':
            p = ('#', int(self.while_(str.isdigit)))
        else:
            raise ValueError('TCSPEC: bad predicate %r' % c)
        self.eat('}')
        return p

    def lst(self):
        out = []
        while True:
            if self.peek() == ')':
                self.i += 1
                return out
            if self.peek() == ',':
                self.i += 1
                continue
            out.append(self.chk())

    def ents(self):
        out, star = [], None
        while True:
            c = self.peek()
            if c == ')':
                self.i += 1
                return out, star
            if c == ',':
                self.i += 1
                continue
            if c == '*':
                self.i += 1
                o = self.peek()
                self.i += 1
                self.eat(':')
                star = (o, self.chk())
                continue
            k = bytes.fromhex(self.while_(lambda c: c in '0123456789abcdefABCDEF'))
            o = self.peek()
            if o not in '+?-':
                raise ValueError('TCSPEC: bad key spec %r' % o)
            self.i += 1
            self.eat(':')
            out.append((k, o, self.chk()))

    def ty(self):
        c = self.peek()
        self.i += 1
        if c == '_':
            return ('_',)
        if c in 'bsmniqc':
            return ('p', c)
        if c == 'A':
            d = self.while_(str.isdigit)
            self.eat('(')
            e = self.chk()
            self.eat(')')
            return ('A', e, int(d) if d else None)
        if c in 'HODS':
            self.eat('(')
            if c == 'H':
                return ('H', self.lst())
            if c == 'O':
                return ('O', self.lst())
            es, st = self.ents()
            return ('D', es, st) if c == 'D' else ('S', es)
        raise ValueError('TCSPEC: bad type tag %r' % c)


def parse_chk(s):
    p = _P(s)
    c = p.chk()
    if p.i != len(s):
        raise ValueError('TCSPEC: trailing text')
    return c


def parse_tctx(s):
    if s in ('-', ''):
        return []
    out = []
    for part in s.split(';'):
        nm, body = part.split('=', 1)
        out.append((nm, parse_chk(body)))
    return out


def show_pred(p):
    if p[0] in '10':
        return p[0]
    if p[0] == 'N':
        return 'N' + ','.join(x.hex() for x in p[1])
    if p[0] == 'I':
        return 'I' + ','.join(str(x) for x in p[1])
    return p[0] + str(p[1])


def show_chk(c):
    if c[0] == '@':
        return '@' + c[1]
    _, ty, pred, ind = c
    return ind + ('{%s}' % show_pred(pred) if pred is not None else '') + show_ty(ty)


def _show_ents(es, star):
    parts = ['%s%s:%s' % (k.hex(), o, show_chk(c)) for k, o, c in es]
    if star:
        parts.append('*%s:%s' % (star[0], show_chk(star[1])))
    return ','.join(parts)


def show_ty(t):
    k = t[0]
    if k == '_':
        return '_'
    if k == 'p':
        return t[1]
    if k == 'A':
        return 'A%s(%s)' % ('' if t[2] is None else t[2], show_chk(t[1]))
    if k == 'H':
        return 'H(' + ','.join(show_chk(x) for x in t[1]) + ')'
    if k == 'O':
        return 'O(' + ','.join(show_chk(x) for x in t[1]) + ')'
    if k == 'D':
        return 'D(' + _show_ents(t[1], t[2]) + ')'
    return 'S(' + _show_ents(t[1], None) + ')'


def map_preds(c, f):
    if c[0] == '@':
        return c
    _, ty, pred, ind = c
    return ('rep', _map_ty(ty, f), f(pred) if pred is not None else None, ind)


def _map_ty(t, f):
    k = t[0]
    if k in '_p':
        return t
    if k == 'A':
        return ('A', map_preds(t[1], f), t[2])
    if k in 'HO':
        return (k, [map_preds(x, f) for x in t[1]])
    es = [(kk, o, map_preds(cc, f)) for kk, o, cc in t[1]]
    if k == 'D':
        return ('D', es, (t[2][0], map_preds(t[2][1], f)) if t[2] else None)
    return ('S', es)


# ---------------------------------------------------------------------- Coq terms
_PRIM = {'b': 'PBool', 's': 'PString', 'm': 'PName', 'n': 'PNull', 'i': 'PInteger', 'q': 'PReal', 'c': 'PComment'}
_KS = {'+': 'KReq', '?': 'KOpt', '-': 'KForb'}
_IS = {'!': 'IReq', '': 'IAllowed', '~': 'IForb'}


def coq_bytes(b):
    if b and all(32 <= x < 127 and x not in (34, 92) for x in b):
        return '(B "%s")' % b.decode('ascii')
    return '[' + ';'.join('%d%%N' % x for x in b) + ']'


def coq_pred(p):
    if p[0] == '1':
        return 'PrAlways'
    if p[0] == '0':
        return 'PrNever'
    if p[0] == 'N':
        return '(PrNameIn [' + '; '.join(coq_bytes(x) for x in p[1]) + '])'
    if p[0] == 'I':
        return '(PrIntIn [' + '; '.join('(%d)%%Z' % x for x in p[1]) + '])'
    if p[0] == 'L':
        return '(PrArrLen %d)' % p[1]
    return '(PrOpaque %d%%N)' % p[1]


class CoqEmit:
    """emits a check as a Coq term; every large sub-check is emitted once as its own Definition."""

    def __init__(self, share_above=160):
        self.defs, self.memo, self.share = [], {}, share_above

    def chk(self, c, top=False):
        if c[0] == '@':
            return '(CNamed %s)' % coq_bytes(c[1].encode())
        text = show_chk(c)
        if not top and len(text) > self.share:
            if text not in self.memo:
                name = 'sh_%d' % len(self.memo)
                self.memo[text] = name
                body = self._rep(c)
                self.defs.append('Definition %s : chk :=\n  %s.' % (name, body))
            return self.memo[text]
        return self._rep(c)

    def _rep(self, c):
        _, ty, pred, ind = c
        return '(CRep %s %s %s)' % (self.ty(ty), 'None' if pred is None else '(Some %s)' % coq_pred(pred), _IS[ind])

    def ents(self, es):
        return '[' + ';\n     '.join('DEnt %s %s %s' % (coq_bytes(k), self.chk(c), _KS[o]) for k, o, c in es) + ']'

    def ty(self, t):
        k = t[0]
        if k == '_':
            return 'TAny'
        if k == 'p':
            return '(TPrim %s)' % _PRIM[t[1]]
        if k == 'A':
            return '(TArr %s %s)' % (self.chk(t[1]), 'None' if t[2] is None else '(Some %d)' % t[2])
        if k == 'H':
            return '(THet [' + '; '.join(self.chk(x) for x in t[1]) + '])'
        if k == 'O':
            return '(TDisj [' + ';\n     '.join(self.chk(x) for x in t[1]) + '])'
        if k == 'D':
            st = 'None' if not t[2] else '(Some (%s, %s))' % (self.chk(t[2][1]), _KS[t[2][0]])
            return '(TDict %s %s)' % (self.ents(t[1]), st)
        return '(TStream %s)' % self.ents(t[1])


# ---------------------------------------------------------------------- the dump binary
def _dirs(repo):
    repo = os.path.abspath(repo)
    cache = os.path.join(ROOT, '.cache')
    if repo == '/repo':
        return os.path.join(ROOT, 'harness'), os.path.join(cache, 'target')
    alt = os.path.join(cache, 'alt-' + hashlib.sha1(repo.encode()).hexdigest()[:8])
    h = os.path.join(alt, 'harness')
    # same preparation as ./pv prepare_alt_harness
    os.makedirs(h, exist_ok=True)
    subprocess.run(['rsync', '-a', '--delete', '--exclude', 'Cargo.lock', os.path.join(ROOT, 'harness') + '/', h + '/'], check=True)
    ct = open(os.path.join(h, 'Cargo.toml')).read().replace('path = "/repo"', 'path = "%s"' % repo)
    open(os.path.join(h, 'Cargo.toml'), 'w').write(ct)
    cfg = os.path.join(h, '.cargo', 'config.toml')
    if os.path.exists(cfg):
        open(cfg, 'w').write('[net]\noffline = true\n')
    if not os.path.exists(os.path.join(h, 'Cargo.lock')):
        shutil.copy(os.path.join(ROOT, 'harness', 'Cargo.lock'), os.path.join(h, 'Cargo.lock'))
    return h, os.path.join(alt, 'target')


def harvest_names(repo):
    """every short string literal of the six source files: the universe of names a ChoicePred can hold."""
    names = set()
    for f in SRC_FILES:
        p = os.path.join(repo, 'src', 'pdf_lib', f)
        if not os.path.exists(p):
            raise RuntimeError('anchor missing: ' + p)
        src = open(p, encoding='utf-8', errors='replace').read()
        for m in re.finditer(r'"([A-Za-z0-9_.+\-]{1,40})"', src):
            names.add(m.group(1))
    return names


def run_dump(repo, probes):
    h, target = _dirs(repo)
    lock = os.path.join(h, 'Cargo.lock')
    if not os.path.exists(lock):
        shutil.copy(os.path.join('/repo', 'Cargo.lock'), lock)
    env = dict(os.environ)
    env.update({'CARGO_NET_OFFLINE': 'true', 'CARGO_TARGET_DIR': target})
    p = subprocess.run(['cargo', 'build', '--offline', '--bin', 'c10dump'], cwd=h, env=env, stdout=subprocess.PIPE,
                       stderr=subprocess.STDOUT, timeout=1800)
    if p.returncode != 0:
        raise RuntimeError('c10dump does not build: ' + p.stdout.decode('utf-8', 'replace')[-1500:])
    p = subprocess.run([os.path.join(target, 'debug', 'c10dump')], input=('\n'.join(show(x) for x in probes) + '\n').encode(),
                       stdout=subprocess.PIPE, stderr=subprocess.PIPE, timeout=300)
    if p.returncode != 0:
        raise RuntimeError('c10dump failed: ' + p.stderr.decode('utf-8', 'replace')[-800:])
    out = {'pred': {}}
    for line in p.stdout.decode().splitlines():
        t = line.split(' ')
        if t[0] in ('root', 'tctx'):
            out[t[0]] = t[1]
        elif t[0] == 'npreds':
            out['npreds'] = int(t[1])
        elif t[0] == 'pred':
            out['pred'][int(t[1])] = t[2] if len(t) > 2 else ''
    if 'root' not in out or 'tctx' not in out or len(out['pred']) != out.get('npreds', -1):
        raise RuntimeError('c10dump: incomplete output')
    return out, h


def identify(fp, probes):
    """maps the behaviour of one dumped predicate on the probe set to a predicate of the Coq enumeration."""
    if len(fp) != len(probes):
        raise RuntimeError('fingerprint length mismatch')
    if set(fp) <= set('1v'):
        # ChoicePred (answers ValueMismatch): must accept names only
        if all(c == 'v' for c, o in zip(fp, probes) if o[0] != 'm'):
            return ('N', [o[1] for c, o in zip(fp, probes) if o[0] == 'm' and c == '1'])
    if set(fp) <= set('1p'):
        for oid, _, f in OPAQUE:
            if all((c == '1') == bool(f(o)) for c, o in zip(fp, probes)):
                return ('#', oid)
    raise RuntimeError('unrecognised predicate (fingerprint %s…)' % fp[:60])


def nd_table(harness):
    """general category Nd as known to the regex-syntax crate the harness links (only needed for predicate #4)."""
    lock = open(os.path.join(harness, 'Cargo.lock')).read()
    m = re.search(r'name = "regex-syntax"\s*\nversion = "([^"]+)"', lock)
    if not m:
        raise RuntimeError('regex-syntax not in Cargo.lock')
    c = glob.glob(os.path.expanduser('~/.cargo/registry/src/*/regex-syntax-%s/src/unicode_tables/perl_decimal.rs' % m.group(1)))
    if not c:
        raise RuntimeError('regex-syntax %s sources not found' % m.group(1))
    src = open(c[0], encoding='utf-8').read()
    body = src[src.index('DECIMAL_NUMBER: &'):]
    t = [(ord(a), ord(b)) for a, b in re.findall(r"\('(.)', '(.)'\)", body)]
    if len(t) < 10 or t[0] != (48, 57):
        raise RuntimeError('could not read the Nd table')
    return t


def regen(repo):
    names = sorted(harvest_names(repo) | set(ISO_PAGEMODE + ISO_PAGELAYOUT + ISO_TABS) |
                   {'Foo', 'X', 'page', 'PAGE', 'Pag', 'Pagex', 'UseNon', 'Catalogs'})
    probes = [N(x) for x in names] + [N('')] + fixed_probes()
    dump, harness = run_dump(repo, probes)
    mapping = {k: identify(fp, probes) for k, fp in dump['pred'].items()}

    def f(p):
        if p[0] == '#':
            if p[1] not in mapping:
                raise RuntimeError('predicate #%d has no fingerprint' % p[1])
            return mapping[p[1]]
        raise RuntimeError('unexpected predicate text in the dump: %r' % (p,))
    root = map_preds(parse_chk(dump['root']), f)
    tctx = [(nm, map_preds(c, f)) for nm, c in parse_tctx(dump['tctx'])]
    for nm, c in tctx:
        if c[0] != 'rep':
            raise RuntimeError('named check %s is not a representation' % nm)
    used = {m[1] for m in mapping.values() if m[0] == '#'}
    nd = nd_table(harness) if 4 in used else []
    em = CoqEmit()
    root_term = em.chk(root, top=True)
    tctx_terms = []
    for nm, c in tctx:
        _, ty, pred, ind = c
        tctx_terms.append('(%s, (%s, %s, %s))' % (coq_bytes(nm.encode()), em.ty(ty),
                                                 'None' if pred is None else '(Some %s)' % coq_pred(pred), _IS[ind]))
    root_text, tctx_text = show_chk(root), ';'.join('%s=%s' % (nm, show_chk(c)) for nm, c in tctx) or '-'
    v = ['(* coq/gen/Shipped.v — GENERATED by props/c10.py regen(); do not edit.',
         '   The specification catalog_type(&mut TypeCheckContext) (src/pdf_lib/catalog.rs) constructs at run time, dumped by',
         '   harness/src/bin/c10dump.rs in the text form of docs/TCSPEC.md.  Predicates are trait objects: each one was',
         '   recognised by its behaviour on %d probe objects — a ChoicePred becomes PrNameIn, the others the numbers of' % len(probes),
         '   coq/Model/ShippedPreds.v:  ' + '; '.join('#%d = %s' % (i, d) for i, d, _ in OPAQUE) + '.',
         '   The dump held %d distinct predicate objects. *)' % len(mapping),
         'From PV Require Import Model.TypeCheck.', 'Open Scope string_scope.', '']
    v += em.defs
    v += ['', 'Definition shipped_root : chk :=\n  %s.' % root_term, '',
          'Definition shipped_tctx : tctx :=\n  [' + ';\n   '.join(tctx_terms) + '].', '',
          '(* the same in text form (predicates already identified); Proofs/ShippedFacts.v checks that the Coq readers',
          '   of Model/TypeCheck.v turn these into the terms above *)',
          'Definition shipped_root_text : bytes := B "%s".' % root_text,
          'Definition shipped_tctx_text : bytes := B "%s".' % tctx_text, '',
          '(* general category Nd of the regex crate in use: only needed by the pinned date predicate #4 *)',
          'Definition shipped_nd : list (N * N) := [' + '; '.join('(%d, %d)%%N' % r for r in nd) + '].', '']
    return {'gen/Shipped.v': '\n'.join(v)}


# ====================================================================== the declared entries (by hand, from the
# property text and the shipped sources; the tag's promise is checked against the DUMPED specification by the model)
CATALOG_OPT = [('Version', 'name'), ('Extensions', 'dict'), ('PageLabels', 'numtree'), ('Names', 'namedict'), ('Dests', 'idict'),
               ('ViewerPreferences', 'dict'), ('PageLayout', 'pagelayout'), ('PageMode', 'pagemode'), ('Outlines', 'idict'),
               ('Threads', 'array'), ('OpenAction', 'openaction'), ('AA', 'dict'), ('URI', 'dict'), ('AcroForm', 'dict'),
               ('Metadata', 'istream'), ('StructTreeRoot', 'dict'), ('MarkInfo', 'dict'), ('Lang', 'string'), ('SpiderInfo', 'dict'),
               ('OutputIntents', 'array'), ('PieceInfo', 'dict'), ('OCProperties', 'dict'), ('Perms', 'dict'), ('Legal', 'dict'),
               ('Requirements', 'array'), ('Collection', 'dict'), ('NeedsRendering', 'bool'), ('DSS', 'dict'), ('AF', 'arrdict'),
               ('DPartRoot', 'dict')]
PAGE_GENERIC = [('LastModified', 'date'), ('Resources', 'resources'), ('MediaBox', 'rect'), ('CropBox', 'rect'), ('BleedBox', 'rect'),
                ('TrimBox', 'rect'), ('ArtBox', 'rect'), ('BoxColorInfo', 'dict'), ('Contents', 'contents'), ('Rotate', 'int'),
                ('Group', 'dict'), ('Thumb', 'stream'), ('Dur', 'number'), ('Trans', 'dict'), ('Annots', 'array'), ('AA', 'dict'),
                ('Metadata', 'stream'), ('PieceInfo', 'dict'), ('StructParents', 'int'), ('ID', 'string'), ('PZ', 'number'),
                ('SeparationInfo', 'dict'), ('Tabs', 'tabs'), ('TemplateInstantiated', 'name'), ('PresSteps', 'dict'),
                ('UserUnit', 'number'), ('VP', 'array'), ('AF', 'arrdict'), ('OutputIntents', 'array'), ('DPart', 'dict')]
PAGE_OPT = [('B', 'array')] + PAGE_GENERIC
TEMPLATE_OPT = PAGE_GENERIC
RESOURCES_OPT = [('ExtGState', 'dict'), ('ColorSpace', 'dict'), ('Pattern', 'dict'), ('Shading', 'dict'), ('XObject', 'dict'),
                 ('Font', 'dict'), ('ProcSet', 'array'), ('Properties', 'dict')]
NAMEDICT_KEYS = ['Dests', 'AP', 'JavaScript', 'Pages', 'Templates', 'IDS', 'URLS', 'AlternatePresentations', 'EmbeddedFiles',
                 'Renditions']
NAME_LISTS = {'tabs': ISO_TABS, 'pagemode': ISO_PAGEMODE, 'pagelayout': ISO_PAGELAYOUT}
GOOD_DATES = ["D:1992", "D:199212", "D:19921223", "D:1992122319", "D:199212231952", "D:19921223195200", "D:19921223195200Z",
              "D:19921223195200-08'", "D:19921223195200+05'30", "D:19921223195200-08'00'", "D:20240229000000Z", "D:0000"]
BAD_DATES = ["D1992", "D:199213", "D:19921243", "D:1992122349", "D:199212231972", "D:19921223195280", "D:199212231952-",
             "D:19921223195200-58'", "D:19921223195200-08", "D:19921223195200-08'60", "1992", "D:199", "", "D:1992 ",
             "D:\u0662\u0660\u0662\u0660"]
WORDS = ['Foo', 'Bar', 'X', 'Name1', 'q', 'Alpha', 'Zed']


class Doc:
    def __init__(self):
        self.objs = {}
        self.next = 1
        self.cat = None
        self.nodes = []        # dict(id, kind, parent, kids) ; kind in root/node/page/template
        self.entries = []      # (holder, key, kind): holder = 'cat' | object number ; the optional entries present

    def alloc(self, o=None):
        n = self.next
        self.next += 1
        if o is not None:
            self.objs[(n, 0)] = o
        return n

    def copy(self):
        d = Doc()
        d.objs = dict(self.objs)
        d.next, d.cat, d.nodes, d.entries = self.next, self.cat, self.nodes, self.entries
        return d

    def line(self, tag):
        return '%s %s %s' % (tag, show_ctx(self.objs), show(self.cat))


def rword(rng):
    return rng.choice(WORDS)


def rany(rng, depth=2):
    """an arbitrary direct object (contents of generic dictionaries and arrays are not constrained)."""
    k = rng.randrange(10 if depth > 0 else 7)
    if k == 0:
        return I(rng.randrange(-5, 1000))
    if k == 1:
        return Q(rng.randrange(-50, 50), rng.choice([1, 2, 10]))
    if k == 2:
        return N(rword(rng))
    if k == 3:
        return S(rword(rng))
    if k == 4:
        return ('b', rng.random() < 0.5)
    if k == 5:
        return NULL
    if k == 6:
        return R(rng.randrange(900, 910))           # dangling: generic members are not followed
    if k == 7:
        return ('A', [rany(rng, depth - 1) for _ in range(rng.randrange(3))])
    return ('D', {rword(rng).encode(): rany(rng, depth - 1) for _ in range(rng.randrange(3))})


def rdict(rng):
    return ('D', {rword(rng).encode(): rany(rng) for _ in range(rng.randrange(3))})


def rarray(rng):
    return ('A', [rany(rng) for _ in range(rng.randrange(4))])


def rnum(rng):
    return I(rng.randrange(-10, 1000)) if rng.random() < 0.6 else Q(rng.randrange(-100, 10000), rng.choice([1, 10, 100]))


def maybe_ind(doc, rng, o, p=0.3):
    return R(doc.alloc(o)) if rng.random() < p else o


def good_tree(doc, rng, keytag, pairs_key):
    mk = (lambda: S(rword(rng))) if keytag == 's' else (lambda: I(rng.randrange(100)))
    pairs = ('A', [x for _ in range(rng.randrange(3)) for x in (mk(), R(rng.randrange(900, 910)))])
    lim = A(mk(), mk())
    kids = ('A', [R(rng.randrange(900, 910)) for _ in range(rng.randrange(1, 3))])
    shape = rng.randrange(4)
    if shape == 0:
        d = {pairs_key: pairs}
    elif shape == 1:
        d = {pairs_key: pairs, b'Limits': lim}
    elif shape == 2:
        d = {b'Kids': kids}
    else:
        d = {b'Kids': kids, b'Limits': lim}
    return ('D', d)


def bad_trees(rng, keytag, pairs_key):
    good = S('a') if keytag == 's' else I(1)
    other = I(1) if keytag == 's' else S('a')
    return [('odd', ('D', {pairs_key: A(good, R(901), good)})),
            ('key', ('D', {pairs_key: A(other, R(901))})),
            ('val', ('D', {pairs_key: A(good, I(7))})),
            ('pairs-type', ('D', {pairs_key: D()})),
            ('kids-type', ('D', {b'Kids': I(1)})),
            ('kids-elem', ('D', {b'Kids': A(R(901), I(2))})),
            ('limits-len', ('D', {b'Kids': A(R(901)), b'Limits': A(good, good, good)})),
            ('limits-elem', ('D', {b'Kids': A(R(901)), b'Limits': A(good, other)})),
            ('both', ('D', {pairs_key: A(good, R(901)), b'Kids': A(R(902))})),
            ('neither', ('D', {})),
            ('limits-only', ('D', {b'Limits': A(good, good)})),
            ('notdict', A())]


def good_val(doc, rng, kind):
    """a conforming value of the declared kind (possibly allocating indirect objects in doc)."""
    if kind == 'name':
        return N(rword(rng))
    if kind == 'string':
        return S(rword(rng))
    if kind == 'bool':
        return ('b', rng.random() < 0.5)
    if kind == 'int':
        return maybe_ind(doc, rng, I(rng.choice([0, 90, 180, 270, -1, 12345])), 0.1)
    if kind == 'number':
        return rnum(rng)
    if kind == 'dict':
        return maybe_ind(doc, rng, rdict(rng))
    if kind == 'idict':
        return R(doc.alloc(rdict(rng)))
    if kind == 'array':
        return maybe_ind(doc, rng, rarray(rng))
    if kind == 'arrdict':
        return maybe_ind(doc, rng, ('A', [maybe_ind(doc, rng, rdict(rng)) for _ in range(rng.randrange(3))]))
    if kind == 'stream':
        return maybe_ind(doc, rng, STM({b'Length': I(0)}), 0.8)
    if kind == 'istream':
        return R(doc.alloc(STM({b'Length': I(3), b'Type': N('Metadata')}, b'abc')))
    if kind == 'rect':
        return maybe_ind(doc, rng, ('A', [rnum(rng) for _ in range(4)]), 0.1)
    if kind == 'date':
        return S(rng.choice(GOOD_DATES))
    if kind in NAME_LISTS:
        return N(rng.choice(NAME_LISTS[kind]))
    if kind == 'contents':
        if rng.random() < 0.5:
            return maybe_ind(doc, rng, STM({b'Length': I(0)}), 0.9)
        return maybe_ind(doc, rng, ('A', [maybe_ind(doc, rng, STM(), 0.9) for _ in range(rng.randrange(3))]), 0.2)
    if kind == 'openaction':
        return maybe_ind(doc, rng, rarray(rng) if rng.random() < 0.5 else rdict(rng))
    if kind == 'resources':
        d = {}
        for k, kk in RESOURCES_OPT:
            if rng.random() < 0.3:
                d[k.encode()] = good_val(doc, rng, kk)
        return maybe_ind(doc, rng, ('D', d), 0.2)
    if kind == 'namedict':
        d = {}
        for k in NAMEDICT_KEYS:
            if rng.random() < 0.25:
                d[k.encode()] = maybe_ind(doc, rng, good_tree(doc, rng, 's', b'Names'))
        return maybe_ind(doc, rng, ('D', d), 0.2)
    if kind == 'numtree':
        return maybe_ind(doc, rng, good_tree(doc, rng, 'i', b'Nums'))
    raise ValueError(kind)


def bad_vals(doc, rng, kind):
    """[(mutation name, value)] — each violates the declared kind in one way (may allocate objects in doc)."""
    if kind == 'name':
        return [('type-int', I(3)), ('type-string', S('Foo'))]
    if kind == 'string':
        return [('type-name', N('Foo')), ('type-int', I(1))]
    if kind == 'bool':
        return [('type-int', I(0)), ('type-name', N('true'))]
    if kind == 'int':
        return [('type-real', Q(3, 2)), ('type-name', N('Foo')), ('type-string', S('1'))]
    if kind == 'number':
        return [('type-name', N('Foo')), ('type-string', S('1')), ('type-array', A())]
    if kind == 'dict':
        return [('type-array', A()), ('type-int', I(1)), ('type-stream', STM()), ('ref-type', R(doc.alloc(A(I(1)))))]
    if kind == 'idict':
        return [('direct', D()), ('ref-type', R(doc.alloc(A(I(1))))), ('type-int', I(1))]
    if kind == 'array':
        return [('type-dict', D()), ('type-int', I(1)), ('ref-type', R(doc.alloc(D())))]
    if kind == 'arrdict':
        return [('elem-int', A(I(1))), ('elem-name', A(D(), N('x'))), ('type-dict', D()), ('elem-ref-type', A(R(doc.alloc(I(4)))))]
    if kind == 'stream':
        return [('type-dict', D()), ('type-array', A()), ('ref-type', R(doc.alloc(D())))]
    if kind == 'istream':
        return [('direct', STM()), ('ref-type', R(doc.alloc(D()))), ('type-dict', D())]
    if kind == 'rect':
        return [('size3', A(I(0), I(0), I(612))), ('size5', A(I(0), I(0), I(612), I(792), I(1))), ('size0', A()),
                ('elem-name', A(I(0), I(0), N('x'), I(792))), ('elem-string', A(S('0'), I(0), I(612), I(792))),
                ('elem-array', A(I(0), I(0), I(612), A(I(792)))), ('type-dict', D()), ('type-int', I(4))]
    if kind == 'date':
        return [('date-%d' % i, S(x)) for i, x in enumerate(BAD_DATES)] + [('type-name', N('D:1992'))]
    if kind in NAME_LISTS:
        return [('unlisted', N('Foo')), ('unlisted-case', N(NAME_LISTS[kind][0].lower() + 'x')), ('type-string', S(NAME_LISTS[kind][0]))]
    if kind == 'contents':
        return [('type-dict', D()), ('type-int', I(1)), ('elem-int', A(I(1))), ('elem-ref-type', A(R(doc.alloc(D())))),
                ('ref-type', R(doc.alloc(D())))]
    if kind == 'openaction':
        return [('type-name', N('Foo')), ('type-int', I(1)), ('type-stream', STM())]
    if kind == 'resources':
        return [('type-array', A()), ('sub-font-array', D(Font=A())), ('sub-procset-dict', D(ProcSet=D())),
                ('sub-xobject-int', D(XObject=I(1)))]
    if kind == 'namedict':
        out = [('type-array', A())]
        k = rng.choice(NAMEDICT_KEYS)
        out += [('tree-' + m, ('D', {k.encode(): v})) for m, v in bad_trees(rng, 's', b'Names')]
        out.append(('tree-ind-odd', ('D', {k.encode(): R(doc.alloc(('D', {b'Names': A(S('a'))})))})))
        return out
    if kind == 'numtree':
        return [('tree-' + m, v) for m, v in bad_trees(rng, 'i', b'Nums')] + \
               [('tree-ind-key', R(doc.alloc(('D', {b'Nums': A(S('a'), R(901))}))))]
    raise ValueError(kind)


def add_opts(doc, rng, holder, d, table, p):
    for k, kind in table:
        if rng.random() < p:
            d[k.encode()] = good_val(doc, rng, kind)
            doc.entries.append((holder, k, kind))
    if rng.random() < 0.2:
        d[b'XUnlisted'] = rany(rng)        # keys the specification does not mention are not constrained


def gen_doc(rng, max_depth=4, max_fan=4, max_objs=60, p_opt=0.15, p_cat=0.2, pages_direct=False):
    doc = Doc()
    root = doc.alloc()
    budget = [max_objs - 1]

    def build(nid, kind, parent, depth):
        rec = dict(id=nid, kind=kind, parent=parent, kids=[])
        doc.nodes.append(rec)
        if kind in ('root', 'node'):
            nk = rng.randrange(1, max_fan + 1) if depth < max_depth else 0
            for _ in range(nk):
                if budget[0] <= 0 or doc.next > max_objs:
                    break
                budget[0] -= 1
                r = rng.random()
                ck = 'node' if (r < 0.5 and depth + 1 < max_depth) else ('template' if r > 0.9 else 'page')
                cid = doc.alloc()
                rec['kids'].append(cid)
                build(cid, ck, nid, depth + 1)
            d = {b'Type': N('Pages'), b'Count': I(sum(1 for _ in rec['kids'])),
                 b'Kids': ('A', [R(k) for k in rec['kids']])}
            if kind == 'node':
                d[b'Parent'] = R(parent)
            if rng.random() < 0.2:
                d[b'MediaBox'] = A(I(0), I(0), I(612), I(792))     # inheritable attribute: not mentioned by the node types
        elif kind == 'page':
            d = {b'Type': N('Page'), b'Parent': R(parent)}
            add_opts(doc, rng, nid, d, PAGE_OPT, p_opt)
        else:
            d = {b'Type': N('Template')}
            add_opts(doc, rng, nid, d, TEMPLATE_OPT, p_opt)
        doc.objs[(nid, 0)] = ('D', d)

    build(root, 'root', None, 1)
    cat = {b'Type': N('Catalog'), b'Pages': doc.objs[(root, 0)] if pages_direct else R(root)}
    add_opts(doc, rng, 'cat', cat, CATALOG_OPT, p_cat)
    doc.cat = ('D', cat)
    doc.root = root
    doc.pages_direct = pages_direct
    return doc


def _with(dobj, **chg):
    d = dict(dobj[1])
    for k, v in chg.items():
        kb = k.encode()
        if v is None:
            d.pop(kb, None)
        else:
            d[kb] = v
    return ('D', d)


def mutations(doc, rng):
    """every single-rule violation at every position: yields (tag, Doc)."""
    def holder_obj(m, h):
        return m.cat if h == 'cat' else m.objs[(h, 0)]

    def set_holder(m, h, o):
        if h == 'cat':
            m.cat = o
        else:
            m.objs[(h, 0)] = o
            if h == doc.root and doc.pages_direct:
                m.cat = _with(m.cat, Pages=o)

    def mut(tag, h, **chg):
        m = doc.copy()
        set_holder(m, h, _with(holder_obj(m, h), **chg))
        return ('bad:%s@%s' % (tag, h), m)

    # catalog
    yield mut('drop-Type', 'cat', Type=None)
    yield mut('drop-Pages', 'cat', Pages=None)
    yield mut('type-unlisted', 'cat', Type=N('Pages'))
    yield mut('type-notname', 'cat', Type=S('Catalog'))
    yield mut('pages-notdict', 'cat', Pages=A())
    m = doc.copy()
    m.cat = _with(m.cat, Pages=R(m.alloc(I(3))))
    yield ('bad:pages-ref-int@cat', m)
    # nodes, pages, templates
    for n in doc.nodes:
        h, kind = n['id'], n['kind']
        yield mut('drop-Type', h, Type=None)
        yield mut('type-notname', h, Type=I(1))
        yield mut('type-unlisted', h, Type=N('Foo'))
        yield mut('type-catalog', h, Type=N('Catalog'))
        if kind in ('root', 'node'):
            yield mut('drop-Count', h, Count=None)
            yield mut('drop-Kids', h, Kids=None)
            yield mut('count-real', h, Count=Q(3, 2))
            yield mut('count-name', h, Count=N('Foo'))
            yield mut('kids-notarray', h, Kids=D())
            for i, k in enumerate(n['kids']):
                kids = [R(x) for x in n['kids']]
                direct = list(kids)
                direct[i] = doc.objs[(k, 0)]
                yield mut('kid-direct-%d' % i, h, Kids=('A', direct))
                m = doc.copy()
                other = list(kids)
                other[i] = R(m.alloc(I(7)))
                set_holder(m, h, _with(holder_obj(m, h), Kids=('A', other)))
                yield ('bad:kid-ref-int-%d@%s' % (i, h), m)
                other = list(kids)
                other[i] = I(5)
                yield mut('kid-int-%d' % i, h, Kids=('A', other))
                other = list(kids)
                other[i] = R(990)                      # refers to no object: denotes null
                yield mut('kid-dangling-%d' % i, h, Kids=('A', other))
                m = doc.copy()
                other = list(kids)
                other[i] = R(m.alloc(D(Type=N('Catalog'))))
                set_holder(m, h, _with(holder_obj(m, h), Kids=('A', other)))
                yield ('bad:kid-ref-other-%d@%s' % (i, h), m)
        if kind == 'root':
            yield mut('add-Parent', h, Parent=R(h))
        if kind == 'template':
            yield mut('add-Parent', h, Parent=R(n['parent']))
        if kind in ('node', 'page'):
            yield mut('drop-Parent', h, Parent=None)
            yield mut('parent-direct-dict', h, Parent=D())
            yield mut('parent-array', h, Parent=A(R(n['parent'])))
            yield mut('parent-int', h, Parent=I(3))
    # optional entries
    for h, k, kind in doc.entries:
        m0 = doc.copy()
        for name, v in bad_vals(m0, rng, kind):
            m = m0.copy()
            set_holder(m, h, _with(holder_obj(m, h), **{k: v}))
            yield ('bad:%s-%s-%s@%s' % (kind, name, k, h), m)


# ---------------------------------------------------------------------- sub-check cases
def hk(s):
    return 'k' + s.encode().hex()


PAGE_PATH = hk('Pages') + '/' + hk('Kids') + '/e/a1'          # the page alternative of the root node's kids


def sub_cases(tier, rng):
    out = []

    def add(path, exp, o, ctx=None):
        out.append('sub:%s:%s %s %s' % (path, 'ok' if exp else 'bad', show_ctx(ctx or {}), show(o)))
    # date strings: the unit-test lists, every single-character replacement of two full dates, Unicode digits
    p = PAGE_PATH + '/' + hk('LastModified')
    dates = set(GOOD_DATES + BAD_DATES)
    for base in ("D:19921223195200-08'00'", "D:20240229235959Z"):
        for i in range(len(base) + 1):
            dates.add(base[:i])
            if i < len(base):
                for c in "0123456789:DZ+-' a":
                    dates.add(base[:i] + c + base[i + 1:])
    for s in sorted(dates):
        add(p, py_date(S(s)), S(s))
    for o in fixed_probes():
        if o[0] == 's':
            add(p, py_date(o), o)
    add(p, False, N('D:1992'))
    add(p, True, R(5), {(5, 0): S('D:1992')})
    # trees
    for path, pk, kt in ((hk('PageLabels'), b'Nums', 'i'), (hk('Names') + '/' + hk('Dests'), b'Names', 's'),
                         (hk('Names') + '/' + hk('Renditions'), b'Names', 's')):
        for o in fixed_probes():
            if o[0] in 'DAin':
                add(path, py_tree(o, pk, pk, kt), o)
        for name, v in bad_trees(rng, kt, pk):
            add(path, False, v)
        for _ in range(20 if tier == 'quick' else 200):
            add(path, True, good_tree(None, rng, kt, pk))
        add(path, True, R(5), {(5, 0): ('D', {pk: A()})})
        add(path, False, R(5), {(5, 0): ('D', {pk: A(I(1) if kt == 's' else S('a'), R(9))})})
    # name lists
    for key, lst, path in (('PageMode', ISO_PAGEMODE, ''), ('PageLayout', ISO_PAGELAYOUT, ''), ('Tabs', ISO_TABS, PAGE_PATH + '/')):
        for nm in set(ISO_PAGEMODE + ISO_PAGELAYOUT + ISO_TABS + ['Foo', '', 'usenone', 'UseNone ', 'r']):
            add(path + hk(key), nm in lst, N(nm))
        add(path + hk(key), False, S(lst[0]))
    for path, nm in ((hk('Type'), 'Catalog'), (hk('Pages') + '/' + hk('Type'), 'Pages'), (PAGE_PATH + '/' + hk('Type'), 'Page'),
                     (hk('Pages') + '/' + hk('Kids') + '/e/a2/' + hk('Type'), 'Template'),
                     (hk('Pages') + '/' + hk('Kids') + '/e/a0/' + hk('Type'), 'Pages')):
        for x in ('Catalog', 'Pages', 'Page', 'Template', 'Foo', ''):
            add(path, x == nm, N(x))
    # rectangles
    p = PAGE_PATH + '/' + hk('MediaBox')
    elems = [I(0), Q(1, 2), N('x'), S('1'), A(I(1)), NULL]
    for n in range(0, 7):
        for _ in range(6):
            xs = [rng.choice(elems) for _ in range(n)]
            add(p, n == 4 and all(x[0] in 'iq' for x in xs), ('A', xs))
        add(p, n == 4, ('A', [I(i) for i in range(n)]))
    add(p, False, D())
    # leaf kinds of every optional entry, good and bad values on their own
    for table, prefix in ((CATALOG_OPT, ''), (PAGE_OPT, PAGE_PATH + '/')):
        for k, kind in table:
            d = Doc()
            d.next = 50
            for _ in range(2 if tier == 'quick' else 10):
                v = good_val(d, rng, kind)
                add(prefix + hk(k), True, v, d.objs)
            for name, v in bad_vals(d, rng, kind):
                add(prefix + hk(k), False, v, d.objs)
    return out


# ---------------------------------------------------------------------- malformed stream (no expectation)
def any_cases(tier, rng):
    out = []
    n = 150 if tier == 'quick' else 2000
    for _ in range(n):
        doc = gen_doc(rng, max_depth=3, max_fan=3, max_objs=12, p_opt=0.1, p_cat=0.1)
        for _ in range(rng.randrange(1, 4)):
            ks = sorted(doc.objs)
            r = rng.random()
            if r < 0.3 and ks:
                k = rng.choice(ks)
                doc.objs[k] = rany(rng, 2)
            elif r < 0.5 and ks:
                k = rng.choice(ks)
                o = doc.objs[k]
                if o[0] == 'D' and o[1]:
                    kk = rng.choice(sorted(o[1]))
                    doc.objs[k] = ('D', {**o[1], kk: R(rng.choice(ks)[0])})        # cycles and cross links
            elif r < 0.7 and ks:
                del doc.objs[rng.choice(ks)]
            elif r < 0.85:
                d = dict(doc.cat[1])
                d[rng.choice([b'Pages', b'Type', b'Names', b'PageLabels', b'Outlines'])] = rany(rng, 2)
                doc.cat = ('D', d)
            else:
                k = rng.choice(ks) if ks else (1, 0)
                doc.objs[k] = R(k[0])                                              # self reference
        out.append(doc.line('any'))
    return out


def cases(tier, rng):
    out = []
    # minimal documents (also short enough for the vm_compute cross-check of the extraction)
    for i in range(6):
        doc = gen_doc(rng, max_depth=2, max_fan=1 + i % 2, max_objs=4, p_opt=0.02, p_cat=0.02, pages_direct=(i == 5))
        out.append(doc.line('ok'))
        for tag, m in mutations(doc, rng):
            out.append(m.line(tag))
    ndocs, nmut = (5, 3) if tier == 'quick' else (60, 25)
    for i in range(ndocs + nmut):
        doc = gen_doc(rng, max_depth=rng.randrange(2, 5), max_fan=rng.randrange(1, 5), max_objs=rng.choice([8, 20, 40, 60]),
                      p_opt=rng.choice([0.05, 0.15, 0.4]), p_cat=rng.choice([0.1, 0.3, 0.8]), pages_direct=rng.random() < 0.1)
        out.append(doc.line('ok'))
        if i < nmut:
            for tag, m in mutations(doc, rng):
                out.append(m.line(tag))
    # every optional entry present at once
    for _ in range(2 if tier == 'quick' else 10):
        doc = gen_doc(rng, max_depth=2, max_fan=2, max_objs=6, p_opt=1.0, p_cat=1.0)
        out.append(doc.line('ok'))
        for tag, m in mutations(doc, rng):
            out.append(m.line(tag))
    out += sub_cases(tier, rng)
    out += any_cases(tier, rng)
    return out


# ====================================================================== oracle, evidence
RULE = ('random page trees (depth <= 4, fan-out <= 4, <= 60 objects; root node, inner nodes, pages, templates as indirect objects, '
        '/Parent on every non-root; a random subset of the 30 optional catalog entries and 31 optional page/template entries with '
        'conforming values of the declared kinds, direct or behind a reference; keys the specification does not mention) and EVERY '
        'single-rule mutation at EVERY position of a subset of them (drop each required key, add the forbidden /Parent, /Type not a '
        'name / unlisted / another kind, /Count not an integer, /Kids not an array, each kid embedded directly / replaced by an '
        'integer / by a dangling reference / by a reference to a non-kid, /Parent not a reference, and for each optional entry present every bad value of its '
        'kind: wrong primitive type, unlisted name, rectangle of 0/3/5 or non-numeric members, 15 malformed dates, 13 malformed '
        'name/number trees, required-indirect given directly); every sub-check on its own (sub:<path>): exhaustive one-character '
        'edits of two full date strings, 1400 tree dictionaries x 3 tree positions, all ISO names x 3 name lists + near misses, '
        'rectangles of 0..6 members; a malformed stream (random edits, deletions, cross links, self references) with no '
        'expectation.  non-trivial = a conforming document with >= 2 indirect objects, any mutated document, any sub-check case '
        'whose object is not null')
TRUSTED = ['coq/gen/Shipped.v is regenerated on every run by props/c10.py regen() from what catalog_type(&mut tctx) constructs '
           '(harness/src/bin/c10dump.rs + harness/src/tcspec.rs Printer); predicates (trait objects) are identified by their '
           'behaviour on ~1600 probe objects: a ChoicePred holding a name that occurs in none of the six source files, or a '
           'predicate differing from coq/Model/ShippedPreds.v only outside the probe set, would be mis-identified',
           'coq/Model/TypeCheck.v, coq/Spec/Conforms.v (contributor atc): the checker model and the declarative semantics',
           'coq/Model/ShippedPreds.v: hand transcription of the date / name-tree / number-tree predicates, validated by the sub: cases']
ASSUMPTIONS = ['the object context is finite and given (loading is C03/C04)',
               'spec= is the 64-step unfolding of the declarative semantics: exact for the generated documents (chains < 40)']
KF_ANY = 'C10-any-typed-entries-unchecked'


def _verdict(obs):
    return obs.split(' spec=')[0]


def oracle(case, obs, prof):
    tag = case.split(' ', 1)[0]
    v = _verdict(obs)
    if v not in ('accept',) and not v.startswith('reject '):
        return 'the checker did not reach a verdict on the shipped specification: "%s"' % obs
    if tag == 'ok':
        return None if v == 'accept' else 'a conforming catalog was rejected (%s)' % v
    if tag.startswith('bad:'):
        return None if v.startswith('reject') else 'a catalog violating one rule (%s) was accepted' % tag[4:]
    if tag.startswith('sub:'):
        exp = tag.split(':')[2]
        if exp == 'ok':
            return None if v == 'accept' else 'a conforming value was rejected by the sub-check %s (%s)' % (tag.split(':')[1], v)
        return None if v.startswith('reject') else 'a non-conforming value was accepted by the sub-check %s' % tag.split(':')[1]
    return None


def _mut(tag):
    return re.sub(r'-\d+$', '', tag[4:].split('@')[0])


def known_class(kid, case, obs, prof):
    """C10-any-typed-entries-unchecked: the violated rule sits on a dictionary entry whose declared check has type
    Any (/Parent: any value but necessarily indirect; the name trees of /Names; the number tree of /PageLabels)."""
    if kid != KF_ANY or _verdict(obs) != 'accept':
        return False
    tag = case.split(' ', 1)[0]
    if tag.startswith('bad:'):
        m = _mut(tag)
        return m in ('parent-direct-dict', 'parent-array', 'parent-int') or m.startswith('namedict-tree-') or \
            m.startswith('numtree-tree-')
    if tag.startswith('sub:'):
        # the name dictionary on its own: its entries are the Any-typed name trees
        return tag.split(':')[1] == hk('Names') and tag.split(':')[2] == 'bad'
    return False


def nontrivial(case, obs):
    tag, ctx, root = case.split(' ')
    if tag == 'ok':
        return ctx.count('=') >= 2
    if tag.startswith('bad:'):
        return True
    if tag.startswith('sub:'):
        return root != 'n'
    return False


def classify(case, obs):
    tag = case.split(' ', 1)[0]
    v = _verdict(obs).split(' ')[0]
    if tag.startswith('bad:'):
        m = _mut(tag).split('-')
        return 'bad:%s:%s' % (m[0], v)
    if tag.startswith('sub:'):
        return 'sub:%s:%s' % (tag.split(':')[2], v)
    return tag + ':' + v


LEVEL_TEXT = ('Coq theorems about the specification DUMPED from catalog_type(&mut tctx) on every run (coq/gen/Shipped.v): (1) it is, '
              'entry for entry, the specification written by hand in Spec/PageTreeSpec.v (required /Type /Pages /Count /Kids; /Parent '
              'required on inner nodes and pages, forbidden on the root node and templates; kids = indirect references to inner node | '
              'page | template, recursion by name; rectangles = 4 numbers; PageMode / PageLayout / Tabs = the ISO 32000 lists; repaired '
              'date and number-tree predicates) plus 17 individual structural facts; (2) for ALL documents of the Spec grammar (page '
              'trees of any depth and fan-out, any declared optional entries direct or indirect, any unmentioned keys): every '
              'well-formed document conforms in the declarative semantics (C10_accepts_decl) and every single-rule violation does '
              'not (C10_rejects_decl); (3) through the C08 transfer theorems, the checker model accepts every well-formed document '
              '(C10_accepts) and rejects every single-rule violation not located in an Any-typed dictionary entry '
              '(C10_rejects_except_known); the model is tied to check_type by a three-way correspondence run (implementation verdict = '
              'checker-model verdict on the dump; declarative verdict on the dump = what the generated case promises; oracle: '
              'conforming => accepted, violation => rejected) over random page trees with every mutation at every position')
LEVEL_NOTE = ('trusted: Coq kernel; the dump path (harness/src/bin/c10dump.rs, harness/src/tcspec.rs Printer, props/c10.py regen: '
              'predicates are identified by behaviour on ~1600 probes); coq/Model/TypeCheck.v and coq/Spec/Conforms.v (contributor '
              'atc, validated by C08/C09); coq/Model/ShippedPreds.v (validated by the sub: cases); extraction + ocaml/drv.ml; '
              'harness/src/bin/c10.rs; the checker-level theorems rest on coq/Proofs/TypeCheckSound.v (C08, contributor atc) and on the '
              'model = implementation correspondence.  Open known finding: Any-typed dictionary entries (/Parent required-indirect, name trees of '
              '/Names, number tree of /PageLabels) are never checked (C10_any_typed_entries_refuted)')
TECHNIQUE = ('translator (run-time dump of the live TypeCheck graph) + Coq: vm_compute for finite facts, induction on the unfolding '
             'depth / over the document tree for the universally quantified declarative theorems + three-way differential '
             'correspondence with systematic single-fault injection')
