"""C12 — text extraction follows the content-stream state diagram (Figure 9, ISO 32000-1)."""
import os, re

ID = 'C12'
PROFILES = ['debug']
THEOREMS = []   # filled below
ALLOWED_AXIOMS = []

CS_RS = 'src/pdf_lib/pdf_content_streams.rs'
OP_RS = 'src/pdf_lib/pdf_operator_types.rs'


# ====================================================================== translator (regen)
class TranslateError(Exception):
    pass


def _strip_comments(src):
    """removes // and /* */ comments, keeps string literals intact."""
    out, i, n = [], 0, len(src)
    while i < n:
        c = src[i]
        if c == '"':
            j = i + 1
            while j < n and src[j] != '"':
                j += 2 if src[j] == '\\' else 1
            out.append(src[i:j + 1])
            i = j + 1
        elif src.startswith('//', i):
            while i < n and src[i] != '\n':
                i += 1
        elif src.startswith('/*', i):
            j = src.find('*/', i + 2)
            if j < 0:
                raise TranslateError('unterminated block comment')
            i = j + 2
        else:
            out.append(c)
            i += 1
    return ''.join(out)


_TOK = re.compile(r'\s*(?:("(?:[^"\\]|\\.)*")|(=>)|(::)|([A-Za-z_][A-Za-z0-9_]*)|([()\[\]{},|&;=_*.:<>!?-]))')


def _tokens(s):
    toks, i = [], 0
    s = s.rstrip()
    while i < len(s):
        m = _TOK.match(s, i)
        if not m:
            raise TranslateError('cannot tokenize near: %r' % s[i:i + 40])
        toks.append(m.group(1) or m.group(2) or m.group(3) or m.group(4) or m.group(5))
        i = m.end()
    return toks


def _unquote(lit):
    """Rust string literal -> bytes (only the escapes \\" \\\\ are understood)."""
    body = lit[1:-1]
    out, i = bytearray(), 0
    while i < len(body):
        if body[i] == '\\':
            if i + 1 < len(body) and body[i + 1] in '"\\':
                out.append(ord(body[i + 1]))
                i += 2
            else:
                raise TranslateError('string escape not understood: %s' % lit)
        else:
            out += body[i].encode('utf-8')
            i += 1
    return bytes(out)


def _coq_bytes(b):
    return '[' + '; '.join('%d%%N' % x for x in b) + ']'


def _comment_name(b):
    return ''.join(chr(x) if (chr(x).isalnum() or x == 42) and x < 128 else '<%02x>' % x for x in b)


def _enum_variants(src, name):
    m = re.search(r'pub enum %s\s*\{([^}]*)\}' % re.escape(name), src)
    if not m:
        raise TranslateError('anchor missing: enum %s' % name)
    vs = [v.strip() for v in m.group(1).split(',') if v.strip()]
    for v in vs:
        if not re.match(r'^[A-Za-z_][A-Za-z0-9_]*$', v):
            raise TranslateError('enum %s: variant with a shape not understood: %r' % (name, v))
    return vs


def _coq_enum(tname, prefix, variants, rust):
    s = '(* enum %s *)\nInductive %s :=\n' % (rust, tname)
    s += ''.join('| %s%s\n' % (prefix, v) for v in variants).rstrip('\n') + '.\n\n'
    s += 'Definition %s_eqb (a b : %s) : bool :=\n  match a, b with\n' % (tname, tname)
    s += ''.join('  | %s%s, %s%s => true\n' % (prefix, v, prefix, v) for v in variants)
    if len(variants) > 1:
        s += '  | _, _ => false\n'
    s += '  end.\n\n'
    s += 'Definition all_%s : list %s := [%s].\n\n' % (tname, tname, '; '.join(prefix + v for v in variants))
    return s


def parse_operators(src):
    """the OPERATORS table: [(name bytes, OpType, [ArgType])] in source order."""
    anchor = 'pub const OPERATORS: &[(&str, (OpType, &[ArgType]))] = &['
    i = src.find(anchor)
    if i < 0:
        raise TranslateError('anchor missing: OPERATORS table')
    j = src.find('\n];', i)
    if j < 0:
        raise TranslateError('anchor missing: end of OPERATORS table')
    toks = _tokens(src[i + len(anchor):j])
    rows, p = [], 0

    def expect(t):
        nonlocal p
        if p >= len(toks) or toks[p] != t:
            raise TranslateError('OPERATORS row %d: expected %r, found %r' % (len(rows) + 1, t, toks[p:p + 3]))
        p += 1

    while p < len(toks):
        expect('(')
        if not toks[p].startswith('"'):
            raise TranslateError('OPERATORS row %d: name is not a string literal' % (len(rows) + 1))
        name = _unquote(toks[p])
        p += 1
        expect(',')
        expect('(')
        expect('OpType')
        expect('::')
        ty = toks[p]
        p += 1
        expect(',')
        expect('&')
        expect('[')
        args = []
        while toks[p] != ']':
            expect('ArgType')
            expect('::')
            args.append(toks[p])
            p += 1
            if toks[p] == ',':
                p += 1
        expect(']')
        if toks[p] == ',':
            p += 1
        expect(')')
        if p < len(toks) and toks[p] == ',':
            p += 1
        expect(')')
        if p < len(toks) and toks[p] == ',':
            p += 1
        rows.append((name, ty, args))
    return rows


def parse_trans(src):
    """the transition match, arm by arm: [(states|None, optypes|None, names|None, next_state)], None = wildcard.
    The last arm must be the catch-all error arm."""
    anchor = 'let next_state = match (&self.state, op_type, op_name.as_str()) {'
    i = src.find(anchor)
    if i < 0:
        raise TranslateError('anchor missing: transition match')
    k = i + len(anchor)
    depth, j = 1, k
    while j < len(src) and depth:
        if src[j] == '"':
            j += 1
            while src[j] != '"':
                j += 2 if src[j] == '\\' else 1
        elif src[j] == '{':
            depth += 1
        elif src[j] == '}':
            depth -= 1
        j += 1
    if depth:
        raise TranslateError('transition match: unbalanced braces')
    body = src[k:j - 1]
    if not src[j:].lstrip().startswith(';'):
        raise TranslateError('transition match: not followed by ";"')
    toks = _tokens(body)
    arms, p = [], 0

    def alts(kind):
        """alternatives of one tuple component, up to ',' or ')'"""
        nonlocal p
        vals = []
        while True:
            t = toks[p]
            if t == '_':
                vals.append(None)
                p += 1
            elif kind == 'name' and t.startswith('"'):
                vals.append(_unquote(t))
                p += 1
            elif kind in ('state', 'optype') and t == ('ParserState' if kind == 'state' else 'OpType') and toks[p + 1] == '::':
                vals.append(toks[p + 2])
                p += 3
            else:
                raise TranslateError('transition match arm %d: pattern component of a shape not understood: %r' % (len(arms) + 1, toks[p:p + 4]))
            if toks[p] == '|':
                p += 1
                continue
            break
        if None in vals:
            if len(vals) != 1:
                raise TranslateError('transition match arm %d: wildcard mixed with alternatives' % (len(arms) + 1))
            return None
        return vals

    catch_all = False
    while p < len(toks):
        if catch_all:
            raise TranslateError('transition match: arms after the catch-all arm')
        if toks[p] == '_':
            # the catch-all: `_ => { …; return Err(…) }`
            if toks[p + 1] != '=>' or toks[p + 2] != '{':
                raise TranslateError('transition match: catch-all arm of a shape not understood')
            d, q = 1, p + 3
            while q < len(toks) and d:
                d += toks[q] == '{'
                d -= toks[q] == '}'
                q += 1
            blk = toks[p + 3:q - 1]
            if 'return' not in blk or 'Err' not in blk or 'ParserState' in blk:
                raise TranslateError('transition match: catch-all arm does not return an error')
            p = q
            if p < len(toks) and toks[p] == ',':
                p += 1
            catch_all = True
            continue
        if toks[p] != '(':
            raise TranslateError('transition match arm %d: does not start with "(": %r' % (len(arms) + 1, toks[p:p + 4]))
        p += 1
        if toks[p] == '&':
            p += 1
        sts = alts('state')
        if toks[p] != ',':
            raise TranslateError('transition match arm %d: expected "," after the state pattern' % (len(arms) + 1))
        p += 1
        tys = alts('optype')
        if toks[p] != ',':
            raise TranslateError('transition match arm %d: expected "," after the operator-type pattern' % (len(arms) + 1))
        p += 1
        nms = alts('name')
        if toks[p] == ',':
            p += 1
        if toks[p] != ')' or toks[p + 1] != '=>':
            raise TranslateError('transition match arm %d: expected ") =>" (guards are not understood): %r' % (len(arms) + 1, toks[p:p + 4]))
        p += 2
        if toks[p] != 'ParserState' or toks[p + 1] != '::':
            raise TranslateError('transition match arm %d: right-hand side is not a ParserState' % (len(arms) + 1))
        nxt = toks[p + 2]
        p += 3
        if p < len(toks) and toks[p] == ',':
            p += 1
        else:
            raise TranslateError('transition match arm %d: right-hand side of a shape not understood' % (len(arms) + 1))
        arms.append((sts, tys, nms, nxt))
    if not catch_all:
        raise TranslateError('transition match: no catch-all error arm')
    return arms


HEADER = ('(* GENERATED by props/c12.py regen() from %s — do not edit.\n'
          '   Regenerated on every ./pv check C12; the theorems in Proofs/Content*.v are re-checked against it. *)\n'
          'From PV Require Import Base.Bytes.\n\n')


def regen(repo):
    ops_src = _strip_comments(open(os.path.join(repo, OP_RS)).read())
    cs_src = _strip_comments(open(os.path.join(repo, CS_RS)).read())
    optypes = _enum_variants(ops_src, 'OpType')
    argtypes = _enum_variants(ops_src, 'ArgType')
    states = _enum_variants(cs_src, 'ParserState')
    rows = parse_operators(ops_src)
    if not rows:
        raise TranslateError('OPERATORS table is empty')
    for name, ty, args in rows:
        if ty not in optypes:
            raise TranslateError('OPERATORS: unknown OpType::%s' % ty)
        for a in args:
            if a not in argtypes:
                raise TranslateError('OPERATORS: unknown ArgType::%s' % a)
    # ---- gen/OpTable.v
    t = HEADER % OP_RS
    t += _coq_enum('optype', 'Op', optypes, 'OpType')
    t += _coq_enum('argtype', 'Arg', argtypes, 'ArgType')
    t += '(* const OPERATORS, %d rows, in source order: (name, (OpType, [ArgType])) *)\n' % len(rows)
    t += 'Definition operators : list (bytes * (optype * list argtype)) := [\n'
    t += ';\n'.join('  (%s, (Op%s, [%s]))  (* %s *)' % (_coq_bytes(n), ty, '; '.join('Arg' + a for a in args),
                                                      _comment_name(n))
                    for n, ty, args in rows)
    t += '\n].\n'
    # ---- gen/Trans.v
    arms = parse_trans(cs_src)
    for sts, tys, nms, nxt in arms:
        for s in (sts or []) + [nxt]:
            if s not in states:
                raise TranslateError('transition match: unknown ParserState::%s' % s)
        for y in tys or []:
            if y not in optypes:
                raise TranslateError('transition match: unknown OpType::%s' % y)
    u = HEADER % CS_RS
    u += 'From PV Require Import gen.OpTable.\n\n'
    u += _coq_enum('state', 'S', states, 'ParserState')
    u += ('(* `let next_state = match (&self.state, op_type, op_name.as_str()) { … }` — one conditional per arm, in\n'
          '   source order (the first matching arm wins); the catch-all error arm is [None]. %d arms. *)\n' % len(arms))
    u += 'Definition trans (st : state) (ty : optype) (name : bytes) : option state :=\n'
    for sts, tys, nms, nxt in arms:
        def disj(vals, f):
            if vals is None:
                return 'true'
            return '(' + ' || '.join(f(v) for v in vals) + ')'
        cond = ' && '.join([disj(sts, lambda s: 'state_eqb st S%s' % s),
                            disj(tys, lambda y: 'optype_eqb ty Op%s' % y),
                            disj(nms, lambda n: 'bytes_eqb name %s' % _coq_bytes(n))])
        u += '  if %s\n  then Some S%s else\n' % (cond, nxt)
    u += '  None.\n'
    return {'gen/OpTable.v': t, 'gen/Trans.v': u}


# ====================================================================== case protocol
# python token: ('op', bytes) | ('n',) ('b', bool) ('i', int) ('q', num, den) ('s', bytes) ('m', bytes)
#               ('A', [obj]) ('D', [(key, obj)])   (dict keys sorted, unique, no null values)
def tok_text(t):
    k = t[0]
    if k == 'op':
        return 'o' + t[1].hex()
    if k == 'n':
        return 'n'
    if k == 'b':
        return 't' if t[1] else 'f'
    if k == 'i':
        return 'i%d' % t[1]
    if k == 'q':
        return 'q%d/%d' % (t[1], t[2])
    if k == 's':
        return 's' + t[1].hex()
    if k == 'm':
        return 'm' + t[1].hex()
    if k == 'A':
        return 'A(' + ','.join(tok_text(x) for x in t[1]) + ')'
    if k == 'D':
        return 'D(' + ','.join(key.hex() + ':' + tok_text(v) for key, v in t[1]) + ')'
    raise ValueError(t)


def parse_tok(s):
    """inverse of tok_text (for the oracle, which works from the case line)."""
    pos = 0

    def hexrun():
        nonlocal pos
        st = pos
        while pos < len(s) and s[pos] in '0123456789abcdef':
            pos += 1
        return bytes.fromhex(s[st:pos])

    def num():
        nonlocal pos
        st = pos
        while pos < len(s) and (s[pos].isdigit() or s[pos] == '-'):
            pos += 1
        return int(s[st:pos])

    def obj():
        nonlocal pos
        c = s[pos]
        pos += 1
        if c == 'n':
            return ('n',)
        if c == 't':
            return ('b', True)
        if c == 'f':
            return ('b', False)
        if c == 'i':
            return ('i', num())
        if c == 'q':
            n = num()
            assert s[pos] == '/'
            pos += 1
            return ('q', n, num())
        if c == 's':
            return ('s', hexrun())
        if c == 'm':
            return ('m', hexrun())
        if c == 'A':
            assert s[pos] == '('
            pos += 1
            l = []
            while s[pos] != ')':
                if s[pos] == ',':
                    pos += 1
                    continue
                l.append(obj())
            pos += 1
            return ('A', l)
        if c == 'D':
            assert s[pos] == '('
            pos += 1
            l = []
            while s[pos] != ')':
                if s[pos] == ',':
                    pos += 1
                    continue
                k = hexrun()
                assert s[pos] == ':'
                pos += 1
                l.append((k, obj()))
            pos += 1
            return ('D', l)
        raise ValueError(s)

    if s[0] == 'o':
        return ('op', bytes.fromhex(s[1:]))
    o = obj()
    assert pos == len(s), s
    return o


# ---------------------------------------------------------------------- rendering tokens to stream bytes
_REG = set(range(33, 127)) - set(b'()<>[]{}/%#')


def r_name(b):
    return b'/' + b''.join(bytes([c]) if c in _REG else b'#%02x' % c for c in b)


def _lit_ok(v):
    if b'\\' in v:
        return False
    d = 0
    for c in v:
        if c == 40:
            d += 1
        elif c == 41:
            d -= 1
            if d < 0:
                return False
    return d == 0


def r_str(v, rng):
    if _lit_ok(v) and (rng is None or rng.random() < 0.7):
        return b'(' + v + b')'
    h = v.hex()
    if rng is not None and rng.random() < 0.3:
        h = h.upper()
    return b'<' + h.encode() + b'>'


def r_real(n, d):
    if d == 1:
        return b'%d' % n          # beyond i64: RealT(n, 1)
    k = len(str(d)) - 1
    assert d == 10 ** k and k >= 1
    s = str(abs(n)).rjust(k + 1, '0')
    return (b'-' if n < 0 else b'') + s[:-k].encode() + b'.' + s[-k:].encode()


def r_obj(t, rng):
    k = t[0]
    if k == 'n':
        return b'null'
    if k == 'b':
        return b'true' if t[1] else b'false'
    if k == 'i':
        return b'%d' % t[1]
    if k == 'q':
        return r_real(t[1], t[2])
    if k == 's':
        return r_str(t[1], rng)
    if k == 'm':
        return r_name(t[1])
    if k == 'A':
        return b'[' + b' '.join(r_obj(x, rng) for x in t[1]) + b']'
    if k == 'D':
        return b'<<' + b' '.join(r_name(key) + b' ' + r_obj(v, rng) for key, v in t[1]) + b'>>'
    raise ValueError(t)


def render(toks, rng=None, fancy=False):
    """canonical spelling: single spaces.  fancy: random white space / comments / no space at delimiters."""
    parts = [t[1] if t[0] == 'op' else r_obj(t, rng) for t in toks]
    if not fancy or rng is None:
        return b' '.join(parts)
    out = bytearray(rng.choice([b'', b'', b' ', b'\n', b'%x\n', b'\t']))
    for i, p in enumerate(parts):
        if i:
            prev = parts[i - 1]
            glue_ok = prev[-1:] in b')]>' or p[:1] in b'([</'
            r = rng.random()
            if glue_ok and r < 0.3:
                sep = b''
            elif r < 0.75:
                sep = b' '
            else:
                sep = rng.choice([b'\n', b'  ', b'\r\n', b'\t', b' %c (x) Tj\n', b'\x00', b'\x0c', b'%\n'])
            out += sep
        out += p
    out += rng.choice([b'', b'', b' ', b'\n', b' %end', b'%e\n', b'\r\n'])
    return bytes(out)


def case_line(toks, rng=None, fancy=False):
    b = render(toks, rng, fancy)
    return ' '.join(['T', b.hex() or '-'] + [tok_text(t) for t in toks])


# ====================================================================== Figure 9 in python (for generators and oracle)
# written from ISO 32000-1 Table 51 + Figure 9, independently of the Coq files and of the Rust table.
CLASSES = {
    'GGS': ['w', 'J', 'j', 'M', 'd', 'ri', 'i', 'gs'],
    'SGS': ['q', 'Q', 'cm'],
    'PC': ['m', 'l', 'c', 'v', 'y', 'h', 're'],
    'PP': ['S', 's', 'f', 'F', 'f*', 'B', 'B*', 'b', 'b*', 'n'],
    'CP': ['W', 'W*'],
    'TO': ['BT', 'ET'],
    'TS': ['Tc', 'Tw', 'Tz', 'TL', 'Tf', 'Tr', 'Ts'],
    'TP': ['Td', 'TD', 'Tm', 'T*'],
    'TX': ['Tj', 'TJ', "'", '"'],
    'T3': ['d0', 'd1'],
    'CO': ['CS', 'cs', 'SC', 'SCN', 'sc', 'scn', 'G', 'g', 'RG', 'rg', 'K', 'k'],
    'SH': ['sh'],
    'II': ['BI', 'ID', 'EI'],
    'XO': ['Do'],
    'MC': ['MP', 'DP', 'BMC', 'BDC', 'EMC'],
    'CX': ['BX', 'EX'],
}
CLASS_OF = {n.encode(): k for k, l in CLASSES.items() for n in l}
ALL_OPS = [n.encode() for k, l in CLASSES.items() for n in l]
assert len(ALL_OPS) == 73 and len(set(ALL_OPS)) == 73
STATES = ['page', 'text', 'path', 'clip', 'inline']


def fig9(s, n):
    k = CLASS_OF.get(n)
    if k is None:
        return None
    if s == 'page':
        if k in ('GGS', 'SGS', 'CO', 'TS', 'MC', 'CX', 'SH', 'XO'):
            return 'page'
        if n == b'BT':
            return 'text'
        if n in (b'm', b're'):
            return 'path'
        if n == b'BI':
            return 'inline'
        return None
    if s == 'text':
        if k in ('GGS', 'CO', 'TS', 'TX', 'TP', 'MC', 'CX'):
            return 'text'
        if n == b'ET':
            return 'page'
        return None
    if s == 'path':
        return {'PC': 'path', 'PP': 'page', 'CP': 'clip'}.get(k)
    if s == 'clip':
        return 'page' if k == 'PP' else None
    if s == 'inline':
        return {b'ID': 'inline', b'EI': 'page'}.get(n)
    raise ValueError(s)


def _isnum(o):
    return o[0] in ('i', 'q')


def operands_ok(ops, n):
    if n in (b'Tj', b"'"):
        return len(ops) == 1 and ops[0][0] == 's'
    if n == b'"':
        return len(ops) == 3 and _isnum(ops[0]) and _isnum(ops[1]) and ops[2][0] == 's'
    if n == b'TJ':
        return len(ops) == 1 and ops[0][0] == 'A' and all(x[0] == 's' or _isnum(x) for x in ops[0][1])
    return True


def out_of(ops, n):
    """documented output of one (well-formed) operator application: list of 'S' / ('x', bytes)"""
    if n == b'Tj':
        return [('x', ops[0][1])]
    if n in (b"'", b'"'):
        return ['S', ('x', ops[-1][1])]
    if n == b'TJ':
        return [('x', x[1]) for x in ops[0][1] if x[0] == 's']
    if n in (b'BT', b'ET', b'Td', b'TD', b'T*'):
        return ['S']
    return []


def items_of(toks):
    """groups a token list into operator applications; returns (items, trailing operands)"""
    items, cur = [], []
    for t in toks:
        if t[0] == 'op':
            items.append((cur, t[1]))
            cur = []
        else:
            cur.append(t)
    return items, cur


def judge(items):
    """('legal', expected tokens) | ('illegal', reason) | ('unspecified', why), per the property text."""
    s, d, out = 'page', 0, []
    for idx, (ops, n) in enumerate(items):
        if n not in CLASS_OF:
            if d == 0:
                return ('illegal', ('unknown', idx, n))
            continue
        s2 = fig9(s, n)
        if s2 is None:
            return ('illegal', ('state', idx, s, n))
        if not operands_ok(ops, n):
            return ('illegal', ('operands', idx, n, ops))
        if n == b'EX' and d == 0:
            return ('unspecified', 'EX without BX')
        out += out_of(ops, n)
        d = d + 1 if n == b'BX' else d - 1 if n == b'EX' else d
        s = s2
    return ('legal', out)


def show_expected(out):
    return 'ok' + ''.join(' S' if t == 'S' else ' x' + (t[1].hex() or '-') for t in out)


def parse_case(case):
    f = case.split(' ')
    toks = [parse_tok(x) for x in f[2:]]
    return f[0], (b'' if f[1] == '-' else bytes.fromhex(f[1])), toks


def oracle(case, obs, prof):
    kind, _, toks = parse_case(case)
    if obs.startswith('lexdiff') or obs in ('badcase', 'panic') or obs.startswith(('crash', 'timeout', 'missing')):
        return 'the case was not observed properly: %s' % obs[:80]
    if kind == 'B':
        # arbitrary bytes: the property only asks for a verdict — text or a (guard) error, never a panic
        return None if obs.startswith('ok') or obs == 'err guard' else 'arbitrary bytes: expected text or a guard error, got "%s"' % obs[:80]
    items, trailing = items_of(toks)
    if trailing:
        return None                      # operands after the last operator: not a stream of operator applications
    v = judge(items)
    if v[0] == 'legal':
        exp = show_expected(v[1])
        return None if obs == exp else 'legal walk of Figure 9: expected "%s", implementation gave "%s"' % (exp[:200], obs[:200])
    if v[0] == 'illegal':
        return None if obs.startswith('err ') else 'stream must be rejected (%s) but implementation gave "%s"' % (_why(v[1]), obs[:200])
    return None


def _why(r):
    if r[0] == 'unknown':
        return 'unknown operator %r outside BX/EX at item %d' % (r[2], r[1])
    if r[0] == 'state':
        return 'operator %r not permitted at level %s, item %d' % (r[3], r[2], r[1])
    return 'operands of %r have the wrong number or kind, item %d' % (r[2], r[1])


def known_class(kid, case, obs, prof):
    """is this failing case an instance of known finding kid?  (as narrow as possible)"""
    kind, _, toks = parse_case(case)
    if kind != 'T':
        return False
    items, trailing = items_of(toks)
    if trailing:
        return False
    v = judge(items)
    if kid == 'C12-empty':
        return v[0] == 'legal' and not items and obs == 'err guard'
    if kid == 'C12-compat-tail':
        return v[0] == 'legal' and bool(items) and items[-1][1] not in CLASS_OF and obs == 'err guard'
    if v[0] != 'illegal' or not obs.startswith('ok'):
        return False
    r = v[1]
    if kid == 'C12-tj-arity':
        return r[0] == 'operands' and r[2] == b'TJ' and len(r[3]) != 1
    if kid == 'C12-dquote-kinds':
        return r[0] == 'operands' and r[2] == b'"' and len(r[3]) == 3 and all(o[0] in ('i', 'q', 's') for o in r[3])
    if kid == 'C12-qQ-in-text':
        return r[0] == 'state' and r[2] == 'text' and r[3] in (b'q', b'Q')
    return False


def nontrivial(case, obs):
    kind, raw, toks = parse_case(case)
    if kind == 'B':
        return len(raw) >= 6
    items, trailing = items_of(toks)
    if obs.startswith('ok'):
        return ' x' in obs and len(items) >= 2
    return len(items) >= 2


def classify(case, obs):
    kind, _, toks = parse_case(case)
    if kind == 'B':
        return 'bytes:' + obs.split(' ')[0]
    items, trailing = items_of(toks)
    v = 'trailing' if trailing else judge(items)[0]
    return v + ':' + obs.split(' ')[0]


# ====================================================================== generators
def g_int(rng):
    return ('i', rng.choice([0, 1, -1, 7, 12, 100, -250, 65535, 2 ** 31, -2 ** 63, 2 ** 63 - 1, rng.randrange(-1000, 1000)]))


def g_real(rng):
    k = rng.randrange(1, 4)
    return ('q', rng.randrange(-10 ** 5, 10 ** 5), 10 ** k)


def g_num(rng):
    return g_int(rng) if rng.random() < 0.6 else g_real(rng)


def g_bytes(rng, maxlen=12):
    r = rng.random()
    n = rng.randrange(0, maxlen)
    if r < 0.4:
        return bytes(rng.choice(b'abcdefghijklmnopqrstuvwxyzABCDEFGHIJ 0123456789.,') for _ in range(n))
    if r < 0.6:
        return bytes(rng.choice(b'ab()\\ \n\r') for _ in range(n))
    return bytes(rng.randrange(256) for _ in range(n))


def g_str(rng):
    return ('s', g_bytes(rng))


def g_name(rng):
    n = rng.randrange(0, 6)
    r = rng.random()
    if r < 0.7:
        return ('m', bytes(rng.choice(b'ABCFGXabcdefn0123456789') for _ in range(n)))
    return ('m', bytes(rng.randrange(1, 256) for _ in range(n)))


def g_obj(rng, depth=2):
    """an operand of any kind"""
    r = rng.random()
    if r < 0.2:
        return g_num(rng)
    if r < 0.4:
        return g_str(rng)
    if r < 0.55:
        return g_name(rng)
    if r < 0.62:
        return ('b', rng.random() < 0.5)
    if r < 0.67:
        return ('n',)
    if r < 0.7:
        return ('q', rng.choice([2 ** 63, -2 ** 63 - 1, 10 ** 30]), 1)
    if depth <= 0:
        return g_num(rng)
    if r < 0.87:
        return ('A', [g_obj(rng, depth - 1) for _ in range(rng.randrange(0, 4))])
    keys = sorted(set(g_name(rng)[1] for _ in range(rng.randrange(0, 3))))
    vals = []
    for key in keys:
        v = g_obj(rng, depth - 1)
        if v[0] == 'n':
            v = ('i', 0)        # a null value would drop the entry
        vals.append((key, v))
    return ('D', vals)


def g_tj_array(rng):
    return ('A', [g_str(rng) if rng.random() < 0.6 else g_num(rng) for _ in range(rng.randrange(0, 6))])


NUM_ARITY = {'w': 1, 'J': 1, 'j': 1, 'M': 1, 'i': 1, 'cm': 6, 'm': 2, 'l': 2, 'c': 6, 'v': 4, 'y': 4, 're': 4, 'G': 1, 'g': 1,
             'RG': 3, 'rg': 3, 'K': 4, 'k': 4, 'Tc': 1, 'Tw': 1, 'Tz': 1, 'TL': 1, 'Tr': 1, 'Ts': 1, 'Td': 2, 'TD': 2, 'Tm': 6,
             'd0': 2, 'd1': 6}


def legal_operands(n, rng):
    """operands as Annex A describes them"""
    s = n.decode('latin-1')
    if s in NUM_ARITY:
        return [g_num(rng) for _ in range(NUM_ARITY[s])]
    if s in ('ri', 'gs', 'CS', 'cs', 'sh', 'Do', 'MP', 'BMC'):
        return [g_name(rng)]
    if s == 'd':
        return [('A', [g_num(rng) for _ in range(rng.randrange(0, 3))]), g_num(rng)]
    if s in ('SC', 'sc'):
        return [g_num(rng) for _ in range(rng.randrange(1, 5))]
    if s in ('SCN', 'scn'):
        return [g_num(rng) for _ in range(rng.randrange(0, 5))] + ([g_name(rng)] if rng.random() < 0.5 else [])
    if s == 'Tf':
        return [g_name(rng), g_num(rng)]
    if s in ('DP', 'BDC'):
        return [g_name(rng), g_name(rng) if rng.random() < 0.5 else ('D', [(b'MCID', ('i', 3))])]
    if s == 'ID':
        l = []
        for _ in range(rng.randrange(0, 3)):
            l += [g_name(rng), rng.choice([g_num(rng), g_name(rng), ('b', True)])]
        return l
    if s in ('Tj', "'"):
        return [g_str(rng)]
    if s == '"':
        return [g_num(rng), g_num(rng), g_str(rng)]
    if s == 'TJ':
        return [g_tj_array(rng)]
    return []


UNKNOWN_OPS = [b'foo', b'R', b'obj', b'x', b'BTX', b'tj', b'Tj2', b'+3', b'T', b'**', b'endstream', b'\xc3\xa9', b'a#41b', b'QQ']
# note: 'a#41b' is decoded by OperatorP to 'aAb'
UNKNOWN_TOK = {b'a#41b': b'aAb'}

PREFIX = {'page': [], 'text': [(b'BT', [])], 'path': [(b'm', [('i', 0), ('i', 0)])],
          'clip': [(b'm', [('i', 0), ('i', 0)]), (b'W', [])], 'inline': [(b'BI', [])]}
PROBES = [[(b'BT', []), (b'ET', [])], [(b'Tj', [('s', b'p')])], [(b'l', [('i', 1), ('i', 1)])], [(b'n', [])], [(b'ID', [])]]


def toks_of(seq):
    """[(name, operands)] -> token list"""
    out = []
    for n, ops in seq:
        out += list(ops) + [('op', n)]
    return out


def gen_pairs(rng):
    out = []
    for depth in (0, 1):
        for s in STATES:
            pre = ([(b'BX', [])] if depth else []) + PREFIX[s]
            for n in ALL_OPS + [b'foo', b'R']:
                step = (n, legal_operands(n, rng) if n in CLASS_OF else [])
                out.append(case_line(toks_of(pre + [step])))
                for pr in PROBES:
                    out.append(case_line(toks_of(pre + [step] + pr)))
    return out


def random_walk(rng, maxlen=60, junk=0.1):
    """a legal walk of the diagram: [(name, operands)]"""
    s, d, seq = 'page', 0, []
    n_steps = rng.randrange(1, maxlen + 1)
    while len(seq) < n_steps:
        if d > 0 and rng.random() < 0.15:
            u = rng.choice(UNKNOWN_OPS)
            seq.append((u, [g_obj(rng) for _ in range(rng.randrange(0, 3))]))
            continue
        allowed = [n for n in ALL_OPS if fig9(s, n) is not None and not (n == b'EX' and d == 0)]
        # weights: favour text, leave objects eventually
        w = []
        for n in allowed:
            k = CLASS_OF[n]
            w.append(8 if k == 'TX' else 4 if k in ('TO', 'TP') else 3 if k in ('PP', 'CX') or n in (b'EI', b'ID') else 1)
        n = rng.choices(allowed, w)[0]
        ops = legal_operands(n, rng)
        if CLASS_OF[n] not in ('TX',) and rng.random() < junk:
            # the property does not constrain the operands of other operators
            ops = [g_obj(rng) for _ in range(rng.randrange(0, 4))]
        seq.append((n, ops))
        d = d + 1 if n == b'BX' else d - 1 if n == b'EX' else d
        s = fig9(s, n)
    return seq


def state_at(seq, i):
    s, d = 'page', 0
    for n, ops in seq[:i]:
        if n in CLASS_OF:
            d = d + 1 if n == b'BX' else max(d - 1, 0) if n == b'EX' else d
            s = fig9(s, n)
    return s, d


def retype(o, rng):
    cands = [g_int(rng), g_real(rng), g_str(rng), g_name(rng), ('b', True), ('n',), ('A', [g_str(rng)]), ('D', [])]
    cands = [c for c in cands if c[0] != o[0]]
    return rng.choice(cands)


def deviations(seq, rng, k=4):
    """single-step deviations of a legal walk"""
    out = []
    if not seq:
        return out
    for _ in range(k):
        i = rng.randrange(len(seq))
        s, d = state_at(seq, i)
        n, ops = seq[i]
        r = rng.random()
        new = None
        if r < 0.3:
            bad = [m for m in ALL_OPS if fig9(s, m) is None]
            if bad:
                m = rng.choice(bad)
                new = seq[:i] + [(m, legal_operands(m, rng))] + seq[i + 1:]
        elif r < 0.45:
            if d == 0:
                new = seq[:i] + [(rng.choice(UNKNOWN_OPS), [])] + seq[i:]
        else:
            tx = [j for j, (m, _) in enumerate(seq) if m in (b'Tj', b'TJ', b"'", b'"')]
            j = rng.choice(tx) if tx and rng.random() < 0.85 else i
            m, mops = seq[j]
            mops = list(mops)
            q = rng.random()
            if q < 0.3 and mops:
                del mops[rng.randrange(len(mops))]
            elif q < 0.55:
                mops.insert(rng.randrange(len(mops) + 1), g_obj(rng))
            elif q < 0.85 and mops:
                p = rng.randrange(len(mops))
                mops[p] = retype(mops[p], rng)
            elif mops and mops[-1][0] == 'A' and mops[-1][1]:
                a = list(mops[-1][1])
                p = rng.randrange(len(a))
                a[p] = rng.choice([g_name(rng), ('b', False), ('n',), ('A', []), ('D', [])])
                mops[-1] = ('A', a)
            else:
                mops = mops + [g_str(rng)]
            new = seq[:j] + [(m, mops)] + seq[j + 1:]
        if new is not None:
            out.append(new)
    return out


def fix_unknown(toks):
    return [('op', UNKNOWN_TOK.get(t[1], t[1])) if t[0] == 'op' else t for t in toks]


def line(seq, rng, fancy):
    """case line of an operator sequence; the token list names operators as the lexer decodes them"""
    toks = toks_of(seq)
    b = render(toks, rng, fancy)
    return ' '.join(['T', b.hex() or '-'] + [tok_text(t) for t in fix_unknown(toks)])


FIXED = [
    # (stream bytes, tokens) written by hand: spellings the renderer does not produce
    (b'BT (a\\)b) Tj (a(b)c) \' ET', [('op', b'BT'), ('s', b'a\\)b'), ('op', b'Tj'), ('s', b'a(b)c'), ('op', b"'"), ('op', b'ET')]),
    (b'BT<41>Tj[(a)-120(b)]TJ ET', [('op', b'BT'), ('s', b'A'), ('op', b'Tj'), ('A', [('s', b'a'), ('i', -120), ('s', b'b')]), ('op', b'TJ'), ('op', b'ET')]),
    (b'BT <4 1 4> Tj ET', [('op', b'BT'), ('s', b'A@'), ('op', b'Tj'), ('op', b'ET')]),
    (b'BT 5. 007 -.5 (x) " ET', [('op', b'BT'), ('i', 5), ('i', 7), ('q', -5, 10), ('s', b'x'), ('op', b'"'), ('op', b'ET')]),
    (b'%PS\nBT %c\n(a) %d\nTj\n ET', [('op', b'BT'), ('s', b'a'), ('op', b'Tj'), ('op', b'ET')]),
    # a comment ends at LF only (Comment::parse), not at CR
    (b'BT (a) %d\rTj\n ET', [('op', b'BT'), ('s', b'a'), ('op', b'ET')]),
    (b'1 0 R m', [('i', 1), ('i', 0), ('op', b'R'), ('op', b'm')]),
    (b'BT [(a) 1 0 R] TJ ET', None),
    (b'q 1 0 0 1 0 0 cm BT /F1 12 Tf 72 712 Td (Hello) Tj T* [(W) 20 (orld)] TJ ET Q',
     [('op', b'q'), ('i', 1), ('i', 0), ('i', 0), ('i', 1), ('i', 0), ('i', 0), ('op', b'cm'), ('op', b'BT'), ('m', b'F1'), ('i', 12),
      ('op', b'Tf'), ('i', 72), ('i', 712), ('op', b'Td'), ('s', b'Hello'), ('op', b'Tj'), ('op', b'T*'),
      ('A', [('s', b'W'), ('i', 20), ('s', b'orld')]), ('op', b'TJ'), ('op', b'ET'), ('op', b'Q')]),
]


_MUT = b'()<>[]/% \n\\#.-+09aRT\x00\xff'


def byte_mutants(line_, rng, k):
    """the stream of a T case as raw bytes ('B' case) after k random single-byte edits / a truncation"""
    hx = line_.split(' ')[1]
    if hx == '-':
        return []
    out = []
    for _ in range(k):
        m = bytearray(bytes.fromhex(hx))
        r = rng.random()
        if r < 0.25:
            del m[rng.randrange(len(m)):]
        elif r < 0.55:
            m[rng.randrange(len(m))] = rng.choice(_MUT)
        elif r < 0.85:
            m.insert(rng.randrange(len(m) + 1), rng.choice(_MUT))
        else:
            i = rng.randrange(len(m))
            del m[i:i + rng.randrange(1, 4)]
        out.append('B ' + (bytes(m).hex() or '-'))
    return out


def cases(tier, rng):
    out = []
    # hand-written spellings
    for b, toks in FIXED:
        if toks is not None:
            out.append(' '.join(['T', b.hex()] + [tok_text(t) for t in toks]))
    # malformed / boundary streams
    for seq, trailing in [([], []), ([(b'BT', [])], [('s', b'a')]), ([], [('i', 1)]), ([(b'EX', [])], []),
                          ([(b'EX', []), (b'BT', []), (b'Tj', [('s', b'a')])], []), ([(b'BX', []), (b'EX', []), (b'EX', [])], []),
                          ([(b'BX', []), (b'foo', [])], []), ([(b'BX', []), (b'BX', []), (b'foo', []), (b'EX', []), (b'bar', []), (b'EX', [])], []),
                          ([(b'BX', []), (b'EX', []), (b'foo', [])], []), ([(b'BT', []), (b'BX', []), (b'foo', [('s', b'z')]), (b'Tj', [('s', b'a')])], []),
                          ([(b'BT', []), (b'TJ', [])], []), ([(b'BT', []), (b'TJ', [('s', b'a'), ('A', [('s', b'b')])]), (b'ET', [])], []),
                          ([(b'BT', []), (b'"', [('s', b'a'), ('s', b'b'), ('s', b'c')])], []), ([(b'BT', []), (b'"', [('i', 1), ('i', 2), ('i', 3)])], []),
                          ([(b'BT', []), (b'q', []), (b'Q', []), (b'ET', [])], []), ([(b'BT', []), (b'cm', [('i', 1)] * 6)], [])]:
        toks = toks_of(seq) + trailing
        out.append(case_line(toks))
    for ws in (b' ', b'\n', b'%only a comment', b'%c\n  '):
        out.append('T ' + ws.hex())
    # every (level, operator) pair
    out += gen_pairs(rng)
    # random legal walks and their single-step deviations
    n = 40000 if tier == 'thorough' else 2500
    for i in range(n):
        seq = random_walk(rng, 60 if i % 3 else 8)
        fancy = rng.random() < 0.5
        out.append(line(seq, rng, fancy))
        if i % 2 == 0:
            out += byte_mutants(out[-1], rng, 2)
        for dv in deviations(seq, rng, 3 if tier == 'thorough' else 2):
            out.append(line(dv, rng, rng.random() < 0.3))
    return out


def shrink(v, observe):
    """drops operator applications (then operands) while the oracle still fails"""
    case = v['case']
    kind, _, toks = parse_case(case)
    if kind != 'T':
        return v
    items, trailing = items_of(toks)
    if trailing:
        return v

    def mk(its):
        return case_line(toks_of([(n, ops) for ops, n in its]))

    def fails(its):
        c = mk(its)
        o = observe(c)
        return c, o, oracle(c, o, v['profile'])

    changed = True
    while changed and len(items) > 1:
        changed = False
        for i in range(len(items)):
            cand = items[:i] + items[i + 1:]
            c, o, m = fails(cand)
            if m:
                items, changed = cand, True
                break
    c, o, m = fails(items)
    if m:
        v = dict(v, case=c, impl=o, oracle=m)
    return v


THEOREMS[:] = ['C12_table_sweep', 'C12_table', 'C12_known_operators', 'C12_extract',
               'C12_reject', 'C12_extract_bytes', 'C12_reject_bytes', 'C12_extract_bytes_total',
               'C12_extract_bytes_total_release', 'C12_extract_total', 'C12_lex_render', 'C12_extract_bytes_rendered',
               'C12_reject_bytes_rendered', 'C12_operator_spelling']
RULE = ('exhaustive: every (level, operator) pair (5 levels x 73 operators + 2 unknown operators, at compatibility depth 0 and 1), '
        'reached by a shortest legal prefix, alone and followed by 5 probes that identify the level reached; generative: random '
        'walks of Figure 9 (length <= 60, operands as in Annex A or of any kind where the property does not constrain them, '
        'strings over all byte values, nested BX with unknown operators), rendered canonically or with random white space / '
        'comments / hex strings, and single-step deviations of each walk (operator illegal at the level, unknown operator '
        'outside BX, operand of a text-showing operator dropped / added / retyped, bad TJ array element); plus empty, '
        'comment-only and operand-terminated streams; and raw byte streams obtained from rendered walks by truncation / single-byte edits (model = cs_lex + extract vs implementation; oracle: a verdict, never a panic).  non-trivial = >= 2 operator applications and (accepted with >= 1 '
        'RawText token, or rejected)')
TRUSTED = ['coq/Model/Content.v: hand transcription of the extractor loop over the token list, coq/Model/ContentLex.v: hand '
           'transcription of CSObjP on top of Model/Prim.v + Model/Obj.v (both validated by the correspondence run); '
           'gen/OpTable.v and gen/Trans.v are translated from the Rust sources on every run by props/c12.py regen()',
           'coq/Spec/Fig9.v: Figure 9 / Table 51 / Table 109 of ISO 32000-1 and the documented separator tokens, written by hand '
           '(reading decisions R1-R5 listed in its header)',
           'coq/Spec/ContentSpelling.v (spellings of a content stream, on top of Spec/Spelling.v of C02): hand-written']
ASSUMPTIONS = ['operand objects are not comments (the lexer never produces one: WhitespaceEOL consumes comments)',
               'fewer than 2^64 nested BX; lexer panics (2^31 nested parentheses in a literal string) are propagated as Panic',
               'the PDFObjContext recursion bound is the caller\'s (50 in the runner)']
LEVEL_TEXT = ('Coq theorems: (1) for every level of Figure 9 and every operator name the implementation (OPERATORS table lookup + the '
              'transition match, both translated from the Rust source on every run) permits the operator iff Figure 9 does and moves '
              'to the same level - a kernel-computed sweep over 5 x (73 + 73) pairs lifted to all names; (2) every legal '
              'walk (any length, nested BX with unknown operators, any operands where the property does not constrain them) is '
              'accepted and yields exactly the documented tokens; (3) every stream with an operator not permitted at its level, an '
              'unknown operator outside BX/EX or a text-showing operator with wrong operand count/kind is rejected - by induction on '
              'the operator list with invariant (level, compatibility depth); (4) the same for the bytes whenever the modelled lexer '
              'reads them as such a token list; (5) the byte-level extractor never panics below 2^31 bytes; (6) lexer round trip: every spelling of a stream (any white space/comments, operands in any C02 spelling, operators by name) is lexed as exactly its tokens, so (2)/(3) hold for the bytes of every spelling.  Model tied to the '
              'code by a differential run: every (level, operator) pair with level-identifying probes, random walks, single-step '
              'deviations, byte-level mutants')
LEVEL_NOTE = ('trusted: Coq kernel (vm_compute in the sweep), hand transcriptions coq/Model/Content.v and ContentLex.v (+ Model/Prim.v, '
              'Model/Obj.v of other contributors) validated by the correspondence run, hand-written spec coq/Spec/Fig9.v, translator '
              'props/c12.py regen(), extraction + ocaml/drv.ml, harness/src/bin/c12.rs; no axioms')
TECHNIQUE = ('translated table + match vs hand-written Figure 9: exhaustive kernel computation lifted with forallb_forall; extractor loop: '
             'induction on the operator list with a (level, depth) invariant; differential correspondence model vs implementation')
