"""C11 — the page DOM lists every page once with correctly inherited resources.

case line:  <ctx> <root id> [exp=<expected pages>]
  ctx  = "num.gen=obj;…" in the canonical object text of coq/Base/PdfObj.v / harness/src/pdfobj.rs
  exp= = (only on documents generated from a tree description) the pages the generator expects, computed
         from its own description of the tree, never from the object text: id:kind:fonts:contents|…
The oracle evaluates the property in two independent ways: against `exp=` when present, and always against
a specification-style evaluation of the parsed object text (reachability through /Kids, nearest /Resources
on the discovery path with reference chains resolved completely, contents in document order).
"""
import itertools

ID = 'C11'
PROFILES = ['debug', 'release']
THEOREMS = ['C11_terminates', 'C11_enough_fuel', 'C11_fuel_mono', 'C11_once', 'C11_inherit', 'C11_inherit_tree', 'C11_contents_order']
ALLOWED_AXIOMS = []
CASE_TIMEOUT = 600
RULE = ('page trees over <= 10 objects: every ordered tree shape with <= 5 tree objects x every placement of '
        '/Resources (exhaustive), random trees up to 10 objects; each of /Kids, /Contents, /Resources, /Font reached '
        'through 0..3 references; kids shared between parents or listed twice; kids pointing back to an ancestor or '
        'the root; self-referential and longer looping reference chains in every reference-following position '
        '(/Kids, /Contents, a /Contents array element, /Resources, /Font, a font entry, /Encoding, /FontDescriptor); '
        '/Encoding names over the UTF-8 boundary cases; fonts x descriptors for is_embedded (standard-14 names, /FontDescriptor absent / direct / behind 1-2 references / undefined, /FontFile* reference or not); a malformed stream (deleted keys, wrong types, undefined ids, retargeted references). '
        'non-trivial = distinct case whose DOM has at least one page with a font, or that is rejected with an error')
TRUSTED = ['model of pdf_page_dom.rs / get_resolved_dict in coq/Model/Dom.v (hand transcription, validated by this '
           'correspondence run in debug and release builds)',
           'harness/src/bin/c11.rs runs every case in a child process (8 MiB stack thread, 3 s watchdog): abort and '
           'timeout are observations']
ASSUMPTIONS = ['object identifiers and integers fit the machine types (usize / i64)',
               'the object context is immutable during DOM construction']


# ---------------------------------------------------------------- object text
def hx(b):
    return (b.encode() if isinstance(b, str) else b).hex()


def N_(s):
    return ('name', s.encode() if isinstance(s, str) else s)


def R_(n, g=0):
    return ('ref', n, g)


def I_(i):
    return ('int', i)


def D_(**kw):
    return ('dict', {k.encode(): v for k, v in kw.items()})


def A_(*l):
    return ('arr', list(l))


def S_(d, c):
    return ('stream', d[1] if d[0] == 'dict' else d, c.encode() if isinstance(c, str) else c)


def show(o):
    t = o[0]
    if t == 'null':
        return 'n'
    if t == 'bool':
        return 't' if o[1] else 'f'
    if t == 'int':
        return 'i%d' % o[1]
    if t == 'real':
        return 'q%d/%d' % (o[1], o[2])
    if t == 'str':
        return 's' + o[1].hex()
    if t == 'name':
        return 'm' + o[1].hex()
    if t == 'ref':
        return 'R%d.%d' % (o[1], o[2])
    if t == 'arr':
        return 'A(' + ','.join(show(x) for x in o[1]) + ')'
    if t == 'dict':
        return 'D(' + ','.join('%s:%s' % (k.hex(), show(v)) for k, v in sorted(o[1].items())) + ')'
    if t == 'stream':
        return 'S(D(' + ','.join('%s:%s' % (k.hex(), show(v)) for k, v in sorted(o[1].items())) + '),' + o[2].hex() + ')'
    raise ValueError(t)


def show_ctx(objs):
    """objs: list of ((num, gen), obj) — ids must be unique."""
    return ';'.join('%d.%d=%s' % (i[0], i[1], show(o)) for i, o in objs) or '-'


class Rd:
    def __init__(self, s):
        self.s, self.i = s, 0

    def peek(self):
        return self.s[self.i] if self.i < len(self.s) else ''

    def take(self, chars):
        st = self.i
        while self.i < len(self.s) and self.s[self.i] in chars:
            self.i += 1
        return self.s[st:self.i]

    def expect(self, c):
        assert self.peek() == c, (self.s, self.i, c)
        self.i += 1

    def ents(self):
        d = {}
        while True:
            c = self.peek()
            if c == ')':
                self.i += 1
                return d
            if c == ',':
                self.i += 1
                continue
            k = bytes.fromhex(self.take('0123456789abcdefABCDEF'))
            self.expect(':')
            d[k] = self.obj()

    def obj(self):
        c = self.peek()
        self.i += 1
        if c == 'n':
            return ('null',)
        if c == 't':
            return ('bool', True)
        if c == 'f':
            return ('bool', False)
        if c == 'i':
            return ('int', int(self.take('-0123456789')))
        if c == 'q':
            n = int(self.take('-0123456789'))
            self.expect('/')
            return ('real', n, int(self.take('-0123456789')))
        if c in 'smc':
            h = self.take('0123456789abcdefABCDEF')
            return ({'s': 'str', 'm': 'name', 'c': 'comment'}[c], bytes.fromhex(h))
        if c == 'R':
            n = int(self.take('0123456789'))
            self.expect('.')
            return ('ref', n, int(self.take('0123456789')))
        if c == 'A':
            self.expect('(')
            l = []
            while True:
                c = self.peek()
                if c == ')':
                    self.i += 1
                    return ('arr', l)
                if c == ',':
                    self.i += 1
                    continue
                l.append(self.obj())
        if c == 'D':
            self.expect('(')
            return ('dict', self.ents())
        if c == 'S':
            self.expect('(')
            self.expect('D')
            self.expect('(')
            d = self.ents()
            self.expect(',')
            h = self.take('0123456789abcdefABCDEF')
            self.expect(')')
            return ('stream', d, bytes.fromhex(h))
        raise ValueError('bad tag %r in %r' % (c, self.s[:80]))


def parse_ctx(s):
    ctx = {}
    if s in ('-', ''):
        return ctx
    for part in s.split(';'):
        i, o = part.split('=', 1)
        n, g = i.split('.')
        ctx.setdefault((int(n), int(g)), Rd(o).obj())    # register_obj keeps the first definition of an id
    return ctx


def parse_case(case):
    t = case.split(' ')
    n, g = t[1].split('.')
    exp = None
    for x in t[2:]:
        if x.startswith('exp='):
            exp = x[4:]
    return parse_ctx(t[0]), (int(n), int(g)), exp


# ---------------------------------------------------------------- specification-style evaluation (oracle)
class Bad(Exception):
    """the document is not a type-correct catalog as far as the DOM builder requires"""


def resolve(ctx, o):
    """the object a chain of references leads to; None if an id is undefined or the chain loops."""
    seen = set()
    while o[0] == 'ref':
        i = (o[1], o[2])
        if i in seen or i not in ctx:
            return None
        seen.add(i)
        o = ctx[i]
    return o


def utf8_ok(b):
    try:
        b.decode('utf-8')
        return True
    except UnicodeDecodeError:
        return False


STANDARD_FONTS = [b'Times-Roman', b'Times-Bold', b'Times-Italic', b'Times-BoldItalic', b'Helvetica', b'Helvetica-Bold',
                  b'Helvetica-Oblique', b'Helvetica-BoldOblique', b'Courier', b'Courier-Bold', b'Courier-Oblique',
                  b'Courier-BoldOblique', b'Symbol', b'ZapfDingbats']


def spec_font(ctx, d):
    """(basefont, embedded) of a font dictionary, or Bad.  embedded: 't' for one of the 14 standard Type1 fonts or a
    descriptor with a /FontFile, /FontFile2 or /FontFile3 reference; 'f' for a descriptor without; 'u' without a descriptor."""
    bf = d.get(b'BaseFont')
    if not bf or bf[0] != 'name':
        raise Bad('font without /BaseFont')
    st = d.get(b'Subtype')
    if not st or st[0] != 'name':
        raise Bad('font without /Subtype')
    fd = d.get(b'FontDescriptor')
    emb = 'u'
    if fd is not None:
        if fd[0] == 'ref':
            fd = ctx.get((fd[1], fd[2]))     # one reference, as the library documents for descriptors
        if fd is None or fd[0] != 'dict':
            raise Bad('bad /FontDescriptor')
        nm, fl = fd[1].get(b'FontName'), fd[1].get(b'Flags')
        if not nm or nm[0] != 'name' or not fl or fl[0] != 'int' or not (0 <= fl[1] < 2 ** 63):
            raise Bad('bad font descriptor')
        emb = 't' if any(fd[1].get(k, ('x',))[0] == 'ref' for k in (b'FontFile', b'FontFile2', b'FontFile3')) else 'f'
    if st[1] == b'Type1' and bf[1] in STANDARD_FONTS:
        emb = 't'
    enc = d.get(b'Encoding')
    if enc is not None:
        e = resolve(ctx, enc)
        if e is None or e[0] not in ('name', 'dict') or (e[0] == 'name' and not utf8_ok(e[1])):
            raise Bad('bad /Encoding')
    return (bf[1], emb)


def spec_fonts(ctx, rd):
    """font-resource name -> basefont for a resource dictionary."""
    fv = rd.get(b'Font')
    if fv is None:
        return {}
    f = resolve(ctx, fv)
    if f is None or f[0] != 'dict':
        raise Bad('/Font does not lead to a dictionary')
    out = {}
    for k, v in f[1].items():
        if v[0] == 'ref':
            v = ctx.get((v[1], v[2]))
            if v is None:
                raise Bad('undefined font')
        if v[0] != 'dict':
            raise Bad('font entry is not a dictionary')
        out[k] = spec_font(ctx, v[1])
    return out


def declared_resources(ctx, d):
    """the dictionary that /Resources of dictionary d leads to (through any chain), or None."""
    v = d.get(b'Resources')
    if v is None:
        return None
    r = resolve(ctx, v)
    return r[1] if r is not None and r[0] == 'dict' else None


def spec_kids(ctx, d):
    k = d.get(b'Kids')
    if k is None:
        raise Bad('node without /Kids')
    a = resolve(ctx, k)
    if a is None or a[0] != 'arr':
        raise Bad('/Kids does not lead to an array')
    return [(x[1], x[2]) for x in a[1] if x[0] == 'ref']


def spec_count(d):
    c = d.get(b'Count')
    if not c or c[0] != 'int' or not (0 <= c[1] < 2 ** 63):
        raise Bad('node without /Count')


def spec_contents(ctx, d):
    c = d.get(b'Contents')
    if c is None:
        raise Bad('page without /Contents')
    v = resolve(ctx, c)
    if v is None:
        raise Bad('/Contents leads nowhere')
    if v[0] == 'stream':
        return [v[2]]
    if v[0] != 'arr':
        raise Bad('/Contents is neither a stream nor an array')
    out = []
    for x in v[1]:
        s = resolve(ctx, x)
        if s is None or s[0] != 'stream':
            raise Bad('content array element is not a stream')
        out.append(s[2])
    return out


def spec_dom(ctx, root):
    """{id: ('N'|'L', fonts {name: basefont} in scope (None = none declared above a node), contents)}; raises Bad."""
    cat = ctx.get(root)
    if cat is None:
        return None
    if cat[0] != 'dict':
        raise Bad('catalog is not a dictionary')
    pr = cat[1].get(b'Pages')
    if not pr or pr[0] != 'ref':
        raise Bad('no /Pages reference')
    rt = ctx.get((pr[1], pr[2]))
    if rt is None or rt[0] != 'dict':
        raise Bad('root node missing')
    pages = {}
    # every node is visited once, along the first path on which a breadth-first walk finds it;
    # [scope] is the list of the dictionaries on that path, nearest first
    rd = declared_resources(ctx, rt[1])
    rootfonts = spec_fonts(ctx, rd) if rd is not None else None
    spec_count(rt[1])
    queue = []
    seen = set()

    def push(kids, scope):
        for k in kids:
            if k in ctx and k not in seen:
                seen.add(k)
                queue.append((k, scope))
    push(spec_kids(ctx, rt[1]), [rt[1]])
    while queue:
        i, scope = queue.pop(0)
        o = ctx[i]
        if o[0] != 'dict':
            raise Bad('page-tree object is not a dictionary')
        d = o[1]
        ty = d.get(b'Type')
        if not ty or ty[0] != 'name' or ty[1] not in (b'Pages', b'Page'):
            raise Bad('page-tree object of unexpected type')
        par = d.get(b'Parent')
        if not par or par[0] != 'ref':
            raise Bad('no /Parent')
        # nearest declaration, own first
        fonts = None
        for dd in [d] + scope:
            rd = declared_resources(ctx, dd)
            if rd is not None:
                fonts = spec_fonts(ctx, rd)
                break
        if ty[1] == b'Pages':
            spec_count(d)
            kids = spec_kids(ctx, d)
            pages[i] = ('N', fonts, kids)
            push(kids, [d] + scope)
        else:
            pages[i] = ('L', fonts or {}, spec_contents(ctx, d))
    return rootfonts, pages


# ---------------------------------------------------------------- observation parsing
def parse_obs(obs):
    """{id: (kind, [(name, basefont)], tail)} from an 'ok …' observation."""
    parts = obs.split(' ')
    out = {}
    order = []
    for p in parts[2:]:
        i, rest = p.split('=', 1)
        n, g = i.split('.')
        f = rest.split('/')
        kind, res, tail = f[0], f[1], f[2]
        if res == '~':
            fonts = None
        elif res == '-':
            fonts = {}
        else:
            fonts = {}
            for e in res.split(','):
                q = e.split(':')
                fonts[bytes.fromhex(q[0])] = (bytes.fromhex(q[1]), q[4][2:] if len(q) > 4 else '?')
        key = (int(n), int(g))
        order.append(key)
        out.setdefault(key, []).append((kind, fonts, tail))
    return out, order


def fmt_id(i):
    return '%d.%d' % i


def expected_token(pages):
    """exp= token from the generator's description: {id: (kind, {name: basefont}, [content bytes])}"""
    out = []
    for i in sorted(pages):
        kind, fonts, cont = pages[i]
        fs = ','.join('%s:%s' % (k.hex(), v.hex()) for k, v in sorted(fonts.items())) or '-'
        cs = ','.join(c.hex() or '-' for c in cont) or '-'
        out.append('%s:%s:%s:%s' % (fmt_id(i), kind, fs.replace(':', '~'), cs))
    return 'exp=' + ('|'.join(out) or '-')


def oracle(case, obs, prof):
    if obs in ('abort', 'timeout', 'panic') or obs.startswith('exit:') or obs.startswith('crash') or obs == 'missing':
        return 'DOM construction did not terminate normally: %s' % obs
    if obs in ('badcase', 'notrun'):
        return 'runner could not evaluate the case: %s' % obs
    ctx, root, exp = parse_case(case)
    try:
        spec = spec_dom(ctx, root)
    except Bad as b:
        spec = b
    if spec is None:
        return None if obs == 'noroot' else 'root is undefined but the runner said %s' % obs
    if isinstance(spec, Bad):
        # not a type-correct catalog: a (located) error is what the statement allows
        if exp is not None:
            return 'generator bug: a document with exp= must be well-formed (%s)' % spec
        return None if obs.startswith('err ') else 'malformed document (%s) accepted: %s' % (spec, obs[:200])
    if not obs.startswith('ok '):
        return 'type-correct page tree rejected: %s' % obs
    rootfonts, pages = spec
    got, order = parse_obs(obs)
    # every reachable node and page exactly once, nothing else
    if sorted(order) != sorted(pages.keys()):
        return 'recorded ids %s, reachable ids %s' % (sorted(order), sorted(pages.keys()))
    for i, (kind, fonts, tail) in pages.items():
        gk, gf, gt = got[i][0]
        if gk != kind:
            return 'object %s recorded as %s, is %s' % (fmt_id(i), gk, kind)
        if kind == 'L':
            if gf != fonts:
                return 'page %s has fonts %s, nearest declaration gives %s' % (fmt_id(i), gf, fonts)
            want = ','.join(c.hex() or '-' for c in tail) or '-'
            if gt != want:
                return 'page %s lists contents %s, document order is %s' % (fmt_id(i), gt, want)
    if exp is not None:
        mine = {}
        for i, (kind, fonts, tail) in pages.items():
            mine[i] = (kind, (fonts or {}) if kind == 'L' else {}, tail if kind == 'L' else [])
        gen = {}
        if exp != '-':
            for e in exp.split('|'):
                q = e.split(':')
                n, g = q[0].split('.')
                fs = {}
                if q[2] != '-':
                    for f in q[2].split(','):
                        a, b = f.split('~')
                        fs[bytes.fromhex(a)] = bytes.fromhex(b)
                cs = [] if q[3] == '-' else [b'' if c == '-' else bytes.fromhex(c) for c in q[3].split(',')]
                gen[(int(n), int(g))] = (q[1], fs if q[1] == 'L' else {}, cs if q[1] == 'L' else [])
        obsd = {i: (got[i][0][0], {k: v[0] for k, v in (got[i][0][1] or {}).items()} if got[i][0][0] == 'L' else {},
                    ([] if got[i][0][2] == '-' else [b'' if c == '-' else bytes.fromhex(c) for c in got[i][0][2].split(',')])
                    if got[i][0][0] == 'L' else []) for i in got}
        if obsd != gen:
            return 'DOM differs from the tree the generator built: got %s, built %s' % (obsd, gen)
    return None


def nontrivial(case, obs):
    if obs.startswith('err '):
        return True
    if obs.startswith('ok '):
        return any('=L/' in p and not p.split('/')[1] in ('-', '~') for p in obs.split(' ')[2:])
    return False


def classify(case, obs):
    t = obs.split(' ')
    if t[0] == 'err':
        return 'err:' + t[1].split(':')[0]
    if t[0] == 'ok':
        return 'ok:%d' % min(len(t) - 2, 9)
    return t[0]


# ---------------------------------------------------------------- generators
class Doc:
    """objects under fresh ids"""

    def __init__(self, first=1):
        self.objs = {}
        self.next = first

    def fresh(self):
        n = self.next
        self.next += 1
        return n

    def put(self, o, n=None):
        if n is None:
            n = self.fresh()
        self.objs[(n, 0)] = o
        return n

    def via(self, o, hops):
        """a value that reaches object o through `hops` references (0 = o itself)"""
        for _ in range(hops):
            o = R_(self.put(o))
        return o

    def line(self, root=1, extra=None):
        s = show_ctx(sorted(self.objs.items())) + ' %d.0' % root
        return s + (' ' + extra if extra else '')


def font_obj(basefont, enc=None, descr=None):
    d = {b'Type': N_('Font'), b'Subtype': N_('Type1'), b'BaseFont': N_(basefont)}
    if enc is not None:
        d[b'Encoding'] = enc
    if descr is not None:
        d[b'FontDescriptor'] = descr
    return ('dict', d)


def tree_shapes(n):
    """all ordered rooted trees with n nodes, as nested tuples of children"""
    if n == 1:
        return [()]
    out = []
    # split n-1 nodes among an ordered sequence of subtrees
    def seqs(m):
        if m == 0:
            return [()]
        r = []
        for first in range(1, m + 1):
            for t in tree_shapes(first):
                for rest in seqs(m - first):
                    r.append((t,) + rest)
        return r
    return seqs(n - 1)


def build_tree(shape, rng, res_at, opts):
    """builds the document for a tree shape.  nodes are numbered in preorder (0 = root).
    res_at: set of preorder indices that declare /Resources.  opts: hop counts / forms (callables on rng).
    returns (Doc, description {id: (kind, fonts, contents)}), description computed from the shape only."""
    doc = Doc()
    cat = doc.put(None)          # 1
    desc = {}
    counter = [0]

    def hops(key):
        h = opts.get(key, 0)
        return h(rng) if callable(h) else h

    def mk(sh, parent_id, scope_fonts, is_root, leaf_as_node):
        idx = counter[0]
        counter[0] += 1
        me = doc.put(None)
        d = {}
        fonts_here = None
        if idx in res_at:
            fonts_here = {}
            names = [b'F0'] if rng.random() < 0.7 else [b'F0', ('F%d' % me).encode()]
            if rng.random() < 0.15:
                names = [('G%d' % me).encode()]
            fd = {}
            for nm in names:
                bf = ('B%d%s' % (me, nm.decode())).encode()
                fo = font_obj(bf, enc=opts['enc'](doc, rng) if 'enc' in opts else None,
                              descr=opts['descr'](doc, rng) if 'descr' in opts else None)
                fd[nm] = R_(doc.put(fo)) if rng.random() < 0.8 else fo
                fonts_here[nm] = bf
            fv = doc.via(('dict', fd), hops('font_hops'))
            rd = ('dict', {b'Font': fv, b'ProcSet': A_(N_('PDF'))} if rng.random() < 0.5 else {b'Font': fv})
            d[b'Resources'] = doc.via(rd, hops('res_hops'))
        elif opts.get('empty_res') and rng.random() < 0.1:
            # a /Resources dictionary without /Font still overrides: no fonts at all
            fonts_here = {}
            d[b'Resources'] = doc.via(('dict', {b'ProcSet': A_(N_('PDF'))}), hops('res_hops'))
        scope = fonts_here if fonts_here is not None else scope_fonts
        if not is_root:
            d[b'Parent'] = R_(parent_id)
        is_leaf_page = (len(sh) == 0) and not is_root and not leaf_as_node(rng)
        if is_leaf_page:
            d[b'Type'] = N_('Page')
            d[b'MediaBox'] = A_(I_(0), I_(0), I_(612), I_(792))
            ncont = opts.get('ncont', lambda r: 1)(rng)
            conts = []
            refs = []
            for k in range(ncont):
                body = ('c%d.%d' % (me, k)).encode()
                s = ('stream', {b'Length': I_(len(body))}, body)
                conts.append(body)
                refs.append(doc.via(R_(doc.put(s)), hops('elem_hops')))
            if ncont == 1 and rng.random() < 0.6:
                d[b'Contents'] = doc.via(refs[0], hops('cont_hops'))
            else:
                d[b'Contents'] = doc.via(('arr', refs), hops('cont_hops'))
            desc[(me, 0)] = ('L', dict(scope or {}), conts)
        else:
            if not is_root or rng.random() < 0.9:
                d[b'Type'] = N_('Pages')
            kid_ids = []
            for ch in sh:
                kid_ids.append(mk(ch, me, scope, False, leaf_as_node))
            d[b'Kids'] = doc.via(('arr', [R_(k) for k in kid_ids]), hops('kids_hops'))
            d[b'Count'] = I_(len(kid_ids))
            if not is_root:
                desc[(me, 0)] = ('N', {}, [])
        doc.objs[(me, 0)] = ('dict', d)
        return me

    rootid = mk(shape, None, None, True, opts.get('leaf_as_node', lambda r: False))
    doc.objs[(cat, 0)] = D_(Type=N_('Catalog'), Pages=R_(rootid))
    return doc, desc


def h03(rng):
    return rng.choice([0, 0, 1, 1, 2, 3])


def std_opts(rng):
    return {'res_hops': h03, 'kids_hops': h03, 'cont_hops': h03, 'font_hops': h03,
            'elem_hops': lambda r: r.choice([0, 0, 0, 1, 2]),
            'ncont': lambda r: r.choice([1, 1, 2, 3, 0]),
            'leaf_as_node': lambda r: r.random() < 0.1,
            'empty_res': True,
            'enc': lambda doc, r: r.choice([None, None, N_('WinAnsiEncoding'), N_('MacRomanEncoding'), N_('Custom'),
                                            doc.via(N_('MacExpertEncoding'), r.choice([1, 2])),
                                            doc.via(('dict', {b'Type': N_('Encoding')}), r.choice([0, 1, 2]))]),
            'descr': lambda doc, r: r.choice([None, None, None,
                                              ('dict', {b'FontName': N_('X'), b'Flags': I_(32)}),
                                              ('dict', {b'FontName': N_('X'), b'Flags': I_(32), b'FontFile2': R_(1)}),
                                              R_(doc.put(('dict', {b'FontName': N_('X'), b'Flags': I_(4)}))),
                                              R_(doc.put(('dict', {b'FontName': N_('X'), b'Flags': I_(4), b'FontFile3': R_(1)})))])}


def random_shape(n, rng):
    """random ordered tree with n nodes: attach node k to a random earlier node"""
    kids = {0: []}
    for k in range(1, n):
        p = rng.randrange(k)
        # prefer attaching to nodes that already are internal, to get depth and fan-out
        kids.setdefault(p, []).append(k)
        kids.setdefault(k, [])

    def t(i):
        return tuple(t(c) for c in kids[i])
    return t(0)


def tree_cases(tier, rng):
    out = []
    reps = 3 if tier == 'thorough' else 1
    # exhaustive: shapes with <= 5 tree objects x every /Resources placement
    for n in range(1, 6):
        for sh in tree_shapes(n):
            for mask in range(1 << n):
                res_at = {i for i in range(n) if mask >> i & 1}
                for rep in range(reps):
                    if rep == 0 and n <= 4:
                        opts = {'res_hops': 0, 'kids_hops': 0, 'cont_hops': 0}
                    else:
                        opts = std_opts(rng)
                    doc, desc = build_tree(sh, rng, res_at, opts)
                    out.append(doc.line(1, expected_token(desc)))
    # exhaustive indirection on a fixed 3-level tree: hops in 0..3 for /Resources x /Kids x /Contents
    sh = (((), ()), ())
    for rh in range(4):
        for kh in range(4):
            for ch in range(4):
                for res_at in ({0, 1, 2}, {1, 3}, {2, 4}, {0, 4}):
                    doc, desc = build_tree(sh, rng, res_at, {'res_hops': rh, 'kids_hops': kh, 'cont_hops': ch,
                                                             'font_hops': (rh + kh) % 4, 'ncont': lambda r: 2,
                                                             'elem_hops': ch % 3})
                    out.append(doc.line(1, expected_token(desc)))
    # random trees with 6..10 tree objects
    n_rand = 1500 if tier == 'thorough' else 250
    for _ in range(n_rand):
        n = rng.randrange(6, 11)
        sh = random_shape(n, rng)
        res_at = {i for i in range(n) if rng.random() < 0.35}
        doc, desc = build_tree(sh, rng, res_at, std_opts(rng))
        out.append(doc.line(1, expected_token(desc)))
    return out


def dicts_of(doc):
    return [i for i, o in doc.objs.items() if o[0] == 'dict']


def tree_ids(doc, kind=None):
    out = []
    for i, o in sorted(doc.objs.items()):
        if o[0] == 'dict' and o[1].get(b'Type', ('x',))[0] == 'name':
            ty = o[1][b'Type'][1]
            if ty in (b'Pages', b'Page') and (kind is None or ty == kind):
                out.append(i)
    return out


def kids_array(doc, i):
    """the (mutable) kids list of node i, following the reference chain"""
    o = doc.objs[i][1].get(b'Kids')
    seen = 0
    while o is not None and o[0] == 'ref' and seen < 10:
        o = doc.objs.get((o[1], o[2]))
        seen += 1
    return o[1] if o is not None and o[0] == 'arr' else None


def graph_cases(tier, rng):
    """shared kids and kid cycles: no exp= token (the discovery path is decided by the breadth-first order,
    which the oracle's specification walk determines on its own)"""
    out = []
    n_it = 1500 if tier == 'thorough' else 300
    for it in range(n_it):
        n = rng.randrange(3, 9)
        sh = random_shape(n, rng)
        res_at = {i for i in range(n) if rng.random() < 0.5}
        doc, _ = build_tree(sh, rng, res_at, std_opts(rng))
        nodes = tree_ids(doc, b'Pages')
        allt = tree_ids(doc)
        rootid = doc.objs[(1, 0)][1][b'Pages']
        rootid = (rootid[1], rootid[2])
        inner = [i for i in doc.objs if doc.objs[i][0] == 'dict' and b'Kids' in doc.objs[i][1]]
        for _ in range(rng.choice([1, 1, 2, 3])):
            src = rng.choice(inner)
            arr = kids_array(doc, src)
            if arr is None:
                continue
            mode = it % 4
            if mode == 0 and allt:        # share: some tree object becomes a kid of another node as well
                tgt = rng.choice(allt)
            elif mode == 1 and arr:       # listed twice
                tgt = None
                arr.insert(rng.randrange(len(arr) + 1), rng.choice(arr))
            elif mode == 2:               # back to the root
                tgt = rootid
                if rng.random() < 0.5:
                    # a root with /Type and /Parent is an ordinary inner node when reached again
                    doc.objs[rootid][1][b'Parent'] = R_(1)
                    doc.objs[rootid][1][b'Type'] = N_('Pages')
            else:                         # back to an ancestor or itself
                tgt = rng.choice(nodes) if nodes else rootid
            if tgt is not None:
                arr.insert(rng.randrange(len(arr) + 1), R_(tgt[0], tgt[1]))
        out.append(doc.line(1))
    return out


def diamond_cases(tier, rng):
    """a page without /Resources of its own that is a kid of two nodes declaring different fonts: which fonts it
    gets depends on which path the queue discovers first (breadth-first, kids in array order)"""
    out = []

    def node(doc, me, parent, kids, res_tag):
        d = {b'Type': N_('Pages'), b'Kids': doc.via(('arr', [R_(k) for k in kids]), rng.choice([0, 0, 1, 2])),
             b'Count': I_(len(kids))}
        if parent is not None:
            d[b'Parent'] = R_(parent)
        if res_tag is not None:
            fo = font_obj(('B' + res_tag).encode())
            d[b'Resources'] = doc.via(('dict', {b'Font': ('dict', {b'F0': R_(doc.put(fo))})}), rng.choice([0, 1, 2]))
        doc.objs[(me, 0)] = ('dict', d)

    def page(doc, me, parent):
        body = ('c%d' % me).encode()
        s = doc.put(('stream', {b'Length': I_(len(body))}, body))
        doc.objs[(me, 0)] = ('dict', {b'Type': N_('Page'), b'Parent': R_(parent), b'Contents': R_(s)})

    reps = 6 if tier == 'thorough' else 2
    for rep in range(reps):
        for order in itertools.permutations(range(3)):
            for tmpl in range(4):
                for rootres in (None, 'root'):
                    doc = Doc()
                    cat, root, a, b, cc, p, p2 = (doc.fresh() for _ in range(7))
                    doc.objs[(cat, 0)] = D_(Type=N_('Catalog'), Pages=R_(root))
                    page(doc, p, a)
                    page(doc, p2, root)
                    top = [a, b, p2]
                    top = [top[i] for i in order]
                    if tmpl == 0:      # P under A and under B (same depth)
                        node(doc, root, None, top, rootres)
                        node(doc, a, root, [p], 'A')
                        node(doc, b, root, [p], 'B')
                    elif tmpl == 1:    # P under A/C (deep) and under B (shallow)
                        node(doc, root, None, top, rootres)
                        node(doc, a, root, [cc], 'A')
                        node(doc, cc, a, [p], 'C' if rep % 2 else None)
                        node(doc, b, root, [p], 'B')
                    elif tmpl == 2:    # the node C (and the page below it) shared by A and B
                        node(doc, root, None, top, rootres)
                        node(doc, a, root, [cc], 'A')
                        node(doc, b, root, [cc], 'B')
                        node(doc, cc, a, [p], None)
                    else:              # P under A and directly under the root, after or before A
                        node(doc, root, None, top + [p] if rep % 2 else [p] + top, rootres)
                        node(doc, a, root, [p], 'A')
                        node(doc, b, root, [], 'B')
                    out.append(doc.line(1))
    # random: some page without its own /Resources becomes a kid of a second node; every node declares fonts
    n_it = 1200 if tier == 'thorough' else 200
    for _ in range(n_it):
        n = rng.randrange(4, 10)
        sh = random_shape(n, rng)
        doc, _d = build_tree(sh, rng, set(), {'kids_hops': h03})
        inner = [i for i in sorted(doc.objs) if doc.objs[i][0] == 'dict' and b'Kids' in doc.objs[i][1]]
        pagesl = tree_ids(doc, b'Page')
        if len(inner) < 2 or not pagesl:
            continue
        for i in inner:
            if rng.random() < 0.8:
                fo = font_obj(('B%d' % i[0]).encode())
                doc.objs[i][1][b'Resources'] = doc.via(('dict', {b'Font': ('dict', {b'F0': fo})}), rng.choice([0, 1, 2]))
        for _k in range(rng.choice([1, 2])):
            tgt = rng.choice(pagesl + [i for i in inner if b'Parent' in doc.objs[i][1]] if rng.random() < 0.3 else pagesl)
            src = rng.choice(inner)
            arr = kids_array(doc, src)
            if arr is not None and src != tgt:
                arr.insert(rng.randrange(len(arr) + 1), R_(tgt[0], tgt[1]))
        out.append(doc.line(1))
    return out


LOOP_POSITIONS = ['kids', 'contents', 'content-elem', 'resources', 'font', 'font-entry', 'encoding', 'descriptor',
                  'root-kids', 'root-resources', 'pages', 'parent']


def loop_value(doc, rng, shape):
    """a value that starts a looping reference chain.  shape: 1 = self-reference, 2 = two-cycle,
    3 = tail into a cycle (a -> b -> c -> b), 0 = direct reference to an undefined id"""
    if shape == 0:
        return R_(900 + rng.randrange(5))
    a = doc.fresh()
    if shape == 1:
        doc.put(R_(a), a)
    elif shape == 2:
        b = doc.fresh()
        doc.put(R_(b), a)
        doc.put(R_(a), b)
    else:
        b, c = doc.fresh(), doc.fresh()
        doc.put(R_(b), a)
        doc.put(R_(c), b)
        doc.put(R_(b), c)
    return R_(a)


def loop_cases(tier, rng):
    """looping reference chains in every reference-following position; the statement demands termination with
    an error or a DOM, never abort/timeout"""
    out = []
    reps = 12 if tier == 'thorough' else 3
    shapes = [(), ((),), ((), ()), (((),),), (((), ()), ())]
    for pos in LOOP_POSITIONS:
        for lshape in (1, 2, 3, 0):
            for sh in shapes:
                for rep in range(reps):
                    n = 1 + sum(1 for _ in _flatten(sh))
                    res_at = {i for i in range(n) if rng.random() < 0.6} | ({0} if rep == 0 else set())
                    doc, _ = build_tree(sh, rng, res_at, std_opts(rng) if rep else {})
                    pagesl = tree_ids(doc, b'Page')
                    inner = [i for i in doc.objs if doc.objs[i][0] == 'dict' and b'Kids' in doc.objs[i][1]]
                    rootref = doc.objs[(1, 0)][1][b'Pages']
                    rootid = (rootref[1], rootref[2])
                    lv = loop_value(doc, rng, lshape)
                    fontdicts = [i for i, o in doc.objs.items() if o[0] == 'dict' and b'BaseFont' in o[1]]
                    resdicts = [i for i, o in doc.objs.items() if o[0] == 'dict' and b'Font' in o[1]]
                    if pos == 'kids' and inner:
                        doc.objs[rng.choice(inner)][1][b'Kids'] = lv
                    elif pos == 'root-kids':
                        doc.objs[rootid][1][b'Kids'] = lv
                    elif pos == 'contents' and pagesl:
                        doc.objs[rng.choice(pagesl)][1][b'Contents'] = lv
                    elif pos == 'content-elem' and pagesl:
                        p = rng.choice(pagesl)
                        body = b'zz'
                        s = R_(doc.put(('stream', {b'Length': I_(2)}, body)))
                        doc.objs[p][1][b'Contents'] = A_(s, lv) if rng.random() < 0.5 else A_(lv, s)
                    elif pos == 'resources' and (pagesl or inner):
                        doc.objs[rng.choice(pagesl + inner)][1][b'Resources'] = lv
                    elif pos == 'root-resources':
                        doc.objs[rootid][1][b'Resources'] = lv
                    elif pos == 'font':
                        tgt = rng.choice(pagesl + inner)
                        doc.objs[tgt][1][b'Resources'] = doc.via(('dict', {b'Font': lv}), rng.choice([0, 1, 2]))
                    elif pos == 'font-entry':
                        tgt = rng.choice(pagesl + inner)
                        doc.objs[tgt][1][b'Resources'] = ('dict', {b'Font': ('dict', {b'F0': lv})})
                    elif pos == 'encoding':
                        tgt = rng.choice(pagesl + inner)
                        fo = font_obj(b'Benc', enc=lv)
                        doc.objs[tgt][1][b'Resources'] = ('dict', {b'Font': ('dict', {b'F0': R_(doc.put(fo)) if rng.random() < 0.5 else fo})})
                    elif pos == 'descriptor':
                        tgt = rng.choice(pagesl + inner)
                        fo = font_obj(b'Bdes', descr=lv)
                        doc.objs[tgt][1][b'Resources'] = ('dict', {b'Font': ('dict', {b'F0': R_(doc.put(fo))})})
                    elif pos == 'pages':
                        doc.objs[(1, 0)][1][b'Pages'] = lv
                    elif pos == 'parent' and (pagesl or inner):
                        doc.objs[rng.choice(pagesl + [i for i in inner if i != rootid] or [rootid])][1][b'Parent'] = lv
                    else:
                        continue
                    out.append(doc.line(1))
    return out


def _flatten(sh):
    for c in sh:
        yield c
        for x in _flatten(c):
            yield x


WRONG = [('int', 7), ('name', b'Page'), ('name', b'Pages'), ('null',), ('bool', True), ('str', b'x'), ('arr', []),
         ('dict', {}), ('real', 1, 2), ('int', -1), ('ref', 999, 0), ('arr', [('int', 1)]),
         ('stream', {b'Length': ('int', 1)}, b'q'), ('name', b'\xff\xfe'), ('name', b'Template')]


def malformed_cases(tier, rng):
    out = []
    n_it = 3000 if tier == 'thorough' else 500
    for _ in range(n_it):
        n = rng.randrange(1, 7)
        sh = random_shape(n, rng)
        res_at = {i for i in range(n) if rng.random() < 0.6}
        doc, _ = build_tree(sh, rng, res_at, std_opts(rng))
        for _ in range(rng.choice([1, 1, 1, 2, 3])):
            ids = sorted(doc.objs.keys())
            i = rng.choice(ids)
            o = doc.objs[i]
            m = rng.randrange(6)
            if m == 0 and i != (1, 0):
                del doc.objs[i]                               # undefined id
            elif m == 1:
                doc.objs[i] = rng.choice(WRONG)               # object of the wrong type
            elif o[0] == 'dict' and o[1]:
                k = rng.choice(sorted(o[1].keys()))
                if m == 2:
                    del o[1][k]                               # required key missing
                elif m == 3:
                    o[1][k] = rng.choice(WRONG)               # value of the wrong type
                elif m == 4:
                    t = rng.choice(ids)
                    o[1][k] = R_(t[0], t[1])                  # retargeted reference
                else:
                    o[1][k] = doc.via(o[1][k], rng.choice([1, 2, 4]))   # extra indirection
            elif o[0] == 'arr' and o[1]:
                j = rng.randrange(len(o[1]))
                o[1][j] = rng.choice(WRONG + [R_(*rng.choice(ids))])
            elif o[0] == 'ref':
                t = rng.choice(ids)
                doc.objs[i] = R_(t[0], t[1])
        root = 1 if rng.random() < 0.97 else rng.choice([2, 77])
        out.append(doc.line(root))
    # degenerate contexts
    out.append('- 1.0')
    out.append('1.0=n 1.0')
    out.append('1.0=D(5061676573:R1.0) 1.0')
    return out


ENC_NAMES = [b'WinAnsiEncoding', b'MacRomanEncoding', b'MacExpertEncoding', b'Identity-H', b'', b'\xc3\xa9', b'\xe2\x82\xac',
             b'\xf0\x9f\x98\x80', b'\xef\xbf\xbf', b'\xf4\x8f\xbf\xbf', b'\xed\x9f\xbf', b'\xee\x80\x80', b'\xc2\x80', b'\xdf\xbf',
             b'\xe0\xa0\x80', b'\xf0\x90\x80\x80', b'a\xc3\xa9b',
             # not UTF-8: overlong forms, surrogates, beyond U+10FFFF, stray and missing continuation bytes
             b'\xc0\x80', b'\xc1\xbf', b'\xe0\x9f\xbf', b'\xed\xa0\x80', b'\xed\xbf\xbf', b'\xf0\x8f\xbf\xbf', b'\xf4\x90\x80\x80',
             b'\xf5\x80\x80\x80', b'\xff', b'\x80', b'\xbf', b'\xc2', b'\xe2\x82', b'\xf0\x9f\x98', b'\xc2\x41', b'\xe2\x41\x80',
             b'\xe2\x82\x41', b'ab\xc3', b'\xf8\x88\x80\x80\x80']


def encoding_cases(tier, rng):
    """/Encoding names: the library decides by std::str::from_utf8 whether the name is an (unknown) encoding or an error"""
    out = []
    for nm in ENC_NAMES:
        for hops in (0, 1):
            doc, _ = build_tree(((),), rng, {0}, {'enc': lambda d, r: d.via(('name', nm), hops)})
            out.append(doc.line(1))
    return out


def embed_cases(tier, rng):
    """what FontDictionary::is_embedded() depends on: /Subtype and /BaseFont (the 14 standard Type1 fonts), the
    /FontDescriptor (absent, direct, behind one reference, behind two = error, undefined) and its /FontFile,
    /FontFile2, /FontFile3 entries (a reference counts, defined or not; anything else does not)"""
    out = []
    fonts = [(b'Type1', b'Helvetica'), (b'Type1', b'Courier-BoldOblique'), (b'Type1', b'ZapfDingbats'), (b'Type1', b'Arial'),
             (b'Type1', b'Helvetica-'), (b'Type1', b'helvetica'), (b'TrueType', b'Helvetica'), (b'Type0', b'Symbol'),
             (b'MMType1', b'Times-Roman'), (b'Type1 ', b'Symbol'), (b'Type1', b'')]
    ok = {b'FontName': N_('X'), b'Flags': I_(4)}
    descrs = [None,
              dict(ok),
              dict(ok, FontFile=R_(70)), dict(ok, FontFile2=R_(70)), dict(ok, FontFile3=R_(70)),
              dict(ok, FontFile=R_(999)),                       # a reference to an undefined id still counts
              dict(ok, FontFile=I_(1)), dict(ok, FontFile2=('dict', {})), dict(ok, FontFile3=('null',)),
              dict(ok, FontFile=I_(1), FontFile3=R_(70)),
              {b'Flags': I_(4), b'FontFile': R_(70)},          # no /FontName
              {b'FontName': N_('X'), b'FontFile2': R_(70)},    # no /Flags
              {b'FontName': N_('X'), b'Flags': I_(-1)},
              {b'FontName': ('str', b'X'), b'Flags': I_(4)},
              'notdict']
    for st, bf in fonts:
        for dv in descrs:
            for hops in (0, 1, 2, 'undef'):
                if dv is None and hops != 0:
                    continue
                doc = Doc()
                cat, root, pg, cs = (doc.fresh() for _ in range(4))
                doc.put(('stream', {b'Length': I_(1)}, b'x'), 70)
                doc.next = 71
                fd = {b'Type': N_('Font'), b'Subtype': ('name', st), b'BaseFont': ('name', bf)}
                if dv is not None:
                    dobj = I_(3) if dv == 'notdict' else ('dict', {(k if isinstance(k, bytes) else k.encode()): v for k, v in dv.items()})
                    fd[b'FontDescriptor'] = R_(998) if hops == 'undef' else doc.via(dobj, hops)
                fobj = ('dict', fd)
                fref = R_(doc.put(fobj)) if rng.random() < 0.7 else fobj
                doc.objs[(cat, 0)] = D_(Type=N_('Catalog'), Pages=R_(root))
                doc.objs[(root, 0)] = ('dict', {b'Type': N_('Pages'), b'Count': I_(1), b'Kids': A_(R_(pg)),
                                                b'Resources': ('dict', {b'Font': ('dict', {b'F1': fref})})})
                doc.objs[(cs, 0)] = ('stream', {b'Length': I_(1)}, b'y')
                doc.objs[(pg, 0)] = ('dict', {b'Type': N_('Page'), b'Parent': R_(root), b'Contents': R_(cs)})
                out.append(doc.line(1))
    return out


def cases(tier, rng):
    return (tree_cases(tier, rng) + graph_cases(tier, rng) + diamond_cases(tier, rng) + loop_cases(tier, rng)
            + encoding_cases(tier, rng) + embed_cases(tier, rng) + malformed_cases(tier, rng))


LEVEL_TEXT = ('Coq theorems about the model of to_page_dom (all object contexts, all roots): construction terminates within '
              'a fuel bound linear in the number of objects and never runs out of it (looping reference chains included); '
              'on success the recorded ids are exactly the objects reachable from the root node through /Kids, each once; '
              'every page carries the fonts of the nearest /Resources declaration (own first, reference chains resolved) on '
              'the path along which it was discovered; contents are listed in document order.  The model is tied to '
              'pdf_page_dom.rs by a differential run (exhaustive tree shapes <= 5 objects x resource placements, random '
              'trees, shared/cyclic kids, looping chains in every position, malformed documents) in debug and release builds, '
              'every case in a child process with a watchdog')
LEVEL_NOTE = ('trusted: Coq kernel, hand transcription coq/Model/Dom.v (validated by the correspondence run), extraction + '
              'ocaml/drv.ml, harness/src/bin/c11.rs; font dictionaries are compared by resource name, base font and is_embedded(); '
              'locations are not modelled')
TECHNIQUE = ('Coq proof: work-queue invariant (examined = recorded + queued, closed under kids) for exactly-once and '
             'reachability, scope invariant along the discovery path for inheritance, visited-set measure for termination; '
             '+ differential correspondence model vs implementation with an independent specification-style oracle')
