"""C13 — cross-reference tables and streams decode to the entries written."""
import re, zlib

ID = 'C13'
PROFILES = ['debug']
THEOREMS = ['C13_table_rt', 'C13_table_ents', 'C13_entry_strict', 'C13_entry_complete', 'C13_entry_rejects',
            'C13_table_rejects', 'C13_be_roundtrip', 'C13_stream_rt', 'C13_stream_rt_implicit', 'C13_stream_rejects',
            'C13_stream_rejects_type', 'C13_stream_rejects_truncated', 'C13_dict_no_panic', 'C13_table_total',
            'C13_stream_total', 'C13_usize_width_exact']
RULE = ('tables: entry lists of 0..40 entries (both kinds, boundary field values) x every partition into subsections '
        'for <= 6 entries (random beyond) x the 3 terminators per entry x header/EOL/comment whitespace variants x tails; '
        'every single-field corruption of a legal table (non-digit, 9/11 digits, gen > 65535, bad type, bad terminator, '
        'bad separator, short count) in the first and in later subsections; exhaustive: every byte position of one '
        'entry x 14 replacement bytes; random byte mutations.  streams: all 125 width triples x entries with boundary '
        'values 0, 1, 256^w-1 x explicit /Index partitions and implicit [0 Size] x default type; corruptions (odd '
        '/Index, missing /W or /Size, width 5, w1 = 0, type 3..255, truncated rows, negative/non-integer members); '
        'FlateDecode with and without the PNG-Up predictor (zlib data from python).  non-trivial = success with >= 1 '
        'entry, or a rejection/failure of a case derived from a legal encoding by a corruption')
TRUSTED = ['models coq/Model/XrefTab.v, coq/Model/XrefStm.v (hand transcriptions of pdf_file.rs XrefEntP/XrefSubSectP/XrefSectP and '
           'pdf_streams.rs XrefStreamP, validated by this correspondence run), coq/Model/Prim.v for the token parsers',
           'constants in coq/gen/XrefConstants.v are regenerated from the Rust sources by props/c13.py regen()']
ASSUMPTIONS = ['buffer bytes are < 256', 'a view behaves as its window (C17)',
               'filter decoding (C06/C07) is outside this property: the model parses the decoder output supplied by the case',
               'usize is 64 bits']

I64MAX = 2 ** 63 - 1
KIDS = ['C13-later-subsection-truncates']


# ------------------------------------------------------------------ helpers
def hx(b):
    return bytes(b).hex() or '-'


def unhx(s):
    return b'' if s == '-' else bytes.fromhex(s)


def key(s):
    return s.encode().hex()


def oname(s):
    return 'm' + s.encode().hex()


def show_dict(d):
    """d: dict str -> token; canonical order = byte order of the keys."""
    return 'D(' + ','.join('%s:%s' % (key(k), d[k]) for k in sorted(d, key=lambda x: x.encode())) + ')'


def arr(xs):
    return 'A(' + ','.join(xs) + ')'


def ints(xs):
    return arr(['i%d' % x for x in xs])


# ------------------------------------------------------------------ reference semantics: classic table
_WSC = rb'(?:[ \x00\t\r\n\x0c]|%[^\n]*(?:\n|\Z))'           # white space incl. EOL, or a comment
_HEAD = re.compile(rb'[ \x00\t\r\x0c]*([+-]?[0-9]+) ([+-]?[0-9]+)' + _WSC + rb'+')
_XREF = re.compile(_WSC + rb'*xref' + _WSC + rb'+')
_ENT = re.compile(rb'([0-9]{10}) ([0-9]{5}) ([nf])( \r| \n|\r\n)', re.S)


def ref_table(buf, cur):
    """What the property text says a table denotes.  Returns ('ok', subsections, entries) or
    ('reject', why, index of the subsection the defect is in)."""
    m = _XREF.match(buf, cur)
    if not m:
        return ('reject', 'no xref keyword line', 0)
    pos = m.end()
    subs, ents = [], []
    while True:
        h = _HEAD.match(buf, pos)
        if not h:
            break
        start, count = int(h.group(1)), int(h.group(2))
        if not (0 <= start <= I64MAX and 0 <= count <= I64MAX):
            break                                              # not a subsection header
        pos = h.end()
        for i in range(count):
            e = _ENT.match(buf, pos)
            if not e or e.end() - pos != 20:
                return ('reject', 'entry %d of subsection %d is not the fixed 20-byte form' % (i, len(subs)), len(subs))
            gen = int(e.group(2))
            if gen > 65535:
                return ('reject', 'generation %d above 65535' % gen, len(subs))
            info = int(e.group(1))
            ents.append('%d.%d.%s.%d' % (start + i, gen, e.group(3).decode(), info))
            pos = e.end()
        subs.append('%d+%d' % (start, count))
    if not subs:
        return ('reject', 'no subsection', 0)
    return ('ok', subs, ents)


# ------------------------------------------------------------------ reference semantics: xref stream
class _Rd:
    def __init__(self, s):
        self.s, self.i = s, 0

    def obj(self):
        c = self.s[self.i]
        self.i += 1
        if c in 'ntf':
            return {'n': None, 't': True, 'f': False}[c]
        if c == 'i':
            m = re.compile(r'-?[0-9]+').match(self.s, self.i)
            self.i = m.end()
            return int(m.group(0))
        if c == 'q':
            m = re.compile(r'(-?[0-9]+)/(-?[0-9]+)').match(self.s, self.i)
            self.i = m.end()
            return ('real', int(m.group(1)), int(m.group(2)))
        if c in 'smc':
            m = re.compile(r'[0-9a-fA-F]*').match(self.s, self.i)
            self.i = m.end()
            return ({'s': 'str', 'm': 'name', 'c': 'comment'}[c], bytes.fromhex(m.group(0)))
        if c == 'R':
            m = re.compile(r'([0-9]+)\.([0-9]+)').match(self.s, self.i)
            self.i = m.end()
            return ('ref', int(m.group(1)), int(m.group(2)))
        if c == 'A':
            self.i += 1
            out = []
            while self.s[self.i] != ')':
                if self.s[self.i] == ',':
                    self.i += 1
                    continue
                out.append(self.obj())
            self.i += 1
            return out
        if c == 'D':
            self.i += 1
            return self.dict()
        if c == 'S':
            self.i += 3
            d = self.dict()
            self.i += 1
            m = re.compile(r'[0-9a-fA-F]*').match(self.s, self.i)
            self.i = m.end() + 1
            return ('stream', d, bytes.fromhex(m.group(0)))
        raise ValueError('bad object token')

    def dict(self):
        d = {}
        while self.s[self.i] != ')':
            if self.s[self.i] == ',':
                self.i += 1
                continue
            m = re.compile(r'[0-9a-fA-F]*').match(self.s, self.i)
            self.i = m.end() + 1
            k = bytes.fromhex(m.group(0))
            d[k] = self.obj()
        self.i += 1
        return d


def read_obj(tok):
    return _Rd(tok).obj()


def _isint(x):
    return isinstance(x, int) and not isinstance(x, bool)


def ref_stream(d, data):
    """('ok', entries) | ('reject', why) | None when the property text does not settle the case."""
    if d.get(b'Type') != ('name', b'XRef'):
        return None
    size = d.get(b'Size')
    if not _isint(size) or size < 0:
        return ('reject', 'missing or invalid /Size')
    w = d.get(b'W')
    if not isinstance(w, list):
        return ('reject', 'missing /W')
    if len(w) != 3 or not all(_isint(x) and x >= 0 for x in w):
        return ('reject', '/W is not three non-negative integers')
    if any(x > 4 for x in w):
        return ('reject', 'field width above 4')
    if w[1] == 0:
        return ('reject', 'second field width is zero')
    idx = d.get(b'Index')
    if idx is None:
        parts = [(0, size)]
    elif isinstance(idx, list):
        if len(idx) % 2:
            return ('reject', 'odd-length /Index')
        if not all(_isint(x) and x >= 0 for x in idx):
            return ('reject', '/Index member is not a non-negative integer')
        parts = list(zip(idx[0::2], idx[1::2]))
    else:
        return None
    rw = sum(w)
    pos, out = 0, []
    for (st, cnt) in parts:
        for k in range(cnt):
            if pos + rw > len(data):
                return ('reject', 'truncated row')
            f = [int.from_bytes(data[pos + sum(w[:j]):pos + sum(w[:j + 1])], 'big') for j in range(3)]
            pos += rw
            typ = f[0] if w[0] else 1
            if typ > 2:
                return ('reject', 'entry type %d above 2' % typ)
            if typ == 0:
                out.append('%d.%d.f.%d' % (st + k, f[2], f[1]))
            elif typ == 1:
                out.append('%d.%d.n.%d' % (st + k, f[2], f[1]))
            else:
                out.append('%d.0.s.%d.%d' % (st + k, f[1], f[2]))
    return ('ok', out)


def _py_decode(d, content):
    """python's own decoding of the declared filter (FlateDecode [+ PNG Up]); None if not handled here."""
    f = d.get(b'Filter')
    if f is None:
        return content
    if f != ('name', b'FlateDecode'):
        return None
    try:
        raw = zlib.decompress(content)
    except Exception:
        return None
    p = d.get(b'DecodeParms')
    if p is None:
        return raw
    if not isinstance(p, dict) or p.get(b'Predictor', 1) == 1:
        return raw
    if p.get(b'Predictor') != 12:
        return None
    cols = p.get(b'Columns', 1)
    rl = cols + 1
    if rl > len(raw) or len(raw) % rl:
        return None
    prev = [0] * cols
    out = bytearray()
    for r in range(len(raw) // rl):
        row = raw[r * rl:(r + 1) * rl]
        if row[0] != 2:
            return None
        cur = [(row[1 + j] + prev[j]) & 255 for j in range(cols)]
        out += bytes(cur)
        prev = cur
    return bytes(out)


# ------------------------------------------------------------------ oracle
def _verdict(case):
    t = case.split(' ')
    if t[0] == 'tab':
        return ref_table(unhx(t[1]), int(t[2]))
    if t[0] == 'stm':
        o = read_obj(t[2])
        d, content = o[1], o[2]
        if t[1] == '1':
            return None
        data = _py_decode(d, content)
        if data is None:
            return None
        if b'Filter' in d and data != unhx(t[3]):
            return None                                        # ill-formed case: token 3 is not the decoder output
        return ref_stream(d, data)
    return None


def oracle(case, obs, prof):
    v = _verdict(case)
    if v is None:
        return None
    o = obs.split(' ')
    if v[0] == 'reject':
        if o[0] == 'err':
            return None
        return 'malformed encoding (%s) must be rejected, implementation gave "%s"' % (v[1], obs[:200])
    if case.startswith('tab'):
        exp = 'ok %s %s' % (','.join(v[1]) or '-', ','.join(v[2]) or '-')
        got = ' '.join(o[:3])
    else:
        exp = 'ok %s' % (','.join(v[1]) or '-')
        got = ' '.join(o[:2])
    if got == exp:
        return None
    return 'expected "%s", implementation gave "%s"' % (exp[:200], obs[:200])


def known_class(kid, case, obs, prof):
    if kid == 'C13-later-subsection-truncates':
        t = case.split(' ')
        if t[0] != 'tab':
            return False
        v = ref_table(unhx(t[1]), int(t[2]))
        if v[0] != 'reject' or v[2] < 1:
            return False
        o = obs.split(' ')
        # accepted, with exactly the subsections that precede the malformed one
        return o[0] == 'ok' and (0 if o[1] == '-' else len(o[1].split(','))) == v[2]
    return False


def nontrivial(case, obs):
    o = obs.split(' ')
    if o[0] == 'ok':
        return o[2 if case.startswith('tab') else 1] != '-'
    return o[0] == 'err' and len(case) > 60          # a rejection of something long enough to be a corrupted encoding


def classify(case, obs):
    return case.split(' ')[0] + ':' + ' '.join(obs.split(' ')[:2] if obs.startswith('err') else obs.split(' ')[:1])


# ------------------------------------------------------------------ generators: tables
TERMS = [b' \r', b' \n', b'\r\n']


def ent(info, gen, kind, term):
    return b'%010d %05d %s' % (info, gen, kind) + term


def rand_ent(rng):
    info = rng.choice([0, 1, 9999999999, rng.randrange(10 ** 10), rng.randrange(100000)])
    gen = rng.choice([0, 0, 1, 65535, 65534, rng.randrange(65536)])
    return (info, gen, rng.choice([b'n', b'f']), rng.choice(TERMS))


def compositions(n):
    if n == 0:
        yield []
        return
    for first in range(1, n + 1):
        for rest in compositions(n - first):
            yield [first] + rest


def render_table(rng, subs, pre=b'', xeol=b'\n', tail=b'trailer\n', plain=False):
    """subs: list of (start, [entries]); entries are tuples or raw bytes."""
    out = pre + b'xref' + xeol
    for (st, es) in subs:
        lead = b'' if plain else rng.choice([b'', b'', b'', b' ', b'\t', b'\x00', b'\x0c', b'  '])
        eol = b'\n' if plain else rng.choice([b'\n', b'\n', b'\r\n', b'\r', b' \n', b' \r\n', b'\n%c\n', b'\n\n', b'\x0c\n'])
        cnt = es[0] if isinstance(es, tuple) else len(es)
        body = es[1] if isinstance(es, tuple) else es
        out += lead + b'%d %d' % (st, cnt) + eol
        for e in body:
            out += e if isinstance(e, bytes) else ent(*e)
    return out + tail


def table_cases(tier, rng):
    out = []
    add = lambda b, c=0: out.append('tab %s %d' % (hx(b), c))
    tails = [b'trailer\n<< /Size 3 >>\n', b'trailer', b'', b'startxref\n0\n', b'\n', b'%%EOF', b'x']
    pres = [b'', b'', b'\n', b' \r\n', b'%comment\n', b'\x00\t']
    xeols = [b'\n', b'\r\n', b'\r', b' \n', b'\n%c\n']
    # every partition of <= 6 entries
    for n in range(0, 7):
        for comp in compositions(n):
            es = [rand_ent(rng) for _ in range(n)]
            subs, k, st = [], 0, rng.choice([0, 0, 3])
            for sz in comp:
                subs.append((st, es[k:k + sz]))
                k += sz
                st += sz + rng.choice([0, 1, 7])
            if not subs:
                subs = [(0, [])]
            add(render_table(rng, subs, rng.choice(pres), rng.choice(xeols), rng.choice(tails)))
    # longer tables
    reps = 2000 if tier == 'thorough' else 300
    for _ in range(reps):
        n = rng.randrange(0, 41)
        es = [rand_ent(rng) for _ in range(n)]
        subs, k = [], 0
        while k < n or not subs:
            sz = rng.randrange(0, n - k + 1) if n > k else 0
            subs.append((rng.choice([0, k, rng.randrange(10 ** 6), I64MAX - 50]), es[k:k + sz]))
            k += sz
            if rng.random() < 0.3:
                break
        pre = rng.choice(pres)
        junk = bytes(rng.randrange(256) for _ in range(rng.randrange(0, 4)))
        add(junk + render_table(rng, subs, pre, rng.choice(xeols), rng.choice(tails)), len(junk))
    # all three terminators x both kinds x boundary values, single entry
    for term in TERMS:
        for kind in (b'n', b'f'):
            for info in (0, 1, 9999999999):
                for gen in (0, 1, 65535):
                    add(render_table(rng, [(rng.choice([0, 5]), [(info, gen, kind, term)])], plain=True))
    # single-field corruptions, in the first and in a later subsection
    good = (17, 3, b'n', b' \n')
    bad_ents = [
        b'000000001a 00003 n \n', b'00000000-1 00003 n \n', b'+000000017 00003 n \n', b' 000000017 00003 n \n',
        b'000000017 00003 n \n', b'00000000017 00003 n \n', b'0000000017 0003 n \n', b'0000000017 000003 n \n',
        b'0000000017 65536 n \n', b'0000000017 99999 n \n', b'0000000017 70000 f \n', b'0000000017 0000x n \n',
        b'0000000017 00003 x \n', b'0000000017 00003 N \n', b'0000000017 00003 F \n', b'0000000017 00003 o \n',
        b'0000000017 00003 n\n\n', b'0000000017 00003 n  ', b'0000000017 00003 n\r\r', b'0000000017 00003 n\n\r',
        b'0000000017 00003 n \t', b'0000000017 00003 n\n', b'0000000017 00003 n ', b'0000000017 00003 n',
        b'0000000017\t00003 n \n', b'0000000017 00003\tn \n', b'0000000017  0003 n \n', b'0000000017_00003 n \n',
        b'0000000017 00003n \n', b'00000\xc3\xa97017 00003 n \n', b'0000000\xff17 00003 n \n', b'0000000017 0\xc3\xa903 n \n',
        b'0000000017 00\xff03 n \n', b'0000000017', b'0000000017 0000', b'',
    ]
    for b in bad_ents:
        for where in (0, 1, 2):
            subs = [(0, [(0, 65535, b'f', b' \n'), good]), (5, [good, good]), (9, [good])]
            st, es = subs[where]
            pos = rng.randrange(len(es))
            es = list(es)
            es[pos] = b
            subs[where] = (st, es)
            add(render_table(rng, subs, plain=True))
            add(render_table(rng, subs))
    # count larger / smaller than the entries present
    for where in (0, 1):
        for delta in (-1, 1, 2, 10 ** 15):
            subs = [(0, [good, good]), (5, [good, good, good])]
            st, es = subs[where]
            subs[where] = (st, (max(0, len(es) + delta), es))
            add(render_table(rng, subs, plain=True))
    # header oddities
    for h in [b'0 1', b'+0 1', b'-0 1', b'-1 1', b'0 -1', b'0  1', b'0\t1', b'0 1 ', b' 0 1', b'\r0 1', b'. 1', b'0 .',
              b'9223372036854775807 1', b'9223372036854775808 1', b'0 9223372036854775808', b'00 01', b'0 1x', b'0', b'0 ']:
        for eol in (b'\n', b'\r\n', b''):
            add(b'xref\n' + h + eol + ent(*good) + b'trailer')
            add(b'xref\n0 1\n' + ent(*good) + h + eol + ent(*good) + b'trailer')
    for x in [b'xref', b'xref ', b'xre', b'xreF\n0 0\n', b'Xref\n0 0\n', b'xref0 0\n', b'xref\n', b'xref\n0 0\n', b'xref\n0 0',
              b'', b'%xref\nxref\n0 0\n', b'xref%\n0 0\n%\n3 0\n']:
        add(x)
    # exhaustive: every byte position of one entry x replacement bytes, first and second subsection
    repl = [0, 9, 10, 13, 32, 43, 45, 47, 48, 57, 58, 102, 110, 255]
    base = ent(1234567890, 12345, b'n', b'\r\n')
    for pos in range(20):
        for r in repl:
            if tier != 'thorough' and rng.random() < 0.5:
                continue
            e = base[:pos] + bytes([r]) + base[pos + 1:]
            add(b'xref\n7 1\n' + e + b'trailer')
            add(b'xref\n0 1\n' + ent(*good) + b'7 1\n' + e + b'trailer')
    # random byte mutations / deletions / insertions of legal tables
    n = 40000 if tier == 'thorough' else 4000
    for _ in range(n):
        ne = rng.randrange(1, 6)
        es = [rand_ent(rng) for _ in range(ne)]
        cut = rng.randrange(0, ne + 1)
        subs = [(rng.randrange(5), es[:cut]), (rng.randrange(5, 50), es[cut:])]
        b = bytearray(render_table(rng, subs, rng.choice(pres), rng.choice(xeols), rng.choice(tails)))
        for _ in range(rng.choice([1, 1, 1, 2, 3])):
            op = rng.randrange(3)
            p = rng.randrange(len(b))
            if op == 0:
                b[p] = rng.choice([rng.randrange(256), 32, 10, 13, 48, 49, 110, 102, 46, 45, 43, 37])
            elif op == 1:
                del b[p]
            else:
                b.insert(p, rng.choice([rng.randrange(256), 32, 10, 13, 48, 37]))
        add(bytes(b))
    return out


# ------------------------------------------------------------------ generators: streams
def be(x, w):
    return x.to_bytes(w, 'big') if w else b''


def render_rows(rows, w):
    """rows: (type, f2, f3)"""
    out = b''
    for (t, a, b) in rows:
        out += be(t, w[0]) + be(a, w[1]) + be(b, w[2])
    return out


def rand_rows(rng, n, w):
    rows = []
    for _ in range(n):
        t = rng.randrange(3) if w[0] else 1
        a = rng.choice([0, 1, 256 ** w[1] - 1, rng.randrange(256 ** w[1])])
        b = rng.choice([0, 1, 256 ** w[2] - 1, rng.randrange(256 ** w[2])]) if w[2] else 0
        rows.append((t, a, b))
    return rows


def stm_case(d, content, decoded=None, enc=0):
    return 'stm %d S(%s,%s) %s' % (enc, show_dict(d), bytes(content).hex(), hx(content if decoded is None else decoded))


def base_dict(size, w, index=None):
    d = {'Type': oname('XRef'), 'Size': 'i%d' % size, 'W': ints(w)}
    if index is not None:
        d['Index'] = ints([x for p in index for x in p])
    return d


def rand_index(rng, n):
    parts, k = [], 0
    while k < n or not parts:
        sz = rng.randrange(0, n - k + 1) if n > k else 0
        parts.append((rng.choice([0, k, rng.randrange(1000), 2 ** 40, I64MAX - 100]), sz))
        k += sz
        if k >= n and rng.random() < 0.7:
            break
    return parts


def png_up(data, cols):
    prev = bytes(cols)
    out = bytearray()
    for r in range(len(data) // cols):
        row = data[r * cols:(r + 1) * cols]
        out.append(2)
        out += bytes((row[j] - prev[j]) & 255 for j in range(cols))
        prev = row
    return bytes(out)


def stream_cases(tier, rng):
    out = []
    triples = [(a, b, c) for a in range(5) for b in range(5) for c in range(5)]
    reps = 24 if tier == 'thorough' else 4
    for w in triples:
        for r in range(reps):
            n = rng.choice([0, 1, 2, 3, 5, 9]) if r else 3
            if w[1] == 0:
                rows = [(1, 0, 0)] * n
                data = bytes(n * (w[0] + w[2]))
            else:
                rows = rand_rows(rng, n, w)
                data = render_rows(rows, w)
            data += bytes(rng.randrange(256) for _ in range(rng.choice([0, 0, 0, 1, 3])))
            if r % 2 == 0:
                out.append(stm_case(base_dict(n, w), data))
            else:
                out.append(stm_case(base_dict(rng.randrange(100), w, rand_index(rng, n)), data))
    # every partition of 4 rows into /Index subsections
    for comp in compositions(4):
        w = rng.choice([(1, 2, 1), (0, 3, 2), (1, 1, 0), (2, 4, 4)])
        rows = rand_rows(rng, 4, w)
        idx, st = [], 10
        for sz in comp:
            idx.append((st, sz))
            st += sz + rng.randrange(3)
        out.append(stm_case(base_dict(0, w, idx), render_rows(rows, w)))
    # corruptions of a legal stream
    w = (1, 2, 1)
    rows = [(0, 0, 255), (1, 17, 0), (2, 5, 1), (1, 300, 2)]
    data = render_rows(rows, w)
    good = base_dict(4, w)
    muts = []
    for idx in ([0], [0, 4, 7], [0, 1, 2, 3, 4], [3]):
        muts.append(dict(good, Index=ints(idx)))
    for k in ('W', 'Size', 'Type'):
        d = dict(good)
        del d[k]
        muts.append(d)
    muts += [dict(good, W=ints([1, 5, 1])), dict(good, W=ints([5, 2, 1])), dict(good, W=ints([1, 2, 5])),
             dict(good, W=ints([1, 2, 8])), dict(good, W=ints([1, 2, 2 ** 40])), dict(good, W=ints([1, 0, 1])),
             dict(good, W=ints([0, 0, 0])), dict(good, W=ints([1, 2])), dict(good, W=ints([1, 2, 1, 1])),
             dict(good, W=ints([])), dict(good, W=ints([1, -2, 1])), dict(good, W=ints([-1, 2, 1])),
             dict(good, W=arr(['i1', 'q2/1', 'i1'])), dict(good, W=arr(['i1', 'n', 'i1'])), dict(good, W='i3'),
             dict(good, W=arr(['i1', arr(['i2']), 'i1'])), dict(good, W='n'),
             dict(good, Size='i-1'), dict(good, Size='q4/1'), dict(good, Size='n'), dict(good, Size=oname('4')),
             dict(good, Size='i3'), dict(good, Size='i5'), dict(good, Size='i0'), dict(good, Size='i%d' % I64MAX),
             dict(good, Index=ints([0, -4])), dict(good, Index=ints([-1, 4])), dict(good, Index=arr(['i0', 'q4/1'])),
             dict(good, Index=arr(['n', 'i4'])), dict(good, Index='i0'), dict(good, Index=ints([])),
             dict(good, Index=ints([0, 5])), dict(good, Index=ints([0, 2, 0, 2])), dict(good, Index=ints([I64MAX, 4])),
             dict(good, Index=ints([0, I64MAX])),
             dict(good, Type=oname('XRef ')), dict(good, Type=oname('Xref')), dict(good, Type='s' + b'XRef'.hex()),
             dict(good, Prev='i10'), dict(good, Prev='i-1'), dict(good, Root='R1.0'), dict(good, Length='i16'),
             dict(good, DecodeParms=arr([])), dict(good, DecodeParms='D()')]
    for d in muts:
        out.append(stm_case(d, data))
    out.append(stm_case(good, data, enc=1))
    for cut in range(len(data) + 1):
        out.append(stm_case(good, data[:cut]))
    for t in range(3, 256, 1 if tier == 'thorough' else 9):
        for pos in (0, 2):
            d2 = bytearray(data)
            d2[4 * pos] = t
            out.append(stm_case(good, d2))
    for ww in [(2, 1, 1), (4, 1, 0), (3, 2, 2)]:
        for t in (3, 255, 256, 65535, 2 ** (8 * ww[0]) - 1):
            if t < 256 ** ww[0]:
                out.append(stm_case(base_dict(2, ww), render_rows([(1, 1, 0), (t, 1, 0)], ww)))
    # unsupported / malformed filter declarations (no decoding is attempted)
    for f in [dict(Filter=oname('LZWDecode')), dict(Filter=arr([oname('Foo')])), dict(Filter=arr(['i1'])),
              dict(Filter=oname('FlateDecode'), DecodeParms=arr([])), dict(Filter=arr([]), DecodeParms=arr([])),
              dict(Filter=arr([]), DecodeParms=arr(['n'])), dict(Filter=arr([oname('Foo')]), DecodeParms=arr(['i1'])),
              dict(Filter=arr([oname('Foo')]), DecodeParms=arr(['n'])), dict(Filter=arr(['i1']), DecodeParms=arr(['n'])),
              dict(Filter=arr([oname('Foo')]), DecodeParms=arr(['D()'])), dict(Filter=arr([])), dict(Filter='n'),
              dict(Filter='i3'), dict(Filter=arr([]), DecodeParms='D()')]:
        out.append(stm_case(dict(good, **f), data))
    # FlateDecode, with and without PNG-Up predictor
    nf = 2000 if tier == 'thorough' else 80
    for i in range(nf):
        w = rng.choice([t for t in triples if t[1] > 0])
        n = rng.randrange(1, 30)
        rows = rand_rows(rng, n, w)
        plain = render_rows(rows, w)
        d = base_dict(n, w) if i % 2 else base_dict(0, w, rand_index(rng, n))
        if i % 3 == 0:
            d['Filter'] = oname('FlateDecode')
            enc = zlib.compress(plain)
        elif i % 3 == 1:
            cols = sum(w)
            d['Filter'] = oname('FlateDecode')
            d['DecodeParms'] = show_dict({'Predictor': 'i12', 'Columns': 'i%d' % cols})
            enc = zlib.compress(png_up(plain, cols))
        else:
            cols = sum(w)
            d['Filter'] = arr([oname('FlateDecode')])
            d['DecodeParms'] = arr([show_dict({'Predictor': 'i12', 'Columns': 'i%d' % cols})])
            enc = zlib.compress(png_up(plain, cols))
        out.append(stm_case(d, enc, plain))
    return out


def cases(tier, rng):
    return table_cases(tier, rng) + stream_cases(tier, rng)


# ------------------------------------------------------------------ translator: constants from the Rust sources
def _one(pat, src, what, flags=0):
    m = re.search(pat, src, flags)
    if not m:
        raise Exception('C13 regen: anchor not found: %s' % what)
    return m


def _bytes_lit(s):
    out, i = [], 0
    while i < len(s):
        if s[i] == '\\':
            out.append({'r': 13, 'n': 10, 't': 9, '0': 0, '\\': 92}[s[i + 1]])
            i += 2
        else:
            out.append(ord(s[i]))
            i += 1
    return out


def regen(repo):
    f = open(repo + '/src/pdf_lib/pdf_file.rs').read()
    s = open(repo + '/src/pdf_lib/pdf_streams.rs').read()
    iw = int(_one(r'let mut inf = buf\.extract\((\d+)\)\?', f, 'offset field width').group(1))
    gw = int(_one(r'let mut gen = buf\.extract\((\d+)\)\?', f, 'generation field width').group(1))
    c1 = int(_one(r'infs\.matches\(&mut \|c: char\| c\.is_ascii_digit\(\)\)\.count\(\) != (\d+)', f, 'offset digit count').group(1))
    c2 = int(_one(r'gens\.matches\(&mut \|c: char\| c\.is_ascii_digit\(\)\)\.count\(\) != (\d+)', f, 'generation digit count').group(1))
    if c1 != iw or c2 != gw:
        raise Exception('C13 regen: digit counts %d/%d differ from the extracted widths %d/%d' % (c1, c2, iw, gw))
    gmax = int(_one(r'if gen > (\d+) \{', f, 'generation limit').group(1))
    ff = int(_one(r"(\d+) => false, // 'f'", f, 'free flag').group(1))
    fn = int(_one(r"(\d+) => true,  // 'n'", f, 'in-use flag').group(1))
    _one(r'let flg = buf\.extract\(1\)\?', f, 'flag width')
    _one(r'let eol = buf\.extract\(2\)\?', f, 'terminator width')
    m = _one(r'if eol != b"([^"]*)" && eol != b"([^"]*)" && eol != b"([^"]*)" \{', f, 'terminators')
    eols = [_bytes_lit(m.group(i)) for i in (1, 2, 3)]
    kw = _bytes_lit(_one(r'buf\.exact\(b"(xref)"\)', f, 'xref keyword').group(1))
    wmax = int(_one(r'if sz > (\d+) \{', s, 'width limit').group(1))
    tmax = int(_one(r'if f > (\d+) \{', s, 'type limit').group(1))
    dflt = int(_one(r'let typ = if width == 0 \{\s*(\d+) // default', s, 'default type').group(1))
    _one(r'if w_array\[1\] == 0 \{', s, 'w1 = 0 test')
    _one(r'val = \(val << 8\) \| usize::from\(peek\);', s, 'big-endian accumulation')
    _one(r'if i\.objs\(\)\.len\(\) % 2 != 0 \{', s, 'odd /Index test')
    _one(r'XrefEntT::new\(start_obj \+ c, gen, status\)', s, 'numbering')
    _one(r'XrefEntP::new\(xstart \+ idx\)', f, 'numbering (table)')
    lst = lambda l: '[' + '; '.join(str(x) for x in l) + ']'
    v = ('(* GENERATED by props/c13.py regen() from /repo/src/pdf_lib/pdf_file.rs and pdf_streams.rs — do not edit.\n'
         '   Field widths, limits and terminators of the cross-reference table / stream parsers. *)\n'
         'From PV Require Import Base.Bytes.\n\n'
         'Definition xref_info_width : nat := %d.\n'
         'Definition xref_gen_width : nat := %d.\n'
         'Definition xref_gen_max : N := %d%%N.\n'
         'Definition xref_flag_free : N := %d%%N.\n'
         'Definition xref_flag_inuse : N := %d%%N.\n'
         'Definition xref_eols : list bytes := [%s]%%N.\n'
         'Definition xref_kw : bytes := %s%%N.\n'
         'Definition xrefstm_width_max : N := %d%%N.\n'
         'Definition xrefstm_type_max : N := %d%%N.\n'
         'Definition xrefstm_default_type : N := %d%%N.\n') % (
        iw, gw, gmax, ff, fn, '; '.join(lst(e) for e in eols), lst(kw), wmax, tmax, dflt)
    return {'gen/XrefConstants.v': v}


LEVEL_TEXT = ('Coq theorems: every well-formed table (any subsection partition, any of the three terminators per entry, any '
              'header whitespace) parses to exactly its entries numbered from each subsection start; the entry parser accepts '
              'exactly the fixed 20-byte form (characterisation in both directions + rejection list); every xref stream with '
              'widths <= 4 (w1 >= 1), explicit /Index or implicit [0 Size], default type 1, decodes to the entries written; '
              'malformed dictionaries / rows (type > 2, truncated) are rejected; a malformed entry in ANY subsection rejects the '
              'section (refuted on the pinned code for 2nd+ subsections: finding C13-later-subsection-truncates, repaired in '
              'c0b3e1e, witness kept in corpus/c13.txt)')
LEVEL_NOTE = ('trusted: Coq kernel, hand transcriptions coq/Model/XrefTab.v, XrefStm.v, Prim.v (validated by the correspondence '
              'run), extraction + ocaml/drv.ml, harness/src/bin/c13.rs; filter decoding is C06/C07 (decoder output supplied by the case)')
TECHNIQUE = 'Coq proofs by induction over entry lists / subsections (round trips against Spec/XrefEnc.v renderers) + differential correspondence'
