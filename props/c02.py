"""C02 — every spelling of a PDF object parses to exactly that object.

This module also holds the *spelling generator* shared with props/c16.py and props/c05.py:
random PDF values (python tuples), `show` (the canonical text of harness/src/pdfobj.rs) and
`spell` (a random legal spelling of a value, as documented in DESIGN.md §6 C02 / coq/Spec/Spelling.v).

case line:  obj <max_depth> <pre_entered> <hexbuf> <kind> [meta]
  kind  sp   exp=<obj text> s=<start> e=<end>     a spelling: must parse to exactly that value / span / cursor
        dup                                        a dictionary repeating a non-null key: must be rejected
        mal                                        a mutated spelling: generic invariants only
The model and the runner read only the first four tokens.
"""
ID = 'C02'
PROFILES = ['debug']
THEOREMS = ['C02_spelling', 'C02_int_follow_delimiter', 'C02_number_spelling', 'C02_int_then_ref', 'C02_name_spelling',
            'C02_name_decode_is_simple', 'C02_lit_string_balanced', 'C02_hex_string_spelling', 'C02_whitespace',
            'C02_dict_no_null', 'C02_no_null_anywhere', 'C02_dup_key_rejected', 'C02_dup_key_rejected_anywhere',
            'C02_no_comment_object']
RULE = ('random values (depth <= 8; names over all non-zero bytes, strings over all bytes, i64/i128 boundary numbers) x a '
        'random legal spelling (whitespace/comments between tokens, #-escapes, balanced/escaped parentheses, hex case/'
        'whitespace/odd digits, leading zeros/signs) x following context (end, each delimiter, whitespace, keyword, "0 R"); '
        'exhaustive separator choices for small values; integer/reference look-ahead family; duplicate-key dictionaries; '
        'single-byte mutations of spellings.  non-trivial = a spelling case with a compound value, an escape, a comment, '
        'a boundary number or a look-ahead, or a rejected duplicate key')
TRUSTED = ['models of pdf_prim.rs / pdf_obj.rs in coq/Model/Prim.v, coq/Model/Obj.v (hand transcriptions, validated by this '
           'correspondence run)', 'the python spelling generator in props/c02.py (mirrors coq/Spec/Spelling.v)']
ASSUMPTIONS = ['buffer bytes are < 256', 'documented readings: "1." is the integer 1 and "." the integer 0 (not spellings); '
               '"a b R…" after an integer a is the reference a b R (follow contexts exclude it for integers); '
               'keywords/numbers/names are followed by a delimiter, whitespace or the end of the buffer']

I64_MAX = 2 ** 63 - 1
I64_MIN = -2 ** 63
I128_MAX = 2 ** 127 - 1
WS = b' \x00\t\r\n\x0c'
DELIMS = b'()<>[]{}/%'
NAME_TERM = WS + DELIMS
HEXD = b'0123456789abcdefABCDEF'


# ------------------------------------------------------------------ values
def show(v):
    t = v[0]
    if t == 'null':
        return 'n'
    if t == 'bool':
        return 't' if v[1] else 'f'
    if t == 'int':
        return 'i%d' % v[1]
    if t == 'real':
        return 'q%d/%d' % (v[1], 10 ** v[2])
    if t == 'big':
        return 'q%d/1' % v[1]
    if t == 'str':
        return 's' + v[1].hex()
    if t == 'name':
        return 'm' + v[1].hex()
    if t == 'ref':
        return 'R%d.%d' % (v[1], v[2])
    if t == 'arr':
        return 'A(' + ','.join(show(x) for x in v[1]) + ')'
    if t == 'dict':
        return 'D(' + ','.join('%s:%s' % (k.hex(), show(x)) for k, x in dict_value(v[1])) + ')'
    raise ValueError(t)


def dict_value(entries):
    """the dictionary denoted by a spelled entry list: null-valued pairs dropped, sorted by key bytes."""
    return sorted([(k, x) for k, x in entries if x[0] != 'null'], key=lambda kv: kv[0])


def nest(v):
    """syntactic nesting of a spelling of v (a dropped `key null` pair still nests)."""
    if v[0] == 'arr':
        return 1 + max([nest(x) for x in v[1]] + [0])
    if v[0] == 'dict':
        return 1 + max([nest(x) for _, x in v[1]] + [0])
    return 1


def balanced(body):
    """literal-string bodies: balanced parentheses modulo backslash pairs (a backslash protects the next byte)."""
    i, depth, n = 0, 0, len(body)
    while i < n:
        c = body[i]
        if c == 0x5c:
            if i + 1 >= n:
                return False
            i += 2
            continue
        if c == 0x28:
            depth += 1
        elif c == 0x29:
            depth -= 1
            if depth < 0:
                return False
        i += 1
    return depth == 0


BOUNDARY_INTS = [0, 1, -1, 9, 10, 255, 256, 65535, 2 ** 31 - 1, 2 ** 31, -2 ** 31, 2 ** 32, I64_MAX, I64_MAX - 1, I64_MIN,
                 I64_MIN + 1, 10 ** 18, -10 ** 18]
BOUNDARY_BIGS = [I64_MAX + 1, I64_MIN - 1, 10 ** 19, -10 ** 19, 2 ** 64, 2 ** 100, I128_MAX, I128_MAX - 1, -I128_MAX,
                 10 ** 38, -10 ** 38]


def rand_bytes(rng, n, pool=None):
    if pool is None:
        return bytes(rng.randrange(256) for _ in range(n))
    return bytes(rng.choice(pool) for _ in range(n))


def gen_litbody(rng, budget):
    """a balanced literal-string body produced by the grammar  body := (plain | '\\' any | '(' body ')')*"""
    out = bytearray()
    n = rng.randrange(0, 6)
    for _ in range(n):
        r = rng.random()
        if r < 0.5:
            b = rng.randrange(256)
            while b in (0x28, 0x29, 0x5c):
                b = rng.randrange(256)
            out.append(b)
        elif r < 0.8:
            out.append(0x5c)
            out.append(rng.choice([0x28, 0x29, 0x5c, 0x6e, rng.randrange(256)]))
        elif budget > 0:
            out += b'(' + gen_litbody(rng, budget - 1) + b')'
    return bytes(out)


def gen_name(rng):
    r = rng.random()
    if r < 0.08:
        return b''
    n = rng.choice([1, 1, 2, 2, 3, 3, 4, 5, 8])
    if r < 0.5:
        return rand_bytes(rng, n, b'ABab019#/ (%\x80\xff.-+Rtfn')
    return bytes(rng.randrange(1, 256) for _ in range(n))


def gen_prim(rng):
    r = rng.random()
    if r < 0.06:
        return ('null',)
    if r < 0.14:
        return ('bool', rng.random() < 0.5)
    if r < 0.34:
        q = rng.random()
        if q < 0.35:
            return ('int', rng.choice(BOUNDARY_INTS))
        if q < 0.7:
            return ('int', rng.randrange(-1000, 1000))
        return ('int', rng.randrange(I64_MIN, I64_MAX + 1))
    if r < 0.48:
        k = rng.choice([1, 1, 1, 2, 3, 6, 19, 38])
        q = rng.random()
        if q < 0.3:
            num = rng.choice([0, 5, -5, 10 ** k, -10 ** k, I128_MAX, -I128_MAX, I64_MAX, I64_MIN])
        elif q < 0.7:
            num = rng.randrange(-10 ** (k + 2), 10 ** (k + 2))
        else:
            num = rng.randrange(-I128_MAX, I128_MAX + 1)
        num = max(-I128_MAX, min(I128_MAX, num))
        return ('real', num, k)
    if r < 0.54:
        if rng.random() < 0.6:
            return ('big', rng.choice(BOUNDARY_BIGS))
        num = rng.randrange(I64_MAX + 1, I128_MAX + 1)
        return ('big', num if rng.random() < 0.5 else -num)
    if r < 0.70:
        return ('name', gen_name(rng))
    if r < 0.90:
        q = rng.random()
        if q < 0.5:
            return ('str', gen_litbody(rng, 2))
        if q < 0.6:
            return ('str', b'')
        return ('str', rand_bytes(rng, rng.randrange(0, 7)))
    q = rng.random()
    if q < 0.3:
        return ('ref', rng.choice([0, 1, I64_MAX]), rng.choice([0, 1, 65535, I64_MAX]))
    return ('ref', rng.randrange(0, 10000), rng.randrange(0, 3))


def gen_value(rng, depth, width=4):
    """a random value whose syntactic nesting is at most `depth` (>= 1)."""
    if depth <= 1 or rng.random() < 0.3:
        return gen_prim(rng)
    n = rng.randrange(0, width + 1)
    if rng.random() < 0.5:
        return ('arr', [gen_value(rng, depth - 1, max(1, width - 1)) for _ in range(n)])
    return ('dict', gen_entries(rng, n, lambda: gen_value(rng, depth - 1, max(1, width - 1))))


def gen_entries(rng, n, genv):
    """entry list in spelled order: non-null keys distinct; a `key null` pair only for a key that has not
    been bound to a non-null value earlier in the dictionary."""
    ents, bound = [], set()
    pool = [gen_name(rng) for _ in range(max(1, n))]
    for _ in range(n):
        k = rng.choice(pool) if rng.random() < 0.5 else gen_name(rng)
        v = genv()
        if rng.random() < 0.15:
            v = ('null',)
        if k in bound:
            continue
        if v[0] != 'null':
            bound.add(k)
        ents.append((k, v))
    return ents


def gen_deep(rng, n):
    """a value of nesting exactly n along one spine, with small siblings."""
    if n <= 1:
        return gen_prim(rng)
    inner = gen_deep(rng, n - 1)
    sib = [gen_prim(rng) for _ in range(rng.randrange(0, 2))]
    if rng.random() < 0.5:
        items = sib + [inner]
        rng.shuffle(items)
        return ('arr', items)
    ents, bound = [], set()
    for x in sib + [inner]:
        k = gen_name(rng)
        while k in bound:
            k = k + b'x'
        if x[0] != 'null':
            bound.add(k)
        ents.append((k, x))
    return ('dict', ents)


# ------------------------------------------------------------------ spellings
def sp_comment(rng):
    n = rng.randrange(0, 5)
    body = bytes(b for b in rand_bytes(rng, n) if b != 0x0a)
    if rng.random() < 0.5:
        body = rand_bytes(rng, n, b'abc %R0(<[/\r')
    return b'%' + body + b'\n'


def sp_ws(rng, required, simple=False):
    """whitespace between tokens: (ws byte | comment)*, non-empty if required."""
    if simple:
        return b' ' if required else rng.choice([b'', b' '])
    r = rng.random()
    if not required and r < 0.35:
        return b''
    if r < 0.6:
        return b' '
    out = bytearray()
    for _ in range(rng.randrange(1, 4)):
        if rng.random() < 0.25:
            out += sp_comment(rng)
        else:
            out.append(rng.choice(WS))
    return bytes(out)


def sp_digits(rng, mag):
    z = rng.choice([0, 0, 0, 1, 2, 3, 40])
    return b'0' * z + str(mag).encode()


PLUS = [b'+']          # spellings of a plus sign in use (emptied by tests that want to look past finding C02-plus)


def sp_int(rng, z):
    if z < 0:
        sign = b'-'
    else:
        sign = rng.choice([b'', b''] + PLUS) if z > 0 else rng.choice([b'', b'', b'-'] + PLUS)
    return sign + sp_digits(rng, abs(z))


def sp_real(rng, num, k):
    s = str(abs(num)).zfill(k)
    ip, fp = s[:-k], s[-k:]
    if num < 0:
        sign = b'-'
    else:
        sign = rng.choice([b'', b''] + PLUS) if num > 0 else rng.choice([b'', b'-'] + PLUS)
    if ip == '':
        ipb = rng.choice([b'', b'0', b'00'])
    else:
        ipb = b'0' * rng.choice([0, 0, 1, 3]) + ip.encode()
    return sign + ipb + b'.' + fp.encode()


def name_decode_simple(span):
    """the obvious left-to-right reading of a name body: #hh (two hex digits) is one byte, anything else itself."""
    out, i, n = bytearray(), 0, len(span)
    while i < n:
        if span[i] == 0x23 and i + 2 < n + 0 and span[i + 1] in HEXD and span[i + 2] in HEXD:
            out.append(int(span[i + 1:i + 3], 16))
            i += 3
        else:
            out.append(span[i])
            i += 1
    return bytes(out)


def sp_name(rng, bs, esc=0.25):
    for _ in range(4):
        out = bytearray()
        for b in bs:
            if b in NAME_TERM or rng.random() < esc:
                h = '%02x' % b
                h = ''.join(c.upper() if rng.random() < 0.5 else c for c in h)
                out += b'#' + h.encode()
            else:
                out.append(b)
        if name_decode_simple(bytes(out)) == bs:
            return b'/' + bytes(out)
    out = b''.join(b'#%02X' % b for b in bs)          # always legal
    return b'/' + out


def sp_hexstr(rng, bs):
    h = bs.hex()
    if h and h[-1] == '0' and rng.random() < 0.5:
        h = h[:-1]                                    # odd number of digits: padded with 0
    out = bytearray(b'<')
    for c in h:
        while rng.random() < 0.15:
            out.append(rng.choice(WS))
        out.append(ord(c.upper() if rng.random() < 0.5 else c))
    while rng.random() < 0.15:
        out.append(rng.choice(WS))
    return bytes(out) + b'>'


OPEN_END = ('null', 'bool', 'int', 'real', 'big', 'name', 'ref')


def regular_start(sp):
    return len(sp) > 0 and sp[0] not in NAME_TERM


def spell(rng, v, simple=False):
    """one legal spelling of v (no surrounding whitespace)."""
    t = v[0]
    if t == 'null':
        return b'null'
    if t == 'bool':
        return b'true' if v[1] else b'false'
    if t == 'int':
        return sp_int(rng, v[1])
    if t == 'real':
        return sp_real(rng, v[1], v[2])
    if t == 'big':
        return sp_int(rng, v[1])
    if t == 'name':
        return sp_name(rng, v[1])
    if t == 'str':
        if balanced(v[1]) and rng.random() < 0.6:
            return b'(' + v[1] + b')'
        return sp_hexstr(rng, v[1])
    if t == 'ref':
        return sp_int(rng, v[1]) + sp_ws(rng, True, simple) + sp_int(rng, v[2]) + sp_ws(rng, True, simple) + b'R'
    if t == 'arr':
        out = bytearray(b'[')
        prev_open = False
        for x in v[1]:
            s = spell(rng, x, simple)
            out += sp_ws(rng, prev_open and regular_start(s), simple) + s
            prev_open = x[0] in OPEN_END
        out += sp_ws(rng, False, simple) + b']'
        return bytes(out)
    if t == 'dict':
        out = bytearray(b'<<')
        for k, x in v[1]:
            ks = sp_name(rng, k)
            s = spell(rng, x, simple)
            out += sp_ws(rng, False, simple) + ks + sp_ws(rng, regular_start(s), simple) + s
        out += sp_ws(rng, False, simple) + b'>>'
        return bytes(out)
    raise ValueError(t)


KEYWORDS = [b'endobj', b'obj', b'stream', b'R', b'G', b'xref', b'true', b'null']


def follow(rng, v):
    """a legal following context for a spelling of v."""
    t = v[0]
    junk = rand_bytes(rng, rng.randrange(0, 4))
    r = rng.random()
    if r < 0.25:
        return b''
    if t == 'int':
        # never  ws+ integer ws+ R…  (that is the reference reading): after whitespace only non-numeric tokens
        if r < 0.6:
            d = rng.choice(DELIMS)
            if d == 0x25:
                junk = bytes(b for b in junk if b != 0x0a)
            return bytes([d]) + junk
        return bytes([rng.choice(WS)]) + rng.choice([b'endobj', b'obj', b'G', b'/N 0 R', b']', b'>>', b'true', b'(0 0 R)'])
    if r < 0.55:
        return bytes([rng.choice(DELIMS)]) + junk
    if r < 0.7:
        return bytes([rng.choice(WS)]) + junk
    if r < 0.8:
        return b' ' + rng.choice(KEYWORDS)
    if r < 0.9:
        return b' 0 R'
    if t in OPEN_END:
        return b' 0 RG'
    return rng.choice(KEYWORDS) + junk      # delimiter-ended values may be followed directly by anything


def hx(b):
    return b.hex() if b else '-'


def sp_case(rng, v, slack=None, simple=False, pre=None, rest=None):
    s = spell(rng, v, simple)
    if pre is None:
        pre = sp_ws(rng, False) if rng.random() < 0.5 else b''
    if rest is None:
        rest = follow(rng, v)
    k = rng.choice([0, 0, 0, 1, 2])
    d = nest(v) + k + (rng.choice([0, 0, 1, 5]) if slack is None else slack)
    return 'obj %d %d %s sp exp=%s s=%d e=%d' % (d, k, hx(pre + s + rest), show(v), len(pre), len(pre) + len(s))


# ------------------------------------------------------------------ case families
def fam_random(rng, n):
    out = []
    for _ in range(n):
        depth = rng.choice([1, 1, 1, 2, 2, 3, 3, 4, 5, 8])
        out.append(sp_case(rng, gen_value(rng, depth)))
    return out


def fam_tokens(rng, reps):
    """every boundary number and hand-picked names/strings, several spellings each."""
    vals = [('int', z) for z in BOUNDARY_INTS] + [('big', z) for z in BOUNDARY_BIGS]
    vals += [('real', n, k) for k in (1, 2, 19, 38) for n in (0, 1, -1, 5, 10 ** k, 10 ** k + 1, -10 ** k, I64_MAX, I64_MIN,
                                                                I128_MAX, -I128_MAX, 10 ** 37)]
    vals += [('name', b) for b in (b'', b'A', b'#', b'#4', b'A#4', b'#41', b'##', b'# ', b'#20#', b'A#', b'AB#', b'ABC', b'A#4G',
                                   b'#G1', b'a/b', b'a b', b'(', b'\x01', b'\xff\xfe', b'#0', b'#00x'.replace(b'0', b'1'),
                                   b'1', b'.', b'Length', b'\r\n')]
    vals += [('str', b) for b in (b'', b'a', b'()', b'(())', b'\\(', b'\\)', b'\\\\', b'a\\\\(b)', b'\\\\\\)', b'(\\()', b'\x00',
                                  b'\r\n', b'%x', b'\\a(b)', b'<>', b'>', b')(', b'(', b'\\', b'\xff', b'\x10', b'\xa0')]
    vals += [('ref', 0, 0), ('ref', I64_MAX, I64_MAX), ('ref', 12, 65535), ('null',), ('bool', True), ('bool', False),
             ('arr', []), ('dict', []), ('arr', [('arr', [])]), ('dict', [(b'A', ('null',))]),
             ('dict', [(b'A', ('null',)), (b'A', ('int', 1))]), ('dict', [(b'A', ('null',)), (b'A', ('null',))]),
             ('dict', [(b'B', ('int', 1)), (b'A', ('int', 2)), (b'', ('int', 3)), (b'\xff', ('name', b'A'))]),
             ('arr', [('int', 1), ('int', 2), ('ref', 3, 4)]), ('arr', [('int', 1), ('ref', 2, 3), ('int', 4), ('int', 5)]),
             ('arr', [('null',), ('null',)]), ('arr', [('name', b'A'), ('name', b''), ('name', b'B')]),
             ('arr', [('real', 15, 1), ('int', 2), ('int', 3)]), ('arr', [('big', 2 ** 64), ('int', 0), ('int', 0)])]
    out = []
    for v in vals:
        for _ in range(reps):
            out.append(sp_case(rng, v))
        out.append(sp_case(rng, v, slack=0, pre=b'', rest=b''))
    return out


SEPS = [b'', b' ', b'\r\n', b'%c\n', b'\x00%\n\t']


def fam_small_exhaustive(rng, tier):
    """small compound values: every combination of separators from SEPS at every gap (where legal)."""
    import itertools
    out = []
    prims = [(('int', 1), b'1'), (('int', -2), b'-2'), (('name', b'A'), b'/A'), (('str', b'x'), b'(x)'), (('str', b'\xab'), b'<aB>'),
             (('null',), b'null'), (('bool', True), b'true'), (('real', 5, 1), b'.5'), (('ref', 1, 0), b'1 0 R'),
             (('arr', []), b'[]'), (('dict', []), b'<<>>')]
    seps = SEPS if tier == 'thorough' else SEPS[:4]

    def legal(prev, sep, nxt):
        return not (prev is not None and prev[0] in OPEN_END and regular_start(nxt) and sep == b'')

    # arrays of two elements:  [ s0 x s1 y s2 ]
    for (vx, sx), (vy, sy) in itertools.product(prims, prims):
        for s0, s1, s2 in itertools.product(seps, seps, seps):
            if not legal(vx, s1, sy):
                continue
            sp = b'[' + s0 + sx + s1 + sy + s2 + b']'
            v = ('arr', [vx, vy])
            out.append('obj 3 0 %s sp exp=%s s=0 e=%d' % (hx(sp), show(v), len(sp)))
    # dictionaries of one and two entries:  << s0 /K s1 x s2 /L s3 y s4 >>
    for (vx, sx) in prims:
        for s0, s1, s2 in itertools.product(seps, seps, seps):
            if not legal(('name',), s1, sx):
                continue
            sp = b'<<' + s0 + b'/K' + s1 + sx + s2 + b'>>'
            v = ('dict', [(b'K', vx)])
            out.append('obj 3 0 %s sp exp=%s s=0 e=%d' % (hx(sp), show(v), len(sp)))
    if tier == 'thorough':
        for (vx, sx), (vy, sy) in itertools.product(prims[:8], prims[:8]):
            for s1, s2, s3 in itertools.product(seps[:4], seps[:4], seps[:4]):
                if not legal(('name',), s1, sx) or not legal(('name',), s3, sy):
                    continue
                sp = b'<</K' + s1 + sx + s2 + b'/#4a' + s3 + sy + b'>>'
                v = ('dict', [(b'K', vx), (b'J', vy)])
                out.append('obj 3 0 %s sp exp=%s s=0 e=%d' % (hx(sp), show(v), len(sp)))
    return out


def fam_lookahead(rng, n):
    """integer / reference look-ahead: `a ws b ws R…` is the reference, everything else the integer a."""
    out = []

    def case(buf, v, end, k=0):
        return 'obj %d %d %s sp exp=%s s=0 e=%d' % (1 + k, k, hx(buf), show(v), end)

    for _ in range(n):
        a = rng.choice([0, 1, 7, 12, I64_MAX, rng.randrange(0, 10 ** 6)])
        b = rng.choice([0, 0, 1, 65535, I64_MAX, rng.randrange(0, 100)])
        sa, sb = sp_int(rng, a), sp_int(rng, b)
        w1, w2 = sp_ws(rng, True), sp_ws(rng, True)
        tail = rng.choice([b'', b'G', b' ', b']', b'R', b'/x', b'0', b' obj'])
        r = rng.random()
        if r < 0.4:
            buf = sa + w1 + sb + w2 + b'R' + tail
            out.append(case(buf, ('ref', a, b), len(buf) - len(tail)))
        elif r < 0.55:      # no whitespace before R: two integers
            buf = sa + w1 + sb + b'R' + tail
            out.append(case(buf, ('int', a), len(sa)))
        elif r < 0.7:       # something else than R after the second integer
            x = rng.choice([b'obj', b'S', b'r', b'/R', b'(R)', b'1 R', b'', b'%R\n', b'.R'])
            buf = sa + w1 + sb + w2 + x
            out.append(case(buf, ('int', a), len(sa)))
        elif r < 0.8:       # second number is not an integer the integer parser accepts
            x = rng.choice([b'9223372036854775808', b'R', b'/1', b'(1)', b'--1', b'+-1', b'a'])
            buf = sa + w1 + x + w2 + b'R'
            out.append(case(buf, ('int', a), len(sa)))
        elif r < 0.9:       # second number is a real:  a b.c R
            buf = sa + w1 + sb + b'.5' + w2 + b'R'
            out.append(case(buf, ('int', a), len(sa)))
        else:               # a negative first integer cannot start a reference … but is still read as one: rejected
            neg = rng.random() < 0.5
            if neg:
                buf = b'-' + str(a + 1).encode() + w1 + sb + w2 + b'R' + tail
            else:
                buf = sa + w1 + b'-' + str(b + 1).encode() + w2 + b'R' + tail
            out.append('obj 1 0 %s mal' % hx(buf))
    return out


def fam_dup(rng, n):
    out = []
    for _ in range(n):
        depth = rng.choice([1, 1, 2, 3])
        ents = gen_entries(rng, rng.randrange(1, 4), lambda: gen_value(rng, depth))
        bound = [k for k, x in ents if x[0] != 'null']
        if not bound:
            ents.append((b'K', ('int', 1)))
            bound = [b'K']
        k = rng.choice(bound)
        ix = max(i for i, (kk, x) in enumerate(ents) if kk == k and x[0] != 'null')
        extra = (k, gen_value(rng, depth) if rng.random() < 0.7 else ('null',))
        pos = rng.randrange(ix + 1, len(ents) + 1)
        ents2 = ents[:pos] + [extra] + ents[pos:]
        # spell by hand: `spell` on a dict assumes legality only for the value it denotes, not needed here
        body = bytearray(b'<<')
        for kk, x in ents2:
            s = spell(rng, x)
            body += sp_ws(rng, False) + sp_name(rng, kk) + sp_ws(rng, regular_start(s)) + s
        body += sp_ws(rng, False) + b'>>'
        v = ('dict', ents2)
        wrap = rng.random()
        buf = bytes(body)
        nst = nest(v)
        if wrap < 0.3:
            buf = b'[' + buf + b']'
            nst += 1
        elif wrap < 0.5:
            buf = b'<</W ' + buf + b'>>'
            nst += 1
        out.append('obj %d 0 %s dup' % (nst + rng.choice([0, 2]), hx(buf)))
    return out


def fam_mutations(rng, n):
    out = []
    for _ in range(n):
        v = gen_value(rng, rng.choice([1, 1, 2, 2, 3, 4]))
        s = bytearray(spell(rng, v) + follow(rng, v))
        if not s:
            continue
        for _ in range(rng.choice([1, 1, 2])):
            r, p = rng.random(), rng.randrange(len(s)) if s else 0
            if r < 0.35 and s:
                del s[p]
            elif r < 0.7:
                s.insert(p, rng.choice(b'()<>[]/%#\\ \n\r0.-+R' + bytes([rng.randrange(256)])))
            elif s:
                s[p] = rng.choice(b'()<>[]/%#\\ \n0.-R' + bytes([rng.randrange(256)]))
        out.append('obj %d %d %s mal' % (rng.choice([1, 2, 3, 5, 9]), rng.choice([0, 0, 1]), hx(bytes(s))))
    # hand-written near-misses (documented readings and rejections)
    for t in [b'1.', b'.', b'-.', b'+', b'-', b'1. 0 R', b'1.0 0 R', b'true1', b'nullx', b'tru', b'nul', b'fals', b'/A#00', b'/#00',
              b'/A#0', b'(', b'(()', b'(\\)', b'<', b'<4', b'<4g>', b'<%>', b'<< /A >>', b'<</A 1 /B>>', b'<</A>>', b'<<1 2>>',
              b'<< (a) 1 >>', b'[', b'[1', b'[1 2 R', b']', b'>>', b'R', b'%', b'%x', b'%x\n', b'%x\n1', b'',
              b'170141183460469231731687303715884105728', b'-170141183460469231731687303715884105728',
              b'9' * 40, b'0.' + b'0' * 39, b'1' + b'0' * 38 + b'.0', b'9223372036854775807 9223372036854775808 R',
              b'1 2 3 R', b'-1 2 R', b'1 -2 R', b'1 2R', b'1 2 R', b'1\n2\rR', b'1 .5 R', b'. 0 R', b'--1', b'+-1', b'1-2',
              b'{', b'}', b'<</A 1/A 2>>', b'<</A 1/#41 null>>', b'[<</A 1/A 2>>]', b'[null]', b'<</A[null]>>', b'<< /A null >>']:
        for d in (1, 2, 4):
            out.append('obj %d 0 %s mal' % (d, hx(t)))
    return out


def cases(tier, rng):
    big = tier == 'thorough'
    out = []
    out += fam_tokens(rng, 12 if big else 3)
    out += fam_small_exhaustive(rng, tier)
    out += fam_lookahead(rng, 6000 if big else 800)
    out += fam_dup(rng, 6000 if big else 700)
    out += fam_random(rng, 120000 if big else 9000)
    out += fam_mutations(rng, 40000 if big else 4000)
    return out


# ------------------------------------------------------------------ oracle
def parse_obs(obs):
    """-> ('ok', objtext, start, end, cursor, depth) | ('err', kind, cursor, depth) | (other,)"""
    t = obs.split(' ')
    try:
        if t[0] == 'ok' and len(t) == 6:
            return ('ok', t[1], int(t[2]), int(t[3]), int(t[4][1:]), int(t[5][1:]))
        if t[0] == 'err' and len(t) == 4:
            return ('err', t[1], int(t[2][1:]), int(t[3][1:]))
    except ValueError:
        pass
    return (obs,)


def obj_has_null_entry(txt):
    """does a canonical object text contain a dictionary entry whose value is null (`<hexkey>:n`)?"""
    import re
    return re.search(r':n(?=[,)])', txt) is not None


def oracle(case, obs, prof):
    t = case.split(' ')
    d, k, buf, kind = int(t[1]), int(t[2]), (b'' if t[3] == '-' else bytes.fromhex(t[3])), t[4]
    o = parse_obs(obs)
    if o[0] not in ('ok', 'err'):
        return 'parse_pdf_obj did not return normally: "%s"' % obs
    if o[-1] != k:
        return 'context depth after the call is %d, was %d before' % (o[-1], k)
    if o[0] == 'ok':
        _, txt, st, en, cur, _ = o
        if obj_has_null_entry(txt):
            return 'a dictionary contains an entry whose value is null: %s' % txt
        if not (st <= en <= len(buf)) or cur != en:
            return 'cursor %d is not immediately after the object span [%d,%d)' % (cur, st, en)
    if kind == 'sp':
        meta = dict(x.split('=', 1) for x in t[5:])
        exp = ('ok', meta['exp'], int(meta['s']), int(meta['e']), int(meta['e']), k)
        if o != exp:
            return 'spelling of %s at [%s,%s): expected value/span/cursor, implementation gave "%s"' % (
                meta['exp'], meta['s'], meta['e'], obs)
    elif kind == 'dup':
        if o[0] != 'err':
            return 'a dictionary spelling that repeats a non-null key was accepted: %s' % obs
    return None


def nontrivial(case, obs):
    t = case.split(' ')
    if len(t) < 5:
        return False
    if t[4] == 'dup':
        return obs.startswith('err')
    if t[4] != 'sp' or not obs.startswith('ok'):
        return False
    buf = b'' if t[3] == '-' else bytes.fromhex(t[3])
    exp = t[5]
    return ('(' in exp[4:]) or b'#' in buf or b'%' in buf or b'\\' in buf or len(buf) > 18 or exp.startswith('exp=R')


def classify(case, obs):
    t = case.split(' ')
    k = t[4] if len(t) > 4 else '?'
    if k == 'sp':
        k += ':' + t[5][4:5]
    return k + ':' + obs.split(' ')[0]


LEVEL_TEXT = ('Coq theorem C02_spelling, by induction on the spelling derivation (Spec/Spelling.v): every value (null, booleans, '
              'integers, reals, names, literal and hex strings, references, arrays and dictionaries to any depth) x every spelling '
              '(signs, leading zeros, #-escapes, balanced/escaped parentheses, hex case/whitespace/odd digits, whitespace and '
              'comments between tokens, dropped `key null` pairs) x every legal following context x any preceding text parses '
              'to exactly that value with span and cursor exactly the spelling; dictionaries never hold null values and a repeated '
              'non-null key is rejected (for every accepted/any input); the model is tied to pdf_obj.rs/pdf_prim.rs by a '
              'differential run over generated spellings, look-ahead cases, duplicate keys and mutations')
LEVEL_NOTE = ('trusted: Coq kernel, hand transcriptions coq/Model/Prim.v + coq/Model/Obj.v (validated by the correspondence run), '
              'extraction + ocaml/drv.ml, harness/src/bin/c02.rs; documented readings: "1."/"." are not spellings, "a b R" behind an '
              'integer is the reference (follow contexts), literal strings shorter than 2^31; one defect found and repaired '
              '(repo commit 8188ffd: numbers with an explicit plus sign were rejected)')
TECHNIQUE = 'Coq proof by mutual induction over the spelling relation (tokens, elements, entries) + differential correspondence'
