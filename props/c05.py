"""C05 — stream data is framed exactly by its declared length.

case line:  ind <max_depth> <ctx> <hexbuf> <kind> [meta]
  ctx   "num.gen=obj;…" objects already defined in the context ("-" none)
  kind  st  kw=<offset of the `stream` keyword> L=<class> id=<num>.<gen> s=<start of the object> dict=<dictionary text>
              L=i<N>     declared length resolves (directly or through the context) to the non-negative integer N
              L=missing | neg | nonint | refbad (reference to a non-integer / negative integer) | undef (reference not in ctx)
        plain   a non-stream indirect object (model correspondence only)
        mal     mutated input (generic invariants only)
The oracle recomputes the framing from the bytes of the buffer starting at kw.
observation:
  ok <num>.<gen> <obj> <start> <end> <obj_start> <obj_end> <stream start|-> <stream size|-> @<cursor> d<depth>
  err <kind> @<cursor> d<depth>
"""
import sys
from props import c02 as G

ID = 'C05'
PROFILES = ['debug']
THEOREMS = ['C05_framing', 'C05_framing_indirect', 'C05_sound', 'C05_sound_indirect', 'C05_len_errors',
            'C05_errors_propagate', 'C05_declared_too_long', 'C05_cr_only_rejected', 'C05_endstream_required',
            'C05_total', 'C05_total_release', 'C05_total_internal']
RULE = ('payload in {empty, random binary, each framing keyword, keyword at every offset, CR/LF at either end} x declared '
        'length in {=, -1, +1, +len("\\nendstream"), 0, negative, 2^63-1, 2^63, real, name, array, null, missing} x direct / '
        'referenced (defined integer, undefined, non-integer, negative, reference) x EOL after `stream` in {LF, CRLF, CR, none, '
        'space+LF} x EOL before endstream in {none, CR, LF, CRLF, space} x endstream/endobj present, misspelt or missing; '
        'payloads up to 1 MiB in the thorough tier.  non-trivial = accepted stream whose payload contains a framing keyword or '
        'a line end at its border, or a rejection with exactly one defect')
TRUSTED = ['models of pdf_prim.rs / pdf_obj.rs in coq/Model/Prim.v, coq/Model/Obj.v (hand transcriptions, validated by this '
           'correspondence run)']
ASSUMPTIONS = ['buffer bytes are < 256', 'PDFObjContext::eol_after_stream_content is false (its only value: no setter exists)',
               'usize is 64 bits']
CASE_TIMEOUT = 1500
sys.setrecursionlimit(max(sys.getrecursionlimit(), 20000))

KW = [b'endstream', b'endobj', b'stream', b'\nendstream', b'\r\nendstream\nendobj', b'endstream endobj', b'obj', b'>>']


def skip_ws(buf, p):
    """whitespace and comments, as between any two tokens."""
    n = len(buf)
    while True:
        while p < n and buf[p] in G.WS:
            p += 1
        if p < n and buf[p] == 0x25:
            while p < n and buf[p] != 0x0a:
                p += 1
            if p < n:
                p += 1
            continue
        return p


def gen_payload(rng, tier):
    r = rng.random()
    if r < 0.08:
        return b''
    if r < 0.3:
        return G.rand_bytes(rng, rng.randrange(1, 24))
    if r < 0.45:
        return rng.choice(KW)
    if r < 0.7:
        base = bytearray(G.rand_bytes(rng, rng.randrange(0, 12)))
        p = rng.randrange(0, len(base) + 1)
        return bytes(base[:p]) + rng.choice(KW) + bytes(base[p:])
    if r < 0.85:
        return rng.choice([b'\n', b'\r', b'\r\n', b'\n\n', b'\r\r\n']) + G.rand_bytes(rng, rng.randrange(0, 6))
    return G.rand_bytes(rng, rng.randrange(0, 6)) + rng.choice([b'\n', b'\r', b'\r\n', b'\nendstream', b' '])


def length_entry(rng, n):
    """-> (class, value spelled as bytes, ctx text additions)  for an intended payload length n."""
    r = rng.random()
    ctx = []
    if r < 0.42:
        decl = rng.choice([n, n, n, n, n - 1, n + 1, n + 10, 0, n + rng.randrange(0, 30)])
        if decl < 0:
            return 'neg', str(decl).encode(), ctx
        return 'i%d' % decl, G.sp_digits(rng, decl), ctx
    if r < 0.5:
        return 'neg', rng.choice([b'-1', b'-0001', str(-n - 1).encode(), b'-9223372036854775808']), ctx
    if r < 0.55:
        return 'i%d' % G.I64_MAX, b'9223372036854775807', ctx
    if r < 0.62:
        return 'nonint', rng.choice([b'9223372036854775808', b'%d.0' % n, b'.5', b'/N', b'(5)', b'<05>', b'[%d]' % n, b'true',
                                     b'<</Length %d>>' % n, b'1' + b'0' * 30]), ctx
    if r < 0.66:
        return 'missing', None, ctx
    if r < 0.70:
        return 'missing', b'null', ctx
    # references
    num, gen = rng.choice([7, 12, 0, 99999]), rng.choice([0, 0, 1])
    sp = b'%d %d R' % (num, gen)
    q = rng.random()
    if q < 0.5:
        decl = rng.choice([n, n, n, n + 1, max(0, n - 1), 0])
        ctx.append('%d.%d=i%d' % (num, gen, decl))
        return 'i%d' % decl, sp, ctx
    if q < 0.7:
        if rng.random() < 0.5:
            ctx.append('%d.%d=i%d' % (num, gen + 1, n))       # a different generation is defined
        return 'undef', sp, ctx
    if q < 0.8:
        ctx.append('%d.%d=i%d' % (num, gen, -1 - rng.randrange(0, 5)))
        return 'refbad', sp, ctx
    ctx.append('%d.%d=%s' % (num, gen, rng.choice(['q%d/1' % (2 ** 63), 'q50/10', 'm4e', 's05', 'n', 't', 'A(i%d)' % n, 'R3.0',
                                                       'D(4c656e677468:i%d)' % n])))
    return 'refbad', sp, ctx


def stream_case(rng, tier, payload=None, eol1=None, eol2=None, force_len=None):
    if payload is None:
        payload = gen_payload(rng, tier)
    n = len(payload)
    cls, lsp, ctx = length_entry(rng, n) if force_len is None else force_len
    ents = G.gen_entries(rng, rng.randrange(0, 3), lambda: G.gen_value(rng, rng.choice([1, 1, 2])))
    ents = [(k, v) for k, v in ents if k != b'Length']
    # spell the dictionary by hand to place /Length (value given as text)
    parts = [(G.sp_name(rng, k), G.spell(rng, v)) for k, v in ents]
    if lsp is not None:
        key = rng.choice([b'/Length', b'/Length', b'/L#65ngth', b'/#4cength'])
        parts.insert(rng.randrange(0, len(parts) + 1), (key, lsp))
    body = bytearray(b'<<')
    for ks, vs in parts:
        body += G.sp_ws(rng, False) + ks + G.sp_ws(rng, G.regular_start(vs)) + vs
    body += G.sp_ws(rng, False) + b'>>'
    num, gen = rng.choice([1, 2, 10, 4711, G.I64_MAX]), rng.choice([0, 0, 0, 1, 65535])
    while any(c.startswith('%d.%d=' % (num, gen)) for c in ctx):
        num += 1
    pre = G.sp_ws(rng, False) if rng.random() < 0.3 else b''
    hdr = G.sp_digits(rng, num) + G.sp_ws(rng, True) + G.sp_digits(rng, gen) + G.sp_ws(rng, True) + b'obj' + G.sp_ws(rng, False)
    good = rng.random() < 0.55                     # framing intended to be valid (the length may still be off)
    if eol1 is None:
        eol1 = rng.choice([b'\n', b'\r\n'] if good else [b'\n', b'\r\n', b'\r', b'', b' \n', b'\n\n', b'\r\r\n'])
    if eol2 is None:
        eol2 = rng.choice([b'', b'\n', b'\r\n', b'\r'] if good else [b'', b'\n', b'\r\n', b'\r', b' ', b'\n\n'])
    es = b'endstream' if good or rng.random() < 0.7 else rng.choice([b'endstrea', b'Endstream', b'', b'endobj', b'end stream'])
    eo = b'endobj' if good or rng.random() < 0.7 else rng.choice([b'endob', b'', b'endstream', b'x endobj', b'Endobj'])
    head = pre + hdr + bytes(body) + G.sp_ws(rng, False)
    kw = len(head)
    rest = rng.choice([b'', b'', b'\n', b' 2 0 obj', b'endobj', b'%x'])
    buf = head + b'stream' + eol1 + payload + eol2 + es + G.sp_ws(rng, False) + eo + rest
    return 'ind 10 %s %s st kw=%d L=%s id=%d.%d s=%d' % (';'.join(ctx) or '-', G.hx(buf), kw, cls, num, gen, len(pre))


def plain_case(rng):
    v = G.gen_value(rng, rng.choice([1, 1, 2, 3]))
    sp = G.spell(rng, v)
    num, gen = rng.randrange(0, 100), rng.choice([0, 0, 1])
    buf = (G.sp_ws(rng, False) + b'%d' % num + G.sp_ws(rng, True) + b'%d' % gen + G.sp_ws(rng, True) + b'obj' +
           G.sp_ws(rng, G.regular_start(sp)) + sp + G.sp_ws(rng, v[0] in G.OPEN_END) + b'endobj' + rng.choice([b'', b'\n', b'x']))
    ctx = rng.choice(['-', '-', '-', '%d.%d=n' % (num, gen), '%d.%d=i1' % (num, gen + 1)])
    return 'ind %d %s %s plain' % (rng.choice([1, 2, 4, 10]), ctx, G.hx(buf))


def cases(tier, rng):
    big = tier == 'thorough'
    out = []
    saved = list(G.PLUS)
    G.PLUS[:] = []          # plus signs are C02's business
    try:
        # systematic grid: payload x eol1 x eol2 with an exact direct length
        for payload in [b'', b'a', b'endstream', b'\nendstream\nendobj\n', b'\n', b'\r', b'\r\n', b'ab\r', b'\nab', b'stream\n']:
            for eol1 in [b'\n', b'\r\n', b'\r', b'', b' \n', b'\n\r']:
                for eol2 in [b'', b'\r', b'\n', b'\r\n', b' ', b'\n\r']:
                    n = len(payload)
                    for decl in (n, n + 1, max(0, n - 1)):
                        out.append(stream_case(rng, tier, payload, eol1, eol2, ('i%d' % decl, b'%d' % decl, [])))
        # keyword at every offset of a fixed payload, declared = full length / up to the keyword
        base = b'0123456789'
        for kwd in KW[:4]:
            for p in range(len(base) + 1):
                pl = base[:p] + kwd + base[p:]
                for decl in (len(pl), p, p + len(kwd)):
                    out.append(stream_case(rng, tier, pl, b'\n', rng.choice([b'', b'\n']), ('i%d' % decl, b'%d' % decl, [])))
        for _ in range(60000 if big else 6000):
            out.append(stream_case(rng, tier))
        for _ in range(6000 if big else 800):
            out.append(plain_case(rng))
        # mutations of valid stream objects
        for _ in range(10000 if big else 1200):
            c = stream_case(rng, tier, eol1=b'\n', eol2=b'\n').split(' ')
            s = bytearray(bytes.fromhex(c[3]))
            p = rng.randrange(len(s))
            r = rng.random()
            if r < 0.4:
                del s[p]
            elif r < 0.7:
                s.insert(p, rng.choice(b' \n\r0%<>/' + bytes([rng.randrange(256)])))
            else:
                s[p] = rng.randrange(256)
            out.append('ind 10 %s %s mal' % (c[2], G.hx(bytes(s))))
        # large payloads (the extracted model is super-linear in the buffer size: ~2 s for 64 KiB, ~15 s for 256 KiB,
        # minutes for 1 MiB) — spread over the case list so that they land in different shards
        large = []
        for sz, decls in ([(1 << 16, 'all'), (1 << 18, 'all'), (1 << 20, 'exact')] if big else [(1 << 14, 'all')]):
            pl = bytes(rng.randrange(256) for _ in range(sz // 2)) + b'\nendstream\nendobj\n' + bytes(rng.randrange(256) for _ in range(sz // 2))
            for decl in ((len(pl), sz // 2, len(pl) + 1) if decls == 'all' else (len(pl),)):
                large.append(stream_case(rng, tier, pl, b'\r\n', b'\n', ('i%d' % decl, b'%d' % decl, [])))
        step = max(1, len(out) // (len(large) + 1))
        for i, c in enumerate(large):
            out.insert(min(len(out), (i + 1) * step + i), c)
    finally:
        G.PLUS[:] = saved
    return out


# ------------------------------------------------------------------ oracle
def expected(buf, kw, cls):
    """-> ('ok', data_start, N, end_cursor) | ('err', [defects])  — the property, recomputed from the bytes."""
    defects = []
    if not cls.startswith('i'):
        defects.append(cls)
    p = kw + 6
    if buf[kw:p] != b'stream':
        return ('err', defects + ['nostream', 'other'])
    q = p
    if buf[q:q + 1] == b'\r':
        q += 1
    if buf[q:q + 1] == b'\n':
        q += 1
    else:
        defects.append('eol')
        return ('err', defects)
    if defects:
        return ('err', defects)                         # cannot frame without a length: nothing further is determined
    n = int(cls[1:])
    if q + n > len(buf):
        return ('err', ['short'])
    r = q + n
    if buf[r:r + 1] == b'\r':
        r += 1
    if buf[r:r + 1] == b'\n':
        r += 1
    if buf[r:r + 9] != b'endstream':
        return ('err', ['endstream'])
    r = skip_ws(buf, r + 9)
    if buf[r:r + 6] != b'endobj':
        return ('err', ['endobj'])
    return ('ok', q, n, r + 6)


def parse_obs(obs):
    t = obs.split(' ')
    try:
        if t[0] == 'ok' and len(t) == 11:
            return dict(k='ok', id=t[1], obj=t[2], start=int(t[3]), end=int(t[4]), ostart=int(t[5]), oend=int(t[6]),
                        sstart=t[7], ssize=t[8], cur=int(t[9][1:]), depth=int(t[10][1:]))
        if t[0] == 'err' and len(t) == 4:
            return dict(k='err', kind=t[1], cur=int(t[2][1:]), depth=int(t[3][1:]))
    except ValueError:
        pass
    return dict(k=obs)


def oracle(case, obs, prof):
    t = case.split(' ')
    o = parse_obs(obs)
    if o['k'] not in ('ok', 'err'):
        return 'parse_pdf_indirect_obj did not return normally: "%s"' % obs[:80]
    if o['depth'] != 0:
        return 'context depth after the call is %d' % o['depth']
    buf = b'' if t[3] == '-' else bytes.fromhex(t[3])
    if o['k'] == 'ok' and o['obj'].startswith('S('):
        # whatever was accepted as a stream must be framed by its own reported start/size, and endstream must follow
        ss, sz = int(o['sstart']), int(o['ssize'])
        content = o['obj'][o['obj'].rindex(',') + 1:-1]
        if bytes.fromhex(content) != buf[ss:ss + sz] or ss + sz > len(buf):
            return 'stream content is not the %d bytes at offset %d of the input' % (sz, ss)
        r = ss + sz
        if buf[r:r + 1] == b'\r':
            r += 1
        if buf[r:r + 1] == b'\n':
            r += 1
        if buf[r:r + 9] != b'endstream':
            return 'accepted stream: no endstream keyword after the %d bytes of data (+ optional EOL)' % sz
        if buf[o['cur'] - 6:o['cur']] != b'endobj':
            return 'accepted stream object does not end with endobj'
    if t[4] != 'st':
        return None
    meta = dict(x.split('=', 1) for x in t[5:])
    e = expected(buf, int(meta['kw']), meta['L'])
    if e[0] == 'ok':
        _, q, n, end = e
        if o['k'] != 'ok':
            return 'well-framed stream (length %d at %d) rejected: %s' % (n, q, obs[:60])
        exp_c = buf[q:q + n].hex()
        if not (o['obj'].startswith('S(D(') and o['obj'].endswith(',' + exp_c + ')')):
            return 'stream data is not the declared %d bytes after the EOL following `stream`' % n
        if (o['sstart'], o['ssize']) != (str(q), str(n)) or o['cur'] != end or o['end'] != end or o['id'] != meta['id'] \
                or o['start'] != int(meta['s']):
            return 'stream start/size/cursor/id: expected %d/%d/@%d/%s, got "%s"' % (q, n, end, meta['id'], obs[-60:])
        return None
    defects = e[1]
    if o['k'] == 'ok':
        return 'stream object with defect(s) %s accepted: %s' % (defects, obs[:80])
    if len(defects) == 1:
        if defects[0] == 'undef':
            if o['kind'] != 'ctx':
                return 'length is a reference to an object not yet seen: expected "insufficient context", got %s' % o['kind']
        elif defects[0] != 'short' and o['kind'] == 'ctx':
            return 'defect %s reported as insufficient context' % defects[0]
    return None


def nontrivial(case, obs):
    t = case.split(' ')
    if t[4] != 'st':
        return False
    meta = dict(x.split('=', 1) for x in t[5:])
    buf = b'' if t[3] == '-' else bytes.fromhex(t[3])
    e = expected(buf, int(meta['kw']), meta['L'])
    if e[0] == 'ok':
        data = buf[e[1]:e[1] + e[2]]
        return any(k in data for k in (b'endstream', b'endobj', b'stream')) or data[:1] in (b'\r', b'\n') or data[-1:] in (b'\r', b'\n')
    return len(e[1]) == 1


def classify(case, obs):
    t = case.split(' ')
    if t[4] != 'st':
        return t[4] + ':' + obs.split(' ')[0]
    meta = dict(x.split('=', 1) for x in t[5:])
    buf = b'' if t[3] == '-' else bytes.fromhex(t[3])
    e = expected(buf, int(meta['kw']), meta['L'])
    key = 'framed' if e[0] == 'ok' else '+'.join(e[1])
    return 'st:%s:%s' % (key, ' '.join(obs.split(' ')[:2]) if obs.startswith('err') else 'ok')


LEVEL_TEXT = ('Coq theorems: for EVERY payload byte list, `stream` LF|CRLF payload [CR][LF] `endstream` with the declared /Length '
              '(direct or through the context) equal to the payload length yields exactly the payload, start = its offset, size = '
              'its length, for any text before and after (C05_framing, C05_framing_indirect); whatever is accepted as a stream was '
              'framed by the declared length and is followed by [EOL] endstream and endobj (C05_sound, C05_sound_indirect); missing / '
              'negative / non-integer / reference-to-non-integer length => GuardError, undefined reference => InsufficientContext, '
              'too long => EndOfBuffer, CR alone or anything but [CR]LF after `stream` and a missing endstream => GuardError; '
              'tied to pdf_obj.rs/pdf_prim.rs by a differential run over adversarial payload/length pairs')
LEVEL_NOTE = ('trusted: Coq kernel, hand transcriptions coq/Model/Prim.v (StreamContentP) + coq/Model/Obj.v (IndirectP), extraction + '
              'ocaml/drv.ml, harness/src/bin/c05.rs; eol_after_stream_content is false (no setter exists); usize = 64 bits; the model '
              'clamps lengths above the buffer size (proved equivalent: stream_content_clamp)')
TECHNIQUE = 'Coq proof: translation invariance + computation of StreamContentP on an arbitrary payload, inversion for soundness + differential correspondence'
