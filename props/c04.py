"""C04 — the newest revision wins across incremental updates."""
import json, os
from props import loaderlib as L

ID = 'C04'
PROFILES = ['debug', 'release']
THEOREMS = ['C04_merge_newest_first', 'C04_merge_lookup', 'C04_except_known', 'C04_except_known_nonvacuous',
            'C04_resolve_refuted_stale_member', 'C04_xref_stream_id_fixed', 'C04_prev_cycle', 'C04_prev_oob',
            'C04_chain_terminates', 'C04_chain_fuel_independent']
RULE = ('histories of 1..5 revisions over <= 12 object numbers, every revision adding / redefining / freeing arbitrary numbers '
        '(free entries written with the unchanged and with the incremented generation), xref tables / xref streams / hybrid '
        'sections in any mix (random /W, /Index, Flate, Flate+PNG-Up), objects in the file or in object streams, direct or '
        '(forward-)referenced /Length, leading garbage; every history rendered to a real PDF by props/loaderlib.py; '
        '/Prev mutated to: itself, a newer section, 0, an object, len-1, len, len+1, 2^63-1. '
        'non-trivial = a history of >= 2 revisions that the loader loads, or a rejected cyclic / out-of-range chain')
TRUSTED = ['model of the loader logic of pdf_traverse_xref.rs in coq/Model/Loader.v (hand transcription over the abstraction '
           '"offset -> what the parsers find there", validated by this correspondence run on rendered files)',
           'the abstract description of each case (offset -> what the parsers find there) is NOT trusted: harness/src/loader_common.rs validates every item, every mentioned offset and the header fields of every case against the real '
           'byte-level parsers applied to the file bytes (XrefSectP + TrailerP, IndirectP, XrefStreamP, ObjStreamP, StartXrefP; '
           'a PDFObjContext of its own per item) and reports items=bad, which the oracle and the model comparison flag',
           'props/loaderlib.py remains trusted only for "these bytes are a rendering of this history"; the independent python '
           'resolve + the real loader\'s answer cover that on every case',
           'the byte-level parsers the loader calls (tokens, objects, xref tables/streams, object streams, filters) are the '
           'subject of C02 C05 C13 C14 C06 C07, not of this property']
ASSUMPTIONS = ['a stream read with a /Length different from its payload length does not parse',
               'only xref-stream items carry /Type /XRef, only object-stream items /Type /ObjStm; no /Encrypt in trailers',
               'object values nest less than 50 deep']
CASE_TIMEOUT = 60
XC_MAXLEN = 5000
XC_CASES = 10


def cases(tier, rng):
    out = L.tiny_cases()
    n = 1500 if tier == 'quick' else 40000
    for i in range(n):
        r = rng.random()
        kw = {}
        if r < 0.08:
            kw = dict(xid_reuse=0.5)
        elif r < 0.5:
            kw = dict(free_modes=('same', 'any'))
        elif r < 0.6:
            kw = dict(objstm=1.0, kinds=('stream', 'hybrid'))
        h = L.gen_history(rng, rng.choice([1, 2, 2, 3, 3, 4, 5]), **kw)
        kind = None
        if rng.random() < 0.25:
            kind = L.mutate_prev(rng, h, rng.choice(['self', 'newer', 'newer', 'len', 'len1', 'huge', 'zero', 'obj', 'lenm1']))
        if kind is None and rng.random() < 0.04:
            # garbage glued in front of some revision's xref stream, startxref or the newer /Prev pointing at it
            sr = [rev for rev in h if rev.xkind == 'stream']
            if sr:
                rng.choice(sr).opts['junk_before_xstm'] = rng.choice([b'1 0 obj 7 ', b'1 0 obj 7\n', b'88 0 obj <</A 1>> ', b'2 0 obj\n'])
                kind = 'other'
        line = L.one_case(rng, h, L.gen_garbage(rng) if rng.random() < 0.3 else b'', kind)
        if line:
            out.append(line)
    return out


def oracle(case, obs, prof):
    return L.oracle_common(case, obs)


def nontrivial(case, obs):
    S = L.parse_spec(case)
    if S['kind'] in ('cycle', 'oob'):
        return obs.startswith('rejected')
    return S['kind'] == 'wf' and obs.startswith('loaded') and case.count(' G;') >= 2      # >= 2 revisions


def classify(case, obs):
    S = L.parse_spec(case)
    return '%s/%s:%s' % (S['kind'], S['flags'] or '-', obs.split(' ')[0])


KNOWN_FLAG = {'C04-stale-objstm-member': 'b'}


def known_class(kid, case, obs, prof):
    f = KNOWN_FLAG.get(kid)
    return bool(f) and f in L.parse_spec(case)['flags']


LEVEL_TEXT = ('END TO END ON BYTES for histories written with classic tables (coq/Properties/C04b.v, built by this check): C04_bytes_classic (load_bytes of the rendered history = exactly resolve_h, newest root), C04_bytes_update (the updated file = the old file, in any other layout, overridden by the update), C04_bytes_prev_cycle/_oob (=> Rejected).  Coq theorems over the abstract loader model, universally quantified over histories: the merge loop keeps the '
              'newest entry per object number (C04_merge_newest_first / _lookup); for every chain of sections (tables, xref '
              'streams, hybrids in any mix; objects in the file or in object streams; direct or referenced /Length) load binds '
              'every identifier to resolve = the entry of the most recent revision that mentions the number, free => undefined, '
              'root of the newest section (C04_except_known, hypotheses = complements of the open finding classes, '
              'satisfiability shown); a /Prev chain that revisits an offset or leaves the file is Rejected (C04_prev_cycle, '
              'C04_prev_oob); the walk terminates within #offsets+2 iterations (C04_chain_terminates, _fuel_independent); '
              'refutation witnesses of the unrestricted statement (C04_resolve_refuted_*).  The model is tied to '
              'pdf_traverse_xref.rs by a differential run on rendered PDF files (debug and release)')
LEVEL_NOTE = ('trusted: Coq kernel; hand transcription coq/Model/Loader.v at the level of already-parsed pieces (the byte-level '
              'parsers are C02/C05/C13/C14/C06/C07); the python renderer + abstract description props/loaderlib.py; extraction + '
              'ocaml/drv.ml; harness/src/loader_common.rs.  Fixed: merge key = object number (f2e753d), xref-stream objects parsed in a '
              'context of their own (4807949).  Open known finding: stale object-stream member')
TECHNIQUE = ('Coq: invariants over the three passes of parse_objects, induction over the /Prev chain, counting argument for '
             'termination; differential correspondence model vs implementation on rendered files; independent python oracle (resolve)')


# Added by the coordinator: the end-to-end bytes theorem for incremental updates with classic tables
# (coq/Properties/C04b.v: C04_bytes_classic — load_bytes (render_history_classic h L) = Loaded with exactly resolve_h h and
# the newest root; C04_bytes_prev_cycle / _oob) is built by this check; its model load_bytes is compared with the real
# parse_data on files given as bytes only in the family C03B (multi-revision files included).
COQ_EXTRA = ['Properties/C04b.v']
DELEGATES = [('C03B', 300)]


def delegate_oracle(did, case, obs, prof):
    if obs == 'rejected' or obs.startswith('loaded '):
        return None
    return 'loader did not return: "%s"' % obs


def delegate_nontrivial(did, case, obs):
    return obs.startswith('loaded ')
