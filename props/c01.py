"""C01 — arbitrary input files are processed without panic, abort or hang (the complete pipeline).

Observation = exit status of the REAL binary pdf_printer (debug and release builds of /repo without the
`verif` feature) on a generated file.  Case families:
  M <hexfile> <ctx> <root> <inflate-table>   documents given at the object level (a catalog with pages, fonts,
                                             contents, filters, and structured hostile mutations of them);
                                             rendered by this module with a classic xref table; the Coq pipeline
                                             model (coq/Model/Pipeline.v) runs on <ctx>/<root>
  B <hexfile>                                byte-level documents: every prefix of a valid file, byte mutations,
                                             loader-level mutations (xref offsets, startxref, /Size, /Prev …),
                                             the sample PDFs of the repository; judged by the oracle only
"""
import os, zlib, random
from props import loaderlib as L

ID = 'C01'
PROFILES = ['debug', 'release']
CASE_TIMEOUT = 1500
THEOREMS = ['C01_no_panic', 'C01_no_panic_release', 'C01_terminates', 'C01_two_outcomes', 'C01_dump_root_terminates',
            'C01_shipped_spec_wellformed', 'C01_panic_sources', 'C01_root_missing_rejected', 'C01_full_no_panic', 'C01_full_two_outcomes', 'C01_bytes_two_outcomes', 'C01_bytes_no_panic_release']
MODEL_PER_PROFILE = True
RULE = ('structured: random catalogs (1..5 pages, nested page-tree nodes, fonts, 1..3 content streams per page, '
        'filters none/Flate/AHx/A85 and chains, predictors) x hostile mutation of ONE point: each numeric parameter '
        '(/Predictor /Columns /Colors /BitsPerComponent /Length /Count /N /First /Size, xref offsets, startxref) replaced '
        'by each of {-2^63,-1,0,1,len-1,len,len+1,2^31,2^32,2^63-1}; each reference redirected to itself / an ancestor / '
        'an undefined id; every k-th prefix of the file; nesting 49/50/51/5000; byte flips; sample PDFs. '
        'non-trivial = distinct file that gets past the header and xref (i.e. loads at least one object) judged by reaching '
        'a stage beyond the loader OR being rejected after the loader; measured as: file contains "obj" and "xref"')
TRUSTED = ['python renderer of documents (props/c01.py, props/loaderlib.py) — for modelled cases the object context handed to the model is validated on every case against what the REAL parse_data loads from the rendered file (harness/src/bin/c01.rs: ctxbad:… otherwise)', 'harness/src/bin/c01.rs (spawns the real binary, 8 s watchdog)']
ASSUMPTIONS = ['runtime resources (stack size, allocator, zlib/jpeg decoders on hostile data) are exercised, not proved']

EXTREMES = [-2 ** 63, -1, 0, 1, 2, 7, 8, 9, 16, 64, 255, 2 ** 31, 2 ** 32, 2 ** 63 - 1]


def prebuild(ctx):
    """build the real binary (no hooks) in both profiles."""
    for prof in ctx['profiles']:
        cmd = ['cargo', 'build', '--offline', '--bin', 'pdf_printer', '--manifest-path', os.path.join(ctx['repo'], 'Cargo.toml')]
        if prof == 'release':
            cmd.append('--release')
        rc, out = ctx['sh'](cmd, timeout=1800, env={'CARGO_TARGET_DIR': os.path.join(ctx['target'], 'repo-bin')})
        if rc != 0:
            return False, out
    return True, ''


# ------------------------------------------------------------------ documents at the object level
def I(n): return ('int', n)
def N(s): return ('name', s if isinstance(s, bytes) else s.encode())
def R(n): return ('ref', n, 0)
def A(*xs): return ('arr', list(xs))
def D(**kw): return ('dict', [(k.encode(), v) for k, v in kw.items()])


def dset(d, key, val):
    ents = [(k, v) for k, v in d[1] if k != key]
    if val is not None:
        ents.append((key, val))
    return (d[0], ents) + tuple(d[2:])


def dget(d, key):
    for k, v in d[1]:
        if k == key:
            return v
    return None


def png_encode(rows, pred, bpp):
    out = b''
    prev = bytes(len(rows[0])) if rows else b''
    for r in rows:
        t = pred - 10
        enc = bytearray()
        for i, x in enumerate(r):
            a = r[i - bpp] if i >= bpp else 0
            b = prev[i]
            c = prev[i - bpp] if i >= bpp else 0
            if t == 0:
                p = 0
            elif t == 1:
                p = a
            elif t == 2:
                p = b
            elif t == 3:
                p = (a + b) // 2
            else:
                pa, pb, pc = abs(b - c), abs(a - c), abs(a + b - 2 * c)
                p = a if pa <= pb and pa <= pc else (b if pb <= pc else c)
            enc.append((x - p) % 256)
        out += bytes([t]) + bytes(enc)
        prev = r
    return out


def a85(data):
    out = b''
    for i in range(0, len(data), 4):
        g = data[i:i + 4]
        n = int.from_bytes(g + b'\0' * (4 - len(g)), 'big')
        ds = []
        for _ in range(5):
            ds.append(n % 85)
            n //= 85
        ds = bytes(33 + d for d in reversed(ds))
        out += ds[:len(g) + 1]
    return out + b'~>'


def zkey(data):
    return 'z%d.%d' % (len(data), zlib.adler32(data) & 0xffffffff)


def zanswer(data):
    """what zlib inflate says about `data`: (key, hex out | E, hex tail)."""
    d = zlib.decompressobj()
    try:
        out = d.decompress(data)
        if not d.eof:
            return (zkey(data), 'E', '-')
        return (zkey(data), out.hex() or '-', d.unused_data.hex() or '-')
    except zlib.error:
        return (zkey(data), 'E', '-')


ORACLE = []        # filled by encode_stream while a document is generated


def encode_stream(rng, payload, allow_pred=True):
    """returns (dict entries, encoded bytes)."""
    ents, data = [], payload
    chain = []
    r = rng.random()
    if r < 0.35:
        chain = []
    elif r < 0.75:
        chain = ['Fl']
    elif r < 0.85:
        chain = ['A85']
    elif r < 0.9:
        chain = ['A85', 'Fl']
    else:
        chain = ['Fl', 'A85']          # outermost first: /Filter [Fl A85] means decode Fl first
    parms = []
    # encode innermost last: the LAST filter in the list is applied first when encoding
    for f in reversed(chain):
        if f == 'Fl':
            p = None
            if allow_pred and rng.random() < 0.4 and len(data) > 0:
                cols = rng.randrange(1, 9)
                pred = rng.choice([12, 12, 10, 11, 13, 14, 15])
                padded = data + b' ' * ((-len(data)) % cols)
                rows = [padded[i:i + cols] for i in range(0, len(padded), cols)]
                enc_pred = pred if pred != 15 else 12
                data = png_encode(rows, enc_pred, 1)
                p = D(Predictor=I(pred), Columns=I(cols))
            data = zlib.compress(data, rng.choice([0, 1, 6, 9]))
            ORACLE.append(zanswer(data))
            parms.append(p)
        elif f == 'A85':
            data = a85(data)
            parms.append(None)
    parms.reverse()
    names = {'Fl': N('FlateDecode'), 'A85': N('ASCII85Decode')}
    if len(chain) == 1 and rng.random() < 0.6:
        ents.append((b'Filter', names[chain[0]]))
        if parms[0] is not None:
            ents.append((b'DecodeParms', parms[0]))
    elif chain:
        ents.append((b'Filter', A(*[names[f] for f in chain])))
        if any(p is not None for p in parms):
            ents.append((b'DecodeParms', A(*[p if p is not None else ('null',) for p in parms])))
    return ents, data


TEXTS = [b'Hello World', b'a', b'(nested) \\( parens', b'', b'Tj ET endstream', b'\xe9\x80\x01']


def gen_content(rng):
    ops = []
    n = rng.randrange(1, 5)
    legal = rng.random() < 0.9
    for _ in range(n):
        k = rng.random()
        if legal and 0.8 <= k < 0.9:
            k = 0.1
        if k < 0.6:
            s = rng.choice(TEXTS)
            lit = b'(' + s.replace(b'\\', b'\\\\').replace(b'(', b'\\(').replace(b')', b'\\)') + b')'
            body = rng.choice([lit + b' Tj', b'[' + lit + b' -120 ' + lit + b'] TJ', lit + b" '", b'1 2 ' + lit + b' "', b'0 -14 Td ' + lit + b' Tj', b'T* ' + lit + b' Tj'])
            ops.append(b'BT /F1 12 Tf ' + body + b' ET')
        elif k < 0.8:
            ops.append(rng.choice([b'0 0 m 10 10 l S', b'0 0 10 10 re W n', b'q 1 0 0 1 5 5 cm Q', b'1 0 0 RG 0.5 g', b'BX foo bar EX', b'/Im1 Do',
                                   b'BI /W 1 /H 1 /BPC 8 /CS /G ID \x00 EI', b'BI /W 2 /H 1 ID ab EI', b'0 0 10 10 re W* n']))
        elif k < 0.9:
            ops.append(rng.choice([b'BT BT ET', b'ET', b'(x) Tj', b'0 0 m BT ET', b'foo', b'BT 1 Tj ET', b'BT (a) (b) Tj ET']))   # illegal
        else:
            ops.append(b'% comment\n')
    body = rng.choice([b' ', b'\n']).join(ops)
    if rng.random() < 0.08:
        # content that stops in the middle of a construct (inline image data, an operand without operator, …)
        body += b' ' + rng.choice([b'BI ID', b'BI /W 1 /H 1 ID', b'BI /W 1 /H 1 ID ', b'BI', b'BT (a', b'BT [(a) 1', b'12', b'/Name', b'BX', b'BI /W 1 ID x EI BI ID'])
        return body
    return body + rng.choice([b'', b'\n', b' '])


def gen_doc(rng):
    """returns {num: value}, root num.  values are loaderlib tuples; streams ('stream', ents, payload)."""
    del ORACLE[:]
    objs = {}
    nxt = [3]

    def fresh():
        nxt[0] += 1
        return nxt[0] - 1

    font = D(Type=N('Font'), Subtype=N('Type1'), BaseFont=N(rng.choice(['Times-Roman', 'Helvetica'])))
    if rng.random() < 0.3:
        font = dset(font, b'Encoding', rng.choice([N('WinAnsiEncoding'), D(Type=N('Encoding'), Differences=A(I(65), N('A')))]))

    def resources():
        f = font
        if rng.random() < 0.5:
            fn = fresh()
            objs[fn] = font
            f = R(fn)
        res = D(Font=('dict', [(b'F1', f)]))
        if rng.random() < 0.3:
            rn = fresh()
            objs[rn] = res
            return R(rn)
        return res

    def page(parent, inherit):
        pn = fresh()
        d = D(Type=N('Page'), Parent=R(parent), MediaBox=A(I(0), I(0), I(612), I(792)))
        if not inherit or rng.random() < 0.5:
            d = dset(d, b'Resources', resources())
        cs = []
        for _ in range(rng.choice([1, 1, 1, 1, 1, 2, 2, 3, 0])):
            cn = fresh()
            ents, data = encode_stream(rng, gen_content(rng))
            objs[cn] = ('stream', ents, data)
            cs.append(R(cn))
        if len(cs) == 1 and rng.random() < 0.7:
            d = dset(d, b'Contents', cs[0])
        elif cs:
            d = dset(d, b'Contents', A(*cs))
        objs[pn] = d
        return pn, 1

    def node(num, parent, depth, inherit):
        d = D(Type=N('Pages'))
        if parent is not None:
            d = dset(d, b'Parent', R(parent))
        has_res = rng.random() < 0.4
        if has_res:
            d = dset(d, b'Resources', resources())
        kids, count = [], 0
        for _ in range(rng.randrange(1, 4 if depth == 0 else 3)):
            if depth < 2 and rng.random() < 0.25:
                kn = fresh()
                c = node(kn, num, depth + 1, inherit or has_res)
                kids.append(R(kn))
                count += c
            else:
                pn, c = page(num, inherit or has_res)
                kids.append(R(pn))
                count += c
        kv = A(*kids)
        if rng.random() < 0.15:
            kn = fresh()
            objs[kn] = kv
            kv = R(kn)
        d = dset(d, b'Kids', kv)
        d = dset(d, b'Count', I(count))
        objs[num] = d
        return count

    node(2, None, 0, False)
    cat = D(Type=N('Catalog'), Pages=R(2))
    if rng.random() < 0.3:
        cat = dset(cat, b'PageMode', N(rng.choice(['UseNone', 'UseOutlines', 'FullScreen'])))
    if rng.random() < 0.2:
        cat = dset(cat, b'Lang', ('str', b'en-US'))
    objs[1] = cat
    return objs, 1


def render_simple(rng, objs, root, mut=None):
    """classic layout: header, objects in random order, xref table, trailer.  mut: optional dict of loader-level
    mutations {'startxref': v, 'size': v, 'ofs': (num, v), 'prev': v}."""
    mut = mut or {}
    out = bytearray(b'%PDF-1.' + bytes([rng.choice(b'1457')]) + b'\n%\xe2\xe3\xcf\xd3\n')
    offs = {}
    nums = sorted(objs)
    order = list(nums)
    if rng.random() < 0.5:
        rng.shuffle(order)
    for n in order:
        v = objs[n]
        offs[n] = len(out)
        out += b'%d 0 obj\n' % n
        if v[0] == 'stream':
            ents = list(v[1])
            ln = mut.get('length', {}).get(n, len(v[2]))
            ents.append((b'Length', I(ln) if isinstance(ln, int) else ln))
            out += L.spell(rng, ('dict', ents)) + b'\nstream\n' + v[2] + rng.choice([b'\n', b'\r\n', b'']) + b'endstream'
        else:
            out += L.spell(rng, v)
        out += b'\nendobj\n'
    xo = len(out)
    size = max(nums) + 1
    out += b'xref\n0 %d\n' % (size + mut.get('count_delta', 0))
    for n in range(size):
        if n in offs:
            o = offs[n]
            if mut.get('ofs') and mut['ofs'][0] == n:
                o = mut['ofs'][1]
            out += b'%010d %05d n \n' % (o % 10 ** 10 if o >= 0 else 0, 0)
        else:
            out += b'%010d %05d f \n' % (0, 65535 if n == 0 else 0)
    tr = [(b'Size', I(mut.get('size', size))), (b'Root', R(root))]
    if 'prev' in mut:
        tr.append((b'Prev', I(mut['prev'])))
    out += b'trailer\n' + L.spell(rng, ('dict', tr)) + b'\nstartxref\n%d\n%%%%EOF\n' % mut.get('startxref', xo)
    return bytes(out)


# ------------------------------------------------------------------ structured hostile mutations (object level)
def paths(v, pre=()):
    """yields (path, value) for every sub-value; path items are dict keys (bytes) or array indices."""
    yield pre, v
    if v[0] == 'arr':
        for i, x in enumerate(v[1]):
            yield from paths(x, pre + (i,))
    elif v[0] in ('dict', 'stream'):
        for k, x in v[1]:
            yield from paths(x, pre + (k,))


def replace_at(v, path, new):
    if not path:
        return new
    h, rest = path[0], path[1:]
    if v[0] == 'arr':
        xs = list(v[1])
        xs[h] = replace_at(xs[h], rest, new)
        return ('arr', xs)
    ents = [(k, replace_at(x, rest, new) if k == h else x) for k, x in v[1]]
    return (v[0], ents) + tuple(v[2:])


def mutate_doc(rng, objs):
    """one hostile change at one point; returns (objs', description)."""
    objs = dict(objs)
    sites = []
    for n, v in objs.items():
        for p, x in paths(v):
            sites.append((n, p, x))
    kind = rng.choice(['num', 'num', 'ref_self', 'ref_anc', 'ref_undef', 'deep', 'type', 'drop', 'parm', 'parm', 'dup'])
    if kind in ('num', 'parm'):
        cand = [s for s in sites if s[2][0] == 'int' and (kind == 'num' or (s[1] and s[1][-1] in (b'Predictor', b'Columns', b'Colors', b'BitsPerComponent')))]
        if kind == 'parm' and not cand:
            # add decode parms to some stream
            st = [n for n, v in objs.items() if v[0] == 'stream']
            if st:
                n = rng.choice(st)
                v = objs[n]
                pd = D(Predictor=I(rng.choice([2, 10, 11, 12, 13, 14, 15, 1, 3])), Columns=I(rng.choice(EXTREMES)),
                       Colors=I(rng.choice(EXTREMES + [1, 3])), BitsPerComponent=I(rng.choice(EXTREMES + [8, 16])))
                ents = [(k, x) for k, x in v[1] if k not in (b'Filter', b'DecodeParms')]
                ents += [(b'Filter', N('FlateDecode')), (b'DecodeParms', pd)]
                z = zlib.compress(bytes(rng.randrange(256) for _ in range(rng.randrange(0, 40))))
                ORACLE.append(zanswer(z))
                objs[n] = ('stream', ents, z)
                return objs, 'parm-add'
        if cand:
            n, p, x = rng.choice(cand)
            objs[n] = replace_at(objs[n], p, I(rng.choice(EXTREMES)))
            return objs, kind
    if kind in ('ref_self', 'ref_anc', 'ref_undef'):
        cand = [s for s in sites if s[2][0] == 'ref']
        if cand:
            n, p, x = rng.choice(cand)
            tgt = n if kind == 'ref_self' else (rng.choice(sorted(objs)) if kind == 'ref_anc' else max(objs) + 7)
            objs[n] = replace_at(objs[n], p, R(tgt))
            return objs, kind
        kind = 'self_obj'
    if kind == 'deep':
        n, p, x = rng.choice(sites)
        d = rng.choice([49, 50, 51, 52, 5000])
        v = I(1)
        for _ in range(d):
            v = A(v) if rng.random() < 0.7 else ('dict', [(b'K', v)])
        objs[n] = replace_at(objs[n], p, v) if p else objs[n]
        if not p:
            objs[max(objs) + 1] = v
        return objs, 'deep%d' % d
    if kind == 'type':
        n, p, x = rng.choice(sites)
        new = rng.choice([('null',), I(0), N('X'), ('str', b''), A(), ('dict', []), R(n), ('real', 15, 1), ('bool', True)])
        if p:
            objs[n] = replace_at(objs[n], p, new)
        elif objs[n][0] != 'stream':
            objs[n] = new
        return objs, 'type'
    if kind == 'drop':
        cand = [s for s in sites if s[1] and isinstance(s[1][-1], bytes)]
        if cand:
            n, p, x = rng.choice(cand)
            par = objs[n]
            for h in p[:-1]:
                par = par[1][h] if par[0] == 'arr' else dget(par, h)
            newpar = dset(par, p[-1], None)
            objs[n] = replace_at(objs[n], p[:-1], newpar)
            return objs, 'drop'
    if kind == 'dup':
        # an object that is a reference to itself / to another reference (chains that loop)
        a, b = max(objs) + 1, max(objs) + 2
        objs[a], objs[b] = R(b), R(a if rng.random() < 0.5 else b)
        cand = [s for s in sites if s[2][0] == 'ref' or (s[1] and s[1][-1] in (b'Kids', b'Contents', b'Resources', b'Font', b'F1', b'Encoding', b'Pages', b'Parent'))]
        if cand:
            n, p, x = rng.choice(cand)
            if p:
                objs[n] = replace_at(objs[n], p, R(a))
        return objs, 'loop'
    n = rng.choice(sorted(objs))
    objs[n] = R(n)
    return objs, 'self_obj'


def byte_mutations(rng, data, n):
    out = []
    L_ = len(data)
    for _ in range(n):
        k = rng.random()
        b = bytearray(data)
        if k < 0.35 and L_:
            for _ in range(rng.randrange(1, 4)):
                b[rng.randrange(L_)] = rng.randrange(256)
        elif k < 0.55 and L_:
            i = rng.randrange(L_)
            del b[i:i + rng.randrange(1, 20)]
        elif k < 0.7 and L_:
            i = rng.randrange(L_)
            b[i:i] = bytes(rng.randrange(256) for _ in range(rng.randrange(1, 10)))
        elif k < 0.85 and L_:
            # replace a decimal number in the file by an extreme
            import re
            ms = list(re.finditer(rb'-?\d+', data))
            if ms:
                m = rng.choice(ms)
                b[m.start():m.end()] = b'%d' % rng.choice(EXTREMES + [L_ - 1, L_, L_ + 1])
        else:
            b = b[:rng.randrange(L_ + 1)]
        out.append(bytes(b))
    return out


def render_xs(rng, objs, root, mut=None):
    """xref-stream layout with one uncompressed object stream holding the non-stream objects other than the
    root.  mut: {'ofs': (k, v)} k-th header offset := v; {'id': (k, v)}; {'N': v}; {'First': v}; {'W': [..]};
    {'idx': v} index field of a type-2 entry."""
    mut = mut or {}
    out = bytearray(b'%PDF-1.5\n%\xe2\xe3\xcf\xd3\n')
    nums = sorted(objs)
    members = [n for n in nums if objs[n][0] != 'stream' and n != root][:rng.randrange(1, 6)]
    stm_num = max(nums) + 1
    xs_num = max(nums) + 2
    offs = {}
    for n in nums:
        if n in members:
            continue
        v = objs[n]
        offs[n] = len(out)
        out += b'%d 0 obj\n' % n
        if v[0] == 'stream':
            out += L.spell(rng, ('dict', list(v[1]) + [(b'Length', I(len(v[2])))])) + b'\nstream\n' + v[2] + b'\nendstream'
        else:
            out += L.spell(rng, v)
        out += b'\nendobj\n'
    # the object stream
    bodies, hdr, pos = b'', [], 0
    for k, n in enumerate(members):
        b = L.spell(rng, objs[n]) + b' '
        ident = mut['id'][1] if mut.get('id', (None,))[0] == k else n
        off = mut['ofs'][1] if mut.get('ofs', (None,))[0] == k else pos
        hdr.append(b'%d %d' % (ident, off))
        bodies += b
        pos += len(b)
    header = b' '.join(hdr) + b'\n'
    data = header + bodies
    offs[stm_num] = len(out)
    sd = [(b'Type', N('ObjStm')), (b'N', I(mut.get('N', len(members)))), (b'First', I(mut.get('First', len(header)))), (b'Length', I(len(data)))]
    out += b'%d 0 obj\n' % stm_num + L.spell(rng, ('dict', sd)) + b'\nstream\n' + data + b'\nendstream\nendobj\n'
    # the xref stream
    xo = len(out)
    offs[xs_num] = xo
    size = xs_num + 1
    w = mut.get('W', [1, 4, 2])
    rows = b''
    for n in range(size):
        if n in members:
            ix = members.index(n)
            if 'idx' in mut and ix == 0:
                ix = mut['idx']
            t, a, b = 2, stm_num, ix
        elif n in offs:
            t, a, b = 1, offs[n], 0
        else:
            t, a, b = 0, 0, 65535 if n == 0 else 0
        rows += (t % 256 ** max(w[0], 1)).to_bytes(w[0], 'big') if w[0] else b''
        rows += (a % 256 ** w[1]).to_bytes(w[1], 'big') if w[1] else b''
        rows += (b % 256 ** max(w[2], 1)).to_bytes(w[2], 'big') if w[2] else b''
    xd = [(b'Type', N('XRef')), (b'Size', I(mut.get('size', size))), (b'W', A(*[I(x) for x in w])), (b'Root', R(root)), (b'Length', I(len(rows)))]
    out += b'%d 0 obj\n' % xs_num + L.spell(rng, ('dict', xd)) + b'\nstream\n' + rows + b'\nendstream\nendobj\n'
    out += b'startxref\n%d\n%%%%EOF\n' % mut.get('startxref', xo)
    return bytes(out)


def vdepth(v):
    if v[0] == 'arr':
        return 1 + max([vdepth(x) for x in v[1]] + [0])
    if v[0] in ('dict', 'stream'):
        return 1 + max([vdepth(x) for k, x in v[1]] + [0])
    return 1


def strip_nulls(v):
    """the parser drops dictionary entries whose value is null (property C02)."""
    if v[0] == 'arr':
        return ('arr', [strip_nulls(x) for x in v[1]])
    if v[0] in ('dict', 'stream'):
        return (v[0], [(k, strip_nulls(x)) for k, x in v[1] if x[0] != 'null']) + tuple(v[2:])
    return v


def ctx_text(objs):
    parts = []
    for n in sorted(objs):
        v = strip_nulls(objs[n])
        if v[0] == 'stream':
            v = ('stream', list(v[1]) + [(b'Length', I(len(v[2])))], v[2])
        parts.append('%d.0=%s' % (n, L.show(v)))
    return ';'.join(parts) or '-'


def y_case(seed, objs, root):
    """a bytes-only modelled case: the model (coq/Model/Full.v full_bytes) gets the rendered file and the zlib oracle
    table, nothing else — it computes the loader's abstraction from the bytes with the parser models."""
    data = render_simple(random.Random(seed), objs, root)
    if len(data) > 2600:
        return None
    toks = ['Y', data.hex()]
    for k, o, t in dict((e[0], e) for e in ORACLE).values():
        toks += [k, o, t]
    return ' '.join(toks)


def m_case(seed, objs, root):
    """a modelled case, or None if the document is outside what the pipeline model covers (it would not
    load to exactly `objs`): nesting close to the parser's depth bound, duplicate dictionary keys."""
    try:
        if max(vdepth(v) for v in objs.values()) > 40:
            return None
    except RecursionError:
        return None
    for v in objs.values():
        for p, x in paths(v):
            if x[0] in ('dict', 'stream') and len(set(k for k, _ in x[1])) != len(x[1]):
                return None
    data = render_simple(random.Random(seed), objs, root)
    toks = ['M', data.hex(), ctx_text(objs), '%d.0' % root]
    for k, o, t in dict((e[0], e) for e in ORACLE).values():
        toks += [k, o, t]
    return ' '.join(toks)


def cases(tier, rng):
    out = []
    big = tier == 'thorough'
    ndoc = 400 if big else 150
    nmut = 12 if big else 6
    # sample PDFs of the repository and their prefixes
    for dp, _, fs in os.walk('/repo/tests/test_files'):
        for f in sorted(fs):
            if f.endswith('.pdf'):
                d = open(os.path.join(dp, f), 'rb').read()
                if len(d) < 300000:
                    out.append('B ' + d.hex())
                    if len(d) < 5000:
                        step = 7 if not big else 1
                        for k in range(0, len(d), step):
                            out.append('B ' + (d[:k].hex() or '-'))
    for _ in range(ndoc):
        objs, root = gen_doc(rng)
        seed = rng.getrandbits(32)
        base = render_simple(random.Random(seed), objs, root)
        out.append(m_case(seed, objs, root) or ('B ' + base.hex()))
        y = y_case(seed, objs, root) if m_case(seed, objs, root) else None
        if y:
            out.append(y)
        # object-level hostile mutations
        for _ in range(nmut):
            o2, what = mutate_doc(rng, objs)
            try:
                mc = m_case(seed, o2, root)
                out.append(mc or ('B ' + render_simple(random.Random(seed), o2, root).hex()))
                if mc and rng.random() < (0.3 if big else 0.08):
                    y = y_case(seed, o2, root)
                    if y:
                        out.append(y)
            except RecursionError:
                pass
        # loader-level mutations
        for cd in (1, 2, 45, -1, -2):
            out.append('B ' + render_simple(random.Random(seed), objs, root, {'count_delta': cd}).hex())
        for key in ('startxref', 'size', 'prev'):
            v = rng.choice(EXTREMES + [len(base) - 1, len(base), len(base) + 1])
            if v >= 0 or key != 'startxref':
                out.append('B ' + render_simple(random.Random(seed), objs, root, {key: v}).hex())
        n = rng.choice(sorted(objs))
        out.append('B ' + render_simple(random.Random(seed), objs, root, {'ofs': (n, rng.choice([0, 1, len(base) - 1, len(base), 10 ** 10 - 1, 7]))}).hex())
        st = [k for k, v in objs.items() if v[0] == 'stream']
        if st:
            k = rng.choice(st)
            for ln in (rng.choice(EXTREMES), len(objs[k][2]) + 1, R(k), R(max(objs) + 3)):
                out.append('B ' + render_simple(random.Random(seed), objs, root, {'length': {k: ln}}).hex())
        for m in byte_mutations(rng, base, 4 if not big else 10):
            out.append('B ' + (m.hex() or '-'))
        # xref-stream + object-stream layout of the same document, and hostile header numbers
        try:
            xs = render_xs(random.Random(seed), objs, root)
            out.append('B ' + xs.hex())
            if len(xs) <= 2600 and m_case(seed, objs, root) and rng.random() < (0.6 if big else 0.25):
                # the same document in the xref-stream + object-stream layout, bytes only, through the composed model
                toks = ['Y', xs.hex()]
                for k_, o_, t_ in dict((e[0], e) for e in ORACLE).values():
                    toks += [k_, o_, t_]
                out.append(' '.join(toks))
            for _ in range(6 if not big else 16):
                key = rng.choice(['ofs', 'ofs', 'id', 'N', 'First', 'idx', 'size', 'startxref'])
                v = rng.choice(EXTREMES + [5, 21, 500, 10 ** 6, 2 ** 64 - 1])
                if key in ('ofs', 'id'):
                    v = (rng.randrange(0, 3), abs(v))
                elif key in ('N', 'First', 'idx', 'size', 'startxref'):
                    v = abs(v)
                out.append('B ' + render_xs(random.Random(seed), objs, root, {key: v}).hex())
        except Exception:
            pass
    # histories from the loader generator (xref streams, object streams, hybrid, /Prev chains) and byte mutations of them
    for _ in range(60 if not big else 400):
        try:
            h = L.gen_history(rng, rng.randrange(1, 4))
            if rng.random() < 0.3:
                L.mutate_prev(rng, h, rng.choice(['self', 'newer', 'len', 'len1', 'huge', 'zero']))
            line, info = L.render_history(rng.getrandbits(48), h)
            if info:
                out.append('B ' + info['data'].hex())
                for m in byte_mutations(rng, info['data'], 3):
                    out.append('B ' + (m.hex() or '-'))
        except Exception:
            pass
    return list(dict.fromkeys(out))


def comparable(case, mobs=None):
    return case[:2] in ('M ', 'Y ') and mobs != 'unmodelled'


def oracle(case, obs, prof):
    if obs in ('accepted', 'rejected'):
        return None
    return 'pipeline ended with "%s" (only accepted / rejected are allowed)' % obs


def nontrivial(case, obs):
    t = case.split(' ')
    return ('206f626a' in t[1]) and ('78726566' in t[1])      # " obj" and "xref"


def classify(case, obs):
    return case[0] + ':' + obs


LEVEL_TEXT = ('PARTIAL. Coq theorems about the composed model of the post-load pipeline (dump_root, type check on the dumped '
              'shipped specification, page DOM, embedded-font test, content decoding, text extraction): for EVERY object context '
              'no panic site is reachable (C01_no_panic; side condition for debug builds only: page contents below 2 GiB), every '
              'loop terminates within its bound (C01_terminates, C01_dump_root_terminates), hence accepted or rejected '
              '(C01_two_outcomes) — composed from the component theorems of C06/C07, C08/C09, C11, C12/C15/C02. The composed model is '
              'tied to the code by running the REAL pdf_printer binary (debug and release) on rendered documents and comparing its '
              'exit status with the model verdict (accepted/rejected) on ~950 modelled documents per run; ~2400 further byte-level '
              'hostile files per run are judged by the oracle "exit status 0 or 1" alone. Not proved: the loader in front (separate '
              'models/theorems: C03/C04, C13-C16), real stack/allocator limits, zlib/JPEG decoders, Drop/Ord recursion.')
LEVEL_NOTE = ('trusted: Coq kernel; the component models and their correspondence checks (C02-C16); python renderer of documents '
              '(props/c01.py, props/loaderlib.py); harness/src/bin/c01.rs (spawns the real binary under an 8 s watchdog); zlib as an '
              'oracle (answers computed by python zlib and passed in the case); runtime resources are exercised, not proved')
TECHNIQUE = 'Coq composition of component totality/termination theorems + differential run of the real binary against the composed pipeline model + fault-directed files'
