"""C17 — a buffer view behaves like an independent copy of its window."""
import itertools

ID = 'C17'
PROFILES = ['debug', 'release']
MODEL_PER_PROFILE = True
THEOREMS = ['C17_views_refine_copies', 'C17_view_step', 'C17_view_equals_copy', 'C17_history_from_new', 'C17_view_of_view',
            'C17_outside_window_invisible', 'C17_out_of_range_is_error', 'C17_error_leaves_state', 'C17_refused_while_shared',
            'C17_shared_stays', 'C17_no_panic', 'C17_asserting_panics_iff',
            'C17_pinned_drop_refuted', 'C17_pinned_append_refuted', 'C17_pinned_empty_tag_refuted',
            'C17_pinned_set_cursor_overflow_refuted', 'C17_pinned_restrict_view_overflow_refuted']
RULE = ('history = base buffer, chain of nested RestrictView/RestrictViewFrom, parents kept or dropped, operation list; '
        'the runner applies it to the real view and to a fresh ParseBuffer of the window bytes and prints every result + '
        'cursor/size/remaining/peek/buf(). exhaustive: every base over {a,b} up to a length bound x every window nested up '
        'to twice x kept/dropped parents x every cursor position x every operation instance (numeric args 0..size+1 and '
        'usize::MAX, tags/sets over the alphabet up to length 2, empty included), then all (mutator, operation) pairs; every '
        'in- and out-of-range (start,size) request; random long histories (<=40 ops, buffers <=64 bytes). '
        'non-trivial = the window is a proper part of the base and at least one operation after the first succeeded')
TRUSTED = ['model of parsebuffer.rs / transforms.rs in coq/Model/Buf.v (hand transcription, validated by this correspondence run, both build profiles)']
ASSUMPTIONS = ['Rc sharing is the boolean `shared`; Vec::split_off/extend are list operations; Vec lengths are not bounded by 2^64 in the model']
MAX = 18446744073709551615
A, Bb = 0x61, 0x62


def hx(b):
    return bytes(b).hex()


# ---------------------------------------------------------------- reference semantics (the specification)
def _state(d, c):
    return '%d,%d,%d,%s,%s' % (c, len(d), len(d) - c, ('%02x' % d[c]) if c < len(d) else 'n', d[c:].hex() or '-')


def ref_history(win, shared, ops):
    """observations of the trivial buffer (bytes, cursor) under the documented meaning of each operation."""
    d, c = bytes(win), 0
    out = ['ok/' + _state(d, c)]
    for op in ops:
        name, _, arg = op.partition(':')
        r = None
        if name == 'set_cursor':
            k = int(arg)
            if k <= len(d):
                c, r = k, 'ok'
            else:
                r = 'err:eob'
        elif name == 'incr':
            if c < len(d):
                c, r = c + 1, 'ok'
            else:
                r = 'err:eob'
        elif name == 'decr':
            if c > 0:
                c, r = c - 1, 'ok'
            else:
                r = 'err:eob'
        elif name == 'check_cursor':
            r = 't' if int(arg) < len(d) else 'f'
        elif name == 'set_cursor_u':          # asserts its bound: out of range is a panic by contract
            k = int(arg)
            if k <= len(d):
                c, r = k, 'ok'
        elif name == 'incr_u':
            if c < len(d):
                c, r = c + 1, 'ok'
        elif name == 'decr_u':
            if c > 0:
                c, r = c - 1, 'ok'
        elif name == 'check_prefix':
            r = 't' if d.startswith(bytes.fromhex(arg), c) else 'f'
        elif name == 'allowed' or name == 'until':
            s = bytes.fromhex(arg)
            e = c
            while e < len(d) and ((d[e] in s) == (name == 'allowed')):
                e += 1
            r = 'ok:' + (d[c:e].hex() or '-')
            c = e
        elif name == 'scan':
            i = d.find(bytes.fromhex(arg), c)
            if i >= 0:
                r = 'ok:%d' % (i - c)
                c = i
            else:
                r = 'err:eob'
        elif name == 'bscan':
            i = d.rfind(bytes.fromhex(arg), 0, c)
            if i >= 0:
                r = 'ok:%d' % (c - i)
                c = i
            else:
                r = 'err:eob'
        elif name == 'exact':
            t = bytes.fromhex(arg)
            if d.startswith(t, c):
                c, r = c + len(t), 't'
            else:
                r = 'err:guard'
        elif name == 'extract':
            n = int(arg)
            if n <= len(d) - c:
                r = 'ok:' + (d[c:c + n].hex() or '-')
                c += n
            else:
                r = 'err:eob'
        elif name == 'drop':
            n = int(arg)
            if shared or n > c:
                r = 'f'
            else:
                d, c, r = d[n:], c - n, 't'
        elif name == 'append':
            if shared:
                r = 'f'
            else:
                d, r = d + bytes.fromhex(arg), 't'
        else:
            raise ValueError('bad op ' + op)
        if r is None:
            out.append('panic')
            break
        out.append(r + '/' + _state(d, c))
    return out


def window(base, chain):
    """(offset, size) of the window, or the index of the first out-of-range request."""
    off, sz = 0, len(base)
    for i, c in enumerate(chain):
        f = c.split(':')
        if f[0] == 'view':
            a, n = int(f[1]), int(f[2])
            if a + n > sz:
                return None, i
            off, sz = off + a, n
        else:
            a = int(f[1])
            if not a < sz:
                return None, i
            off, sz = off + a, sz - a
    return (off, sz), None


def parse(case):
    t = case.split(' ')
    base = b'' if t[0] == '-' else bytes.fromhex(t[0])
    chain = [] if t[1] == '-' else t[1].split(',')
    ops = [] if t[3] == '-' else t[3].split(',')
    return base, chain, t[2] == 'keep', ops


def oracle(case, obs, prof):
    base, chain, keep, ops = parse(case)
    w, bad = window(base, chain)
    if w is None:
        exp = 'E%d:bounds' % bad
        return None if obs == exp else 'out-of-range view request must be refused: expected "%s", implementation gave "%s"' % (exp, obs[:200])
    shared = keep and len(chain) > 0
    win = base[w[0]:w[0] + w[1]]
    ref = ref_history(win, shared, ops)
    exp = ';'.join(ref)
    if obs == 'V=' + exp + ' C=' + exp:
        return None
    if not obs.startswith('V=') or ' C=' not in obs:
        return 'in-range view request failed: "%s"' % obs[:200]
    v, c = obs[2:].split(' C=')
    vs, cs = v.split(';'), c.split(';')
    names = ['new'] + ops
    for i in range(max(len(vs), len(cs), len(ref))):
        a = vs[i] if i < len(vs) else '(nothing)'
        b = cs[i] if i < len(cs) else '(nothing)'
        e = ref[i] if i < len(ref) else '(nothing)'
        if a == b == e:
            continue
        what = names[i] if i < len(names) else '?'
        if a != b:
            kind = 'view differs from an independent copy of its window'
            if a == 'panic':
                kind += ' (view panics)'
            elif what.startswith(('drop', 'append')) and shared and not a.startswith('f/'):
                kind = 'drop/append not refused while the storage is shared'
            else:
                # bytes visible through the view that are not in the window
                vb = a.split(',')[-1]
                if '/' in a and vb != '-' and bytes.fromhex(vb) not in (win + b''.join(bytes.fromhex(o.split(':')[1]) for o in ops if o.startswith('append:') and len(o) > 7)):
                    kind += ' (exposes bytes outside the window)'
        elif a == 'panic':
            kind = 'operation panics on view and copy alike instead of returning a result'
        elif what.startswith(('drop', 'append')) and shared and not a.startswith('f/'):
            kind = 'drop/append not refused while the storage is shared'
        elif e.startswith('err') and a.split('/')[0] == e.split('/')[0]:
            kind = 'a failed request changed the visible state'
        else:
            kind = 'view and copy agree but not with the documented meaning of the operation'
        return 'step %d (%s): %s: view "%s", copy "%s", specification "%s"' % (i, what, kind, a, b, e)
    return 'observation differs from the specification: "%s"' % obs[:200]


def nontrivial(case, obs):
    base, chain, keep, ops = parse(case)
    w, _ = window(base, chain)
    if w is None or not chain or w[1] == len(base) or not obs.startswith('V='):
        return False
    steps = obs[2:].split(' C=')[0].split(';')[1:]
    return any(s.startswith(('ok', 't/')) for s in steps)


def classify(case, obs):
    t = case.split(' ')
    depth = 0 if t[1] == '-' else t[1].count(',') + 1
    if obs.startswith('V='):
        v = obs[2:].split(' C=')[0]
        out = 'panic' if v.endswith('panic') else 'ok'
    else:
        out = obs[:1]
    return 'depth%d:%s:%s' % (depth, t[2], out)


# ---------------------------------------------------------------- generators
def strings(alpha, maxlen):
    for n in range(maxlen + 1):
        for t in itertools.product(alpha, repeat=n):
            yield bytes(t)


def windows(sz):
    return [(a, n) for a in range(sz + 1) for n in range(sz - a + 1)]


def op_instances(n):
    """every operation with arguments from {0..n+1, MAX}, tags / byte sets over {a,b} up to length 2 (empty included)."""
    nums = list(range(n + 2)) + [MAX]
    tags = [hx(t) for t in strings((A, Bb), 2)]
    sets = ['', '61', '62', '6162']
    out = ['incr', 'decr', 'incr_u', 'decr_u']
    for k in nums:
        out += ['set_cursor:%d' % k, 'check_cursor:%d' % k, 'set_cursor_u:%d' % k, 'extract:%d' % k, 'drop:%d' % k]
    for t in tags:
        out += ['check_prefix:' + t, 'scan:' + t, 'bscan:' + t, 'exact:' + t]
    for s in sets:
        out += ['allowed:' + s, 'until:' + s]
    out += ['append:', 'append:61', 'append:6261']
    return out


def mutators(n):
    return ['drop:%d' % k for k in range(n + 2)] + ['append:', 'append:61', 'append:6261']


def setups(maxlen, alpha=(A, Bb)):
    """(base hex, chain token, window size) for every base up to maxlen and every window nested up to twice."""
    for base in strings(alpha, maxlen):
        L = len(base)
        bh = hx(base) or '-'
        for (a1, n1) in windows(L):
            yield bh, 'view:%d:%d' % (a1, n1), n1
            if a1 < L and a1 + n1 == L:
                yield bh, 'viewfrom:%d' % a1, n1
            for (a2, n2) in windows(n1):
                yield bh, 'view:%d:%d,view:%d:%d' % (a1, n1, a2, n2), n2
                if a2 < n1 and a2 + n2 == n1 and (a1 + a2) % 2 == 0:
                    yield bh, 'view:%d:%d,viewfrom:%d' % (a1, n1, a2), n2


def gen_single(maxlen):
    """every operation instance in every (setup, shared?, cursor) state, followed by a look at the whole window."""
    for bh, chain, n in setups(maxlen):
        insts = op_instances(n)
        for flag in ('keep', 'drop'):
            for k in range(n + 1):
                pre = ('set_cursor:%d,' % k) if k else ''
                for o in insts:
                    yield '%s %s %s %s%s,set_cursor:0' % (bh, chain, flag, pre, o)


def gen_pairs(maxlen):
    """sole-owner views: every mutator (drop/append) followed by every operation instance."""
    for bh, chain, n in setups(maxlen):
        for k in range(n + 1):
            pre = ('set_cursor:%d,' % k) if k else ''
            for m1 in mutators(n):
                for o in op_instances(n + 2):
                    yield '%s %s drop %s%s,%s,set_cursor:0' % (bh, chain, pre, m1, o)


def gen_triples(maxlen):
    """sole-owner views: every two mutators in a row followed by every operation instance."""
    for bh, chain, n in setups(maxlen):
        for k in range(n + 1):
            pre = ('set_cursor:%d,' % k) if k else ''
            for m1 in mutators(n):
                for m2 in mutators(n + 2):
                    for o in op_instances(n + 4):
                        yield '%s %s drop %s%s,%s,%s,set_cursor:0' % (bh, chain, pre, m1, m2, o)


def gen_requests(maxlen):
    """every in- and out-of-range (start, size) request, one and two levels deep, also on the base itself."""
    for base in strings((A, Bb), maxlen):
        L = len(base)
        bh = hx(base) or '-'
        yield '%s - keep scan:61,set_cursor:%d' % (bh, L)
        nums = list(range(L + 2)) + [MAX, MAX - 1, 1 << 63]
        for a in nums:
            yield '%s viewfrom:%d keep incr' % (bh, a)
            for n in nums:
                yield '%s view:%d:%d keep incr' % (bh, a, n)
        for (a1, n1) in windows(L):
            nums = list(range(n1 + 2)) + [MAX, MAX - a1, min(MAX, MAX - a1 + 1), MAX - a1 - 1]
            for a in nums:
                yield '%s view:%d:%d,viewfrom:%d drop incr' % (bh, a1, n1, a)
                for n in nums:
                    yield '%s view:%d:%d,view:%d:%d keep incr' % (bh, a1, n1, a, n)


def gen_random(count, rng):
    for _ in range(count):
        L = rng.choice([0, 1, 2, 3, 5, 8, 13, 21, 34, 64]) if rng.random() < 0.3 else rng.randrange(0, 65)
        alpha = rng.choice([(A, Bb), (A, Bb, 0x63), tuple(range(256)), (0x30, 0x31, 0x0a, 0x20)])
        base = bytes(rng.choice(alpha) for _ in range(L))
        chain = []
        off, sz = 0, L
        for _ in range(rng.choice([1, 1, 2, 2, 3])):
            a = rng.randrange(0, sz + 1)
            if rng.random() < 0.2 and a < sz:
                chain.append('viewfrom:%d' % a)
                off, sz = off + a, sz - a
            else:
                n = rng.randrange(0, sz - a + 1) if rng.random() < 0.7 else sz - a
                chain.append('view:%d:%d' % (a, n))
                off, sz = off + a, n
        flag = 'drop' if rng.random() < 0.25 else 'keep'
        shared = flag == 'keep'
        d, c = bytearray(base[off:off + sz]), 0
        ops = []

        def tag():
            r = rng.random()
            if r < 0.6 and len(d) > 0:       # a substring of the window
                i = rng.randrange(len(d))
                return bytes(d[i:i + rng.choice([1, 1, 2, 3])])
            if r < 0.7:
                return b''
            return bytes(rng.choice(alpha) for _ in range(rng.choice([1, 2, 3])))

        def numarg():
            r = rng.random()
            if r < 0.75:
                return rng.randrange(0, len(d) + 2)
            if r < 0.85:
                return min(MAX, rng.choice([MAX, MAX - 1, MAX - off, MAX - off + 1, (1 << 63), (1 << 63) - off, MAX - off - 1]))
            return rng.randrange(0, 70)

        for _ in range(rng.randrange(1, 41)):
            name = rng.choice(['set_cursor', 'set_cursor', 'incr', 'decr', 'check_cursor', 'set_cursor_u', 'incr_u', 'decr_u',
                               'check_prefix', 'allowed', 'until', 'scan', 'scan', 'bscan', 'bscan', 'exact', 'extract',
                               'extract', 'drop', 'drop', 'append'])
            if name in ('incr', 'decr'):
                ops.append(name)
            elif name in ('incr_u', 'decr_u'):
                # keep by-contract panics (which end the history) rare
                ok = (c < len(d)) if name == 'incr_u' else (c > 0)
                if ok or rng.random() < 0.05:
                    ops.append(name)
                else:
                    continue
            elif name == 'set_cursor_u':
                k = numarg()
                if k <= len(d) or rng.random() < 0.05:
                    ops.append('%s:%d' % (name, k))
                else:
                    continue
            elif name in ('set_cursor', 'check_cursor', 'extract', 'drop'):
                ops.append('%s:%d' % (name, numarg()))
            elif name in ('allowed', 'until'):
                ops.append('%s:%s' % (name, hx(bytes(rng.choice(alpha) for _ in range(rng.randrange(0, 4))))))
            elif name == 'append':
                ops.append('append:%s' % hx(bytes(rng.choice(alpha) for _ in range(rng.randrange(0, 5)))))
            else:
                ops.append('%s:%s' % (name, hx(tag())))
            # track the reference state so that later arguments stay mostly in range
            st = ref_history_state(d, c, shared, ops[-1])
            if st is None:
                break
            d, c = st
        yield '%s %s %s %s' % (hx(base) or '-', ','.join(chain), flag, ','.join(ops) or '-')


def ref_history_state(d, c, shared, op):
    """reference state after one operation from (d, c); None after a by-contract panic."""
    pre = []
    if c:
        pre = ['set_cursor:%d' % c]
    out = ref_history(bytes(d), shared, pre + [op])
    if out[-1] == 'panic':
        return None
    f = out[-1].split('/')[1].split(',')
    cur, size = int(f[0]), int(f[1])
    name, _, arg = op.partition(':')
    nd = bytearray(d)
    if out[-1].startswith('t/'):
        if name == 'drop':
            nd = nd[int(arg):]
        elif name == 'append':
            nd += bytes.fromhex(arg)
    assert len(nd) == size
    return nd, cur


def cases(tier, rng):
    out = []
    if tier == 'thorough':
        out += list(gen_requests(4))
        out += list(gen_single(4))
        out += list(gen_pairs(3))
        out += list(gen_triples(2))
        out += list(gen_random(200000, rng))
    else:
        out += list(gen_requests(3))
        out += list(gen_single(3))
        out += list(gen_pairs(2))
        out += list(gen_triples(1))
        out += list(gen_random(10000, rng))
    return out


def shrink(v, observe):
    """drop operations from the history while the oracle still fails on the implementation."""
    case, prof = v['case'], v['profile']
    t = case.split(' ')
    ops = [] if t[3] == '-' else t[3].split(',')
    i = 0
    while i < len(ops) and len(ops) > 1:
        cand = ops[:i] + ops[i + 1:]
        c2 = ' '.join(t[:3] + [','.join(cand)])
        o2 = observe(c2)
        msg = oracle(c2, o2, prof)
        if msg:
            ops, case = cand, c2
            v = dict(v, case=c2, impl=o2, oracle=msg, model=None, shrunk_from=v.get('shrunk_from', v['case']))
        else:
            i += 1
    return v


LEVEL_TEXT = ('Coq theorems, universally quantified over build profile, view state and history (no bound on buffer, nesting or '
              'history length): every ParseBufferT/StreamBufferT operation, RestrictView/RestrictViewFrom and dropping the other '
              'holders, applied to a view satisfying start<=cursor<=end<=len, returns what the same operation returns on the '
              'reference buffer holding a copy of the window, with the abstraction commuting and the invariant preserved '
              '(C17_view_step), lifted by induction over histories (C17_views_refine_copies, C17_view_equals_copy, '
              'C17_history_from_new); corollaries: bytes outside the window are invisible (non-interference), out-of-range '
              'requests are errors that leave cursor and window unchanged, drop/append are refused while shared, no reachable '
              'panic/overflow except the three asserting operations exactly when out of range. Proved of the code after five '
              'fix: commits (the pinned code refuted it: C17_pinned_*_refuted, witnesses replayed from corpus/c17.txt). The model '
              'is tied to parsebuffer.rs/transforms.rs by an exhaustive small-scope + random-history differential run in debug and release')
LEVEL_NOTE = ('trusted: Coq kernel; hand transcription coq/Model/Buf.v (validated by the correspondence run in both profiles); '
              'extraction + ocaml/drv.ml; harness/src/bin/c17.rs; props/c17.py (python reference semantics = the oracle). '
              'Modelled, not verified: Rc sharing is a boolean; Vec::split_off/truncate/extend are list operations; the theorems '
              'assume the vector plus everything appended stays within isize::MAX bytes (fits). Excluded observables, as in DESIGN: '
              'error locations, get_location(), rc_buf, start, shared_count')
TECHNIQUE = 'Coq refinement proof (per-operation simulation lemmas lifted over histories by induction) + differential correspondence model vs implementation, debug and release'
