"""C03 — loading a well-formed document defines exactly its objects."""
from props import loaderlib as L
from props.loaderlib import Def, Free, Rev

ID = 'C03'
PROFILES = ['debug', 'release']
THEOREMS = ['C03_load', 'C03_load_nonvacuous', 'C03_load_refuted_length_in_objstm', 'C03_identity_mismatch', 'C03_sections_chain', 'C03_load_total']
RULE = ('random documents (3..40 objects of every value kind; streams whose payloads contain endstream / startxref / %%EOF / '
        'trailer / xref text) x random layouts (xref table / xref stream / hybrid; /W widths; /Index partition or full table; '
        'no filter / Flate / Flate+PNG-Up on xref and object streams; objects in the file or in object streams; /Length direct, '
        'backward- or forward-referenced; object order, padding, comments; leading garbage), every layout dimension also '
        'enumerated alone on a fixed document; identity mismatches (two xref offsets swapped, header id or generation altered); '
        'malformed envelopes (no header, no startxref, startxref out of range, no /Root, /Root not a reference, no %%EOF). '
        'non-trivial = a loaded document with >= 3 objects or a rejected identity mismatch')
TRUSTED = ['model of the loader logic of pdf_traverse_xref.rs in coq/Model/Loader.v (hand transcription over the abstraction '
           '"offset -> what the parsers find there", validated by this correspondence run on rendered files)',
           'the abstract description of each case (offset -> what the parsers find there) is NOT trusted: harness/src/loader_common.rs validates every item, every mentioned offset and the header fields of every case against the real '
           'byte-level parsers applied to the file bytes (XrefSectP + TrailerP, IndirectP, XrefStreamP, ObjStreamP, StartXrefP; '
           'a PDFObjContext of its own per item) and reports items=bad, which the oracle and the model comparison flag',
           'props/loaderlib.py remains trusted only for "these bytes are a rendering of this document"; the independent python '
           'resolve + the real loader\'s answer cover that on every case',
           'the byte-level parsers the loader calls (tokens, objects, xref tables/streams, object streams, filters) are the '
           'subject of C02 C05 C13 C14 C06 C07, not of this property']
ASSUMPTIONS = ['a stream read with a /Length different from its payload length does not parse',
               'only xref-stream items carry /Type /XRef, only object-stream items /Type /ObjStm; no /Encrypt in trailers',
               'object values nest less than 50 deep',
               'documented reading of layouts: the /Length of an xref stream is direct; /W widths are at most 4 bytes '
               '(wider fields are refused by XrefStreamP: C13)']
CASE_TIMEOUT = 60
XC_MAXLEN = 5000
XC_CASES = 10


def doc(rng, **kw):
    return L.gen_history(rng, 1, **kw)


def fixed_doc_cases(rng, tier):
    """one layout dimension at a time, the others at their plainest."""
    out = []
    plain = dict(shuffle=False, holder_pos=None, index=True, xfilt='none', selfent=True, hybrid_dup=False, hybrid_junk=False)
    reps = 2 if tier == 'quick' else 12
    for _ in range(reps):
        seed = rng.getrandbits(32)

        def mk(kinds, opts, **kw):
            import random
            r2 = random.Random(seed)
            o = dict(plain)
            o.update(opts)
            a = dict(nobj=(6, 10), maxnum=12, kinds=kinds, objstm=0.0, lenref=0.0, gens=False, opts=o)
            a.update(kw)
            return L.gen_history(r2, 1, **a), r2

        def add(h, r2, garbage=b''):
            line = L.one_case(r2, h, garbage)
            if line:
                out.append(line)

        for kinds in (('table',), ('stream',), ('hybrid',)):
            add(*mk(kinds, {}))
        # /W
        for w0 in (0, 1, 2, 4):
            for w1 in (1, 2, 3, 4):
                for w2 in (0, 1, 2, 4):
                    add(*mk(('stream',), dict(W=(w0, w1, w2), obj0=(w0 != 0))))     # w0 = 0 needs a section of type-1 entries only
        # order of the /Index subsections
        for io in ('asc', 'shuffle', 'reverse', 'self_first', 'singles'):
            for selfent in (True, False):
                add(*mk(('stream',), dict(index=True, selfent=selfent, index_order=io, obj0=(io != 'singles'))))
        # /Index, self entry, filters
        for index in (True, False):
            for selfent in (True, False):
                for xf in ('none', 'flate', 'up'):
                    add(*mk(('stream',), dict(index=index, selfent=selfent, xfilt=xf)))
        # object streams
        for kinds in (('stream',), ('hybrid',)):
            for p in (0.3, 1.0):
                for hd in (False, True):
                    add(*mk(kinds, dict(hybrid_dup=hd, hybrid_junk=hd), objstm=1.0, streams=p / 3))
        # /Length
        for hp in (None, 'before', 'after'):
            for kinds in (('table',), ('stream',)):
                add(*mk(kinds, dict(holder_pos=hp), lenref=1.0, streams=0.6))
                add(*mk(('stream',), dict(holder_pos=hp), lenref=1.0, streams=0.4, objstm=1.0))
        # order / padding / garbage
        add(*mk(('table',), dict(shuffle=True)))
        for g in (1, 2, 7, 64, 1000):
            h, r2 = mk(('table',), {})
            add(h, r2, bytes(r2.randrange(256) for _ in range(g)).replace(b'%PDF-', b'%PDX-'))
        # generations
        add(*mk(('table',), {}, gens=True))
        add(*mk(('stream',), {}, gens=True))
    return out


def mismatch_cases(rng, n):
    out = []
    for _ in range(n):
        h = doc(rng, nobj=(3, 10), objstm=0.3)
        rev = h[0]
        infile = [op for op in rev.ops if isinstance(op, Def) and op.place == 'file' and op.kind != 'xref']
        if len(infile) < 2:
            continue
        k = rng.random()
        if k < 0.4:
            a, b = rng.sample(infile, 2)
            rev.opts['swap'] = (a.num, b.num)
        elif k < 0.7:
            a = rng.choice(infile)
            rev.opts['wrong_id'] = {a.num: (a.num, a.gen + 1)}
        else:
            a = rng.choice(infile)
            rev.opts['wrong_id'] = {a.num: (60 + rng.randrange(5), a.gen)}
        line = L.one_case(rng, h, b'', 'idmis')
        if line:
            out.append(line)
    return out


def malformed_cases(rng, n):
    out = []
    for _ in range(n):
        h = doc(rng, nobj=(3, 8))
        rev = h[0]
        k = rng.randrange(7)
        g = b''
        if k == 0:
            rev.root = None
        elif k == 1:
            rev.root = rng.choice([('int', 1), ('dict', []), ('name', b'Root')])
        elif k == 2:
            rev.opts['sx_override'] = rng.choice([10 ** 6, 2 ** 63 - 1, 7, 0])
        elif k == 3:
            rev.opts['eof'] = False
        elif k == 4:
            rev.opts['no_trailer'] = True
        line = L.one_case(rng, h, g, 'other')
        if line and k == 5:        # no header at all
            t = line.split(' ')
            data = bytes.fromhex(t[6]).replace(b'%PDF-', b'%PDX-')
            t[6] = data.hex()
            t[2] = '0'
            line = ' '.join(t)
        if line and k == 6:        # no startxref keyword
            t = line.split(' ')
            data = bytes.fromhex(t[6])
            if data.count(b'startxref') == 1:
                t[6] = data.replace(b'startxref', b'startxreg').hex()
                t[3] = '-'
                line = ' '.join(t)
        if line:
            out.append(line)
    # garbage-then-xref-stream: the start of an object that never ends, glued in front of the xref-stream object,
    # with startxref pointing at the garbage: rejected (the second attempt restarts at the offset: commit 193f714)
    for _ in range(max(8, n // 4)):
        h = doc(rng, nobj=(3, 8), kinds=('stream',))
        h[0].opts['junk_before_xstm'] = rng.choice([b'1 0 obj 7 ', b'1 0 obj 7\n', b'88 0 obj <</A 1>> ', b'1 0 obj [1 2] % c\n',
                                                    b'5 0 obj (x)\n', b'2 0 obj\n'])
        line = L.one_case(rng, h, L.gen_garbage(rng) if rng.random() < 0.3 else b'', 'other')
        if line:
            out.append(line)
    # hybrid sections whose /XRefStm is wrong; type-2 entries that name something that is not an object stream
    for _ in range(n // 2):
        seed = rng.getrandbits(48)
        if rng.random() < 0.6:
            h = doc(rng, nobj=(3, 8), kinds=('hybrid',))
            line, info = L.render_history(seed, h, b'', 'other')
            if not line:
                continue
            offs = [it.off for it in info['items']]
            kinds = {it.off: it.kind for it in info['items']}
            tgt = rng.choice([info['flen'], info['flen'] + 1, info['flen'] - 1, 2 ** 63 - 1, 0] + offs)
            h[0].opts['xrefstm_override'] = tgt
        else:
            h = doc(rng, nobj=(4, 8), kinds=('stream', 'hybrid'), objstm=1.0)
            plain = [op.num for op in h[0].ops if isinstance(op, Def) and op.place == 'file' and op.kind in ('obj', 'holder')]
            h[0].opts['bad_container'] = rng.choice(plain + [77])
        line, info = L.render_history(seed, h, b'', 'other')
        if line:
            out.append(line)
    return out


def cases(tier, rng):
    out = L.tiny_cases() + fixed_doc_cases(rng, tier)
    n = 900 if tier == 'quick' else 25000
    for i in range(n):
        r = rng.random()
        kw = {}
        if r < 0.25:
            kw = dict(nobj=(10, 40), maxnum=45)
        elif r < 0.35:
            kw = dict(holder_in_stm=0.4, objstm=1.0, lenref=0.8, streams=0.5)
        h = doc(rng, **kw)
        line = L.one_case(rng, h, L.gen_garbage(rng) if rng.random() < 0.4 else b'')
        if line:
            out.append(line)
    out += mismatch_cases(rng, 150 if tier == 'quick' else 3000)
    out += malformed_cases(rng, 100 if tier == 'quick' else 2000)
    return out


def oracle(case, obs, prof):
    return L.oracle_common(case, obs)


def nontrivial(case, obs):
    S = L.parse_spec(case)
    if S['kind'] == 'idmis':
        return obs.startswith('rejected')
    return S['kind'] == 'wf' and obs.startswith('loaded') and len(S['exp']) >= 3


def classify(case, obs):
    S = L.parse_spec(case)
    return '%s/%s:%s' % (S['kind'], S['flags'] or '-', obs.split(' ')[0])


KNOWN_FLAG = {'C03-length-in-objstm': 'd'}


def known_class(kid, case, obs, prof):
    f = KNOWN_FLAG.get(kid)
    return bool(f) and f in L.parse_spec(case)['flags']


LEVEL_TEXT = ('END TO END ON BYTES (also C03_bytes_xrefstm / _objstm / _hybrid for unfiltered xref streams, object streams, hybrid files, and the file-to-file corollaries C03_bytes_representation_independent and C03_bytes_compression_transparent) for the classic layout: C03_bytes_classic (coq/Properties/C03b.v, built by this check): for every document and classic layout, load_bytes (render_classic d l) — the loader model applied to the abstraction that the byte-level parser models compute from the bytes — loads exactly the document; load_bytes is compared with the real parse_data on classic files given as bytes only (family C03B). ' + 'Coq theorems over the abstract loader model: for every abstract file that stores a document in any layout (one '
              'section: table / xref stream / hybrid; objects in the file or in object streams; /Length direct or a backward/'
              'forward reference to an in-file integer) load answers Loaded with exactly the document\'s objects, their values, '
              'the trailer\'s root and nothing else but the layout\'s containers (C03_load, satisfiability shown); an entry whose '
              'offset holds an object of another identifier => Rejected (C03_identity_mismatch); refutation witness for a '
              '/Length holder inside an object stream (C03_load_refuted_length_in_objstm).  Rendering to bytes (offsets, /W, '
              '/Index, Flate/PNG-Up, padding, leading garbage) is python glue exercised by the differential run (debug and release)')
LEVEL_NOTE = ('trusted: Coq kernel; hand transcription coq/Model/Loader.v at the level of already-parsed pieces (the byte-level '
              'parsers are C02/C05/C13/C14/C06/C07); the python renderer + abstract description props/loaderlib.py; extraction + '
              'ocaml/drv.ml; harness/src/loader_common.rs.  Open known finding: /Length holder in an object stream')
TECHNIQUE = ('Coq: invariants over the passes of parse_objects (deferred forward references), object-stream pass by freshness; '
             'differential correspondence on rendered files; independent python oracle (the document\'s own object table)')


# ---------------------------------------------------------------------------------------------
# Added by the coordinator: the end-to-end bytes theorem for the classic layout (coq/Properties/C03b.v:
# C03_bytes_classic — load_bytes (render_classic d l) = Loaded exactly d's objects) is built by this check, and its
# model `load_bytes` (coq/Model/LoaderBytes.v: abstraction computed FROM BYTES by the byte-level parser models, then
# the loader model) is compared with the real parse_data on classic-layout files given as bytes only (props/c03b.py).
COQ_EXTRA = ['Properties/C03b.v']
DELEGATES = [('C03B', 400)]


def delegate_oracle(did, case, obs, prof):
    if obs == 'rejected' or obs.startswith('loaded '):
        return None
    return 'loader did not return on a classic-layout file: "%s"' % obs


def delegate_nontrivial(did, case, obs):
    return obs.startswith('loaded ')
