"""C03B — auxiliary case family of C03 (not a property of its own; used through DELEGATES of props/c03.py):
files in the CLASSIC layout given to the model as BYTES ONLY.  Model = coq/Model/LoaderBytes.v `load_bytes`
(the abstraction of the file is computed from the bytes by the byte-level parser models, then the loader model
runs on it); theorem C03_bytes_classic (coq/Properties/C03b.v).  Implementation = the real parse_data."""
from props import loaderlib as L

ID = 'C03B'
PROFILES = ['debug', 'release']
MODEL_PER_PROFILE = True
COQ_EXTRACT = 'Extract/C03b.v'
COQ_PROPERTY = 'Properties/C03b.v'
THEOREMS = []
CASE_TIMEOUT = 900


def cases(tier, rng):
    out = []
    n = 600 if tier == 'thorough' else 140
    for k in range(n):
        try:
            if k % 8 == 5:
                # hybrid files: classic table + /XRefStm pointing at an unfiltered xref stream (theorem C03_bytes_hybrid)
                h = L.gen_history(rng, 1, nobj=(2, 6), kinds=('hybrid',), objstm=0.0, lenref=0.0, opts={'xfilt': 'none'})
            elif k % 8 == 6:
                # unfiltered object streams behind an unfiltered xref stream (theorem C03_bytes_objstm)
                h = L.gen_history(rng, 1, nobj=(3, 7), kinds=('stream',), objstm=1.0, lenref=0.0, opts={'xfilt': 'none'})
                for rev in h:
                    for op in rev.ops:
                        if getattr(op, 'kind', None) == 'objstm':
                            op.filt = 'none'
            elif k % 4 == 3:
                # unfiltered cross-reference streams (theorem C03_bytes_xrefstm), no object streams
                h = L.gen_history(rng, 1, nobj=(2, 6), kinds=('stream',), objstm=0.0, lenref=0.0, opts={'xfilt': 'none'})
            else:
                # classic tables; every fifth file has 2..3 revisions chained through /Prev (theorem C04_bytes_classic)
                h = L.gen_history(rng, 1 if k % 5 else rng.choice([2, 3]), nobj=(2, 6), kinds=('table',), objstm=0.0, lenref=0.0)
            line, info = L.render_history(rng.getrandbits(48), h, garbage=(L.gen_garbage(rng) if k % 3 == 0 else b''))
        except Exception:
            continue
        if not info or len(info['data']) > 2500:
            continue
        t = line.split(' ')
        out.append('Y %s %s' % (t[6], t[4]))
        d = info['data']
        # (not for the object-stream family: the bytes-level model reports a half-parsed, malformed object stream as a
        #  plain object, the real loader as a container — a documented limit of Model/LoaderBytes.v on malformed input)
        if k % 7 == 0 and k % 8 != 6:        # a few byte mutations and prefixes of the same file
            for _ in range(3):
                b = bytearray(d)
                b[rng.randrange(len(b))] = rng.randrange(256)
                out.append('Y %s %s' % (bytes(b).hex(), t[4]))
            out.append('Y %s %s' % (d[:rng.randrange(len(d))].hex() or '-', t[4]))
    return out


def oracle(case, obs, prof):
    return None if (obs == 'rejected' or obs.startswith('loaded ')) else 'loader did not return: "%s"' % obs


def nontrivial(case, obs):
    return obs.startswith('loaded ')
