// Canonical one-token text form of PDF objects, shared with coq/Base/PdfObj.v:
//   n | t | f | i<int> | q<num>/<den> | s<hex> | m<hex> | c<hex> | R<num>.<gen>
//   A(o,o,…) | D(<hexkey>:o,…) | S(D(…),<hex content>)
// Locations are never printed (LocatedVal equality ignores them); objects built by `read`
// get location (0, 0).
use parsley_rust::pcore::parsebuffer::LocatedVal;
use parsley_rust::pdf_lib::pdf_obj::{
    ArrayT, DictKey, DictT, PDFObjContext, PDFObjT, ReferenceT, StreamT, IndirectT,
};
use parsley_rust::pdf_lib::pdf_prim::{IntegerT, NameT, RealT, StreamContentT};
use std::collections::BTreeMap;
use std::rc::Rc;

fn hexs(v: &[u8]) -> String {
    let mut s = String::with_capacity(v.len() * 2);
    for b in v {
        s.push_str(&format!("{:02x}", b));
    }
    s
}

fn show_dict(d: &DictT, out: &mut String) {
    out.push_str("D(");
    let mut first = true;
    for (k, v) in d.map().iter() {
        if !first {
            out.push(',');
        }
        first = false;
        out.push_str(&hexs(k.as_slice()));
        out.push(':');
        show_into(v.val(), out);
    }
    out.push(')');
}

pub fn show_into(o: &PDFObjT, out: &mut String) {
    match o {
        PDFObjT::Null(_) => out.push('n'),
        PDFObjT::Boolean(true) => out.push('t'),
        PDFObjT::Boolean(false) => out.push('f'),
        PDFObjT::Integer(i) => out.push_str(&format!("i{}", i.int_val())),
        PDFObjT::Real(r) => {
            // RealT(n, d) has no accessors for the denominator; its derived Debug prints both
            let s = format!("{:?}", r);
            let inner = s.trim_start_matches("RealT(").trim_end_matches(')');
            let mut it = inner.split(", ");
            let n = it.next().unwrap_or("?");
            let d = it.next().unwrap_or("?");
            out.push_str(&format!("q{}/{}", n, d));
        },
        PDFObjT::String(s) => {
            out.push('s');
            out.push_str(&hexs(s))
        },
        PDFObjT::Name(n) => {
            out.push('m');
            out.push_str(&hexs(n.val()))
        },
        PDFObjT::Comment(c) => {
            out.push('c');
            out.push_str(&hexs(c))
        },
        PDFObjT::Reference(r) => out.push_str(&format!("R{}.{}", r.num(), r.gen())),
        PDFObjT::Array(a) => {
            out.push_str("A(");
            let mut first = true;
            for x in a.objs() {
                if !first {
                    out.push(',');
                }
                first = false;
                show_into(x.val(), out);
            }
            out.push(')');
        },
        PDFObjT::Dict(d) => show_dict(d, out),
        PDFObjT::Stream(s) => {
            out.push_str("S(");
            show_dict(s.dict().val(), out);
            out.push(',');
            out.push_str(&hexs(s.content()));
            out.push(')');
        },
    }
}

pub fn show(o: &PDFObjT) -> String {
    let mut s = String::new();
    show_into(o, &mut s);
    s
}

// ---- reader ----
pub struct Rd<'a> {
    s: &'a [u8],
    i: usize,
}

fn unhex1(c: u8) -> u8 {
    match c {
        b'0' ..= b'9' => c - b'0',
        b'a' ..= b'f' => c - b'a' + 10,
        b'A' ..= b'F' => c - b'A' + 10,
        _ => 0,
    }
}

impl<'a> Rd<'a> {
    pub fn new(s: &'a str) -> Rd<'a> { Rd { s: s.as_bytes(), i: 0 } }
    fn peek(&self) -> Option<u8> { self.s.get(self.i).copied() }
    fn take_while<F: Fn(u8) -> bool>(&mut self, f: F) -> &'a [u8] {
        let st = self.i;
        while self.i < self.s.len() && f(self.s[self.i]) {
            self.i += 1;
        }
        &self.s[st .. self.i]
    }
    fn hex(&mut self) -> Vec<u8> {
        let h = self.take_while(|c| c.is_ascii_hexdigit());
        let mut v = Vec::new();
        let mut k = 0;
        while k + 1 < h.len() {
            v.push(unhex1(h[k]) * 16 + unhex1(h[k + 1]));
            k += 2;
        }
        v
    }
    fn num(&mut self) -> String {
        String::from_utf8(self.take_while(|c| c.is_ascii_digit() || c == b'-').to_vec()).unwrap()
    }
    fn expect(&mut self, c: u8) {
        assert!(self.peek() == Some(c), "pdfobj reader: expected {}", c as char);
        self.i += 1;
    }
    fn dict(&mut self) -> DictT {
        // after "D("
        let mut map = BTreeMap::new();
        loop {
            match self.peek() {
                Some(b')') => {
                    self.i += 1;
                    break
                },
                Some(b',') => self.i += 1,
                _ => {
                    let k = self.hex();
                    self.expect(b':');
                    let v = self.obj();
                    map.insert(DictKey::new(k), Rc::new(LocatedVal::new(v, 0, 0)));
                },
            }
        }
        DictT::new(map)
    }
    pub fn obj(&mut self) -> PDFObjT {
        let c = self.peek().expect("pdfobj reader: eof");
        self.i += 1;
        match c {
            b'n' => PDFObjT::Null(()),
            b't' => PDFObjT::Boolean(true),
            b'f' => PDFObjT::Boolean(false),
            b'i' => PDFObjT::Integer(IntegerT::new(self.num().parse().unwrap())),
            b'q' => {
                let n: i128 = self.num().parse().unwrap();
                self.expect(b'/');
                let d: i128 = self.num().parse().unwrap();
                PDFObjT::Real(RealT::new(n, d))
            },
            b's' => PDFObjT::String(self.hex()),
            b'm' => PDFObjT::Name(NameT::new(self.hex())),
            b'c' => PDFObjT::Comment(self.hex()),
            b'R' => {
                let n: usize = self.num().parse().unwrap();
                self.expect(b'.');
                let g: usize = self.num().parse().unwrap();
                PDFObjT::Reference(ReferenceT::new(n, g))
            },
            b'A' => {
                self.expect(b'(');
                let mut v = Vec::new();
                loop {
                    match self.peek() {
                        Some(b')') => {
                            self.i += 1;
                            break
                        },
                        Some(b',') => self.i += 1,
                        _ => v.push(Rc::new(LocatedVal::new(self.obj(), 0, 0))),
                    }
                }
                PDFObjT::Array(ArrayT::new(v))
            },
            b'D' => {
                self.expect(b'(');
                PDFObjT::Dict(self.dict())
            },
            b'S' => {
                self.expect(b'(');
                self.expect(b'D');
                self.expect(b'(');
                let d = self.dict();
                self.expect(b',');
                let c = self.hex();
                self.expect(b')');
                let n = c.len();
                PDFObjT::Stream(StreamT::new(
                    Rc::new(LocatedVal::new(d, 0, 0)),
                    LocatedVal::new(StreamContentT::new(0, n, c), 0, 0),
                ))
            },
            _ => panic!("pdfobj reader: bad tag {}", c as char),
        }
    }
}

pub fn read(s: &str) -> PDFObjT { Rd::new(s).obj() }

// context text: "num.gen=obj;num.gen=obj" ("-" for empty)
pub fn read_ctx(s: &str, ctxt: &mut PDFObjContext) {
    if s == "-" || s.is_empty() {
        return
    }
    for part in s.split(';') {
        let mut it = part.splitn(2, '=');
        let id = it.next().unwrap();
        let o = read(it.next().unwrap());
        let mut idp = id.split('.');
        let n: usize = idp.next().unwrap().parse().unwrap();
        let g: usize = idp.next().unwrap().parse().unwrap();
        let ind = LocatedVal::new(IndirectT::new(n, g, Rc::new(LocatedVal::new(o, 0, 0))), 0, 0);
        ctxt.register_obj(&ind);
    }
}
