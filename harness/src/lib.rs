// Shared helpers for the per-property implementation runners (src/bin/cXX.rs).
// Protocol: one case per line on stdin, tokens separated by single spaces; one canonical
// observation per line on stdout.  Every case runs under catch_unwind: a panic is the
// observation "panic".
use std::io::{self, BufRead, Write};
use std::panic;

pub mod pdfobj;
pub use parsley_rust::pcore::parsebuffer::{ErrorKind, LocatedVal, ParseBuffer, ParseBufferT};

pub fn unhex(s: &str) -> Vec<u8> {
    if s == "-" {
        return Vec::new()
    }
    let b = s.as_bytes();
    let mut v = Vec::with_capacity(b.len() / 2);
    let d = |c: u8| -> u8 {
        match c {
            b'0' ..= b'9' => c - b'0',
            b'a' ..= b'f' => c - b'a' + 10,
            b'A' ..= b'F' => c - b'A' + 10,
            _ => 0,
        }
    };
    let mut i = 0;
    while i + 1 < b.len() {
        v.push(d(b[i]) * 16 + d(b[i + 1]));
        i += 2;
    }
    v
}

pub fn hex(v: &[u8]) -> String {
    if v.is_empty() {
        return "-".to_string()
    }
    let mut s = String::with_capacity(v.len() * 2);
    for b in v {
        s.push_str(&format!("{:02x}", b));
    }
    s
}

pub fn ekind(e: &ErrorKind) -> &'static str {
    match e {
        ErrorKind::EndOfBuffer => "eob",
        ErrorKind::InsufficientContext => "ctx",
        ErrorKind::BoundsError => "bounds",
        ErrorKind::PrimitiveError(_) => "prim",
        ErrorKind::GuardError(_) => "guard",
        ErrorKind::TransformError(_) => "transform",
    }
}

// Runs `f` on every input line; panics inside `f` become the observation "panic".
pub fn run_lines<F>(f: F)
where
    F: Fn(&[&str]) -> String + panic::RefUnwindSafe,
{
    panic::set_hook(Box::new(|_| {}));
    let stdin = io::stdin();
    let stdout = io::stdout();
    let mut out = io::BufWriter::new(stdout.lock());
    for line in stdin.lock().lines() {
        let line = line.unwrap();
        if line.is_empty() || line.starts_with('#') {
            writeln!(out).unwrap();
            continue
        }
        let toks: Vec<&str> = line.split(' ').collect();
        let r = panic::catch_unwind(|| f(&toks));
        match r {
            Ok(s) => writeln!(out, "{}", s).unwrap(),
            Err(_) => writeln!(out, "panic").unwrap(),
        }
    }
    out.flush().unwrap();
}
