// One-token text form of type-check specifications (TypeCheck / PDFType / named-check contexts),
// shared with coq/Model/TypeCheck.v (read_chk, read_tctx) and props/c08.py.  See docs/TCSPEC.md.
// Include with  #[path = "../tcspec.rs"] mod tcspec;
//
//   chk   := '@' name                              TypeCheck::Named(name)   (name: no , ) ; = )
//          | ['!' | '~'] ['{' pred '}'] ty         TypeCheck::Rep: '!' Required, '~' Forbidden indirect
//   ty    := '_'                                   Any
//          | 'b' 's' 'm' 'n' 'i' 'q' 'c'           Bool String Name Null Integer Real Comment
//          | 'A' [digits] '(' chk ')'              Array { elem, size }
//          | 'H(' chk , … ')'                      HetArray
//          | 'D(' ent , … [, '*' opt ':' chk] ')'  Dict(entries, star)
//          | 'S(' ent , … ')'                      Stream(entries)
//          | 'O(' chk , … ')'                      Disjunct
//   ent   := hexkey opt ':' chk       opt := '+' Required | '?' Optional | '-' Forbidden
//   pred  := '1' always | '0' never | 'N' hex , …  name in set | 'I' int , …  integer in set
//          | 'L' digits  array of that length | '#' digits  opaque predicate number
//   tctx  := name '=' chk ';' …  | '-'             (a later binding replaces an earlier one)
#![allow(dead_code)]
use implrun::LocatedVal;
use parsley_rust::pdf_lib::pdf_obj::PDFObjT;
use parsley_rust::pdf_lib::pdf_type_check::{
    DictEntry, DictKeySpec, DictStarEntry, IndirectSpec, PDFPrimType, PDFType, Predicate,
    TypeCheck, TypeCheckContext, TypeCheckError, TypeCheckRep,
};
use std::collections::{BTreeMap, BTreeSet};
use std::rc::Rc;

// ---- the enumerated predicate family (identical to pred_eval in coq/Model/TypeCheck.v) ----
#[derive(Clone, Debug)]
pub enum Pr {
    Always,
    Never,
    NameIn(Vec<Vec<u8>>),
    IntIn(Vec<i64>),
    ArrLen(usize),
}
pub struct P(pub Pr);
impl Predicate for P {
    fn check(&self, obj: &Rc<LocatedVal<PDFObjT>>) -> Option<LocatedVal<TypeCheckError>> {
        let ok = match (&self.0, obj.val()) {
            (Pr::Always, _) => true,
            (Pr::Never, _) => false,
            (Pr::NameIn(l), PDFObjT::Name(n)) => l.iter().any(|x| x.as_slice() == n.val()),
            (Pr::NameIn(_), _) => false,
            (Pr::IntIn(l), PDFObjT::Integer(i)) => l.iter().any(|x| *x == i.int_val()),
            (Pr::IntIn(_), _) => false,
            (Pr::ArrLen(n), PDFObjT::Array(a)) => a.objs().len() == *n,
            (Pr::ArrLen(_), _) => false,
        };
        if ok {
            None
        } else {
            Some(obj.place(TypeCheckError::ValueMismatch(
                Rc::clone(obj),
                String::from("predicate"),
            )))
        }
    }
}
// the default reading of an opaque predicate: always satisfied
pub struct OpaqueTrue;
impl Predicate for OpaqueTrue {
    fn check(&self, _: &Rc<LocatedVal<PDFObjT>>) -> Option<LocatedVal<TypeCheckError>> { None }
}

// Predicates are interned by their text: one Rc per distinct predicate text, so that predicate
// identity (pointer) = textual identity.  [opaque] supplies the predicate for '#'k.
pub struct Interner {
    preds:  BTreeMap<String, Rc<dyn Predicate>>,
    opaque: Box<dyn Fn(u64) -> Rc<dyn Predicate>>,
}
impl Interner {
    pub fn new() -> Interner {
        Interner {
            preds:  BTreeMap::new(),
            opaque: Box::new(|_| Rc::new(OpaqueTrue) as Rc<dyn Predicate>),
        }
    }
    pub fn with_opaque(f: Box<dyn Fn(u64) -> Rc<dyn Predicate>>) -> Interner {
        Interner {
            preds:  BTreeMap::new(),
            opaque: f,
        }
    }
}

// ---- reader ----
pub struct Rd<'a> {
    s:       &'a [u8],
    i:       usize,
    intern:  &'a mut Interner,
    // anonymous representations are registered here only (TypeCheck::new* always registers)
    scratch: TypeCheckContext,
}

fn unhex1(c: u8) -> u8 {
    match c {
        b'0' ..= b'9' => c - b'0',
        b'a' ..= b'f' => c - b'a' + 10,
        b'A' ..= b'F' => c - b'A' + 10,
        _ => 0,
    }
}

pub type Attrs = (Option<Rc<dyn Predicate>>, IndirectSpec);

impl<'a> Rd<'a> {
    pub fn new(text: &'a str, intern: &'a mut Interner) -> Rd<'a> {
        Rd {
            s: text.as_bytes(),
            i: 0,
            intern,
            scratch: TypeCheckContext::new(),
        }
    }
    pub fn at_end(&self) -> bool { self.i == self.s.len() }
    fn peek(&self) -> Option<u8> { self.s.get(self.i).copied() }
    fn take_while<F: Fn(u8) -> bool>(&mut self, f: F) -> &'a [u8] {
        let st = self.i;
        while self.i < self.s.len() && f(self.s[self.i]) {
            self.i += 1;
        }
        &self.s[st .. self.i]
    }
    fn expect(&mut self, c: u8) {
        assert!(self.peek() == Some(c), "chk reader: expected {}", c as char);
        self.i += 1;
    }
    fn hex(&mut self) -> Vec<u8> {
        let h = self.take_while(|c| c.is_ascii_hexdigit());
        let mut v = Vec::new();
        let mut k = 0;
        while k + 1 < h.len() {
            v.push(unhex1(h[k]) * 16 + unhex1(h[k + 1]));
            k += 2;
        }
        v
    }
    fn digits(&mut self) -> String {
        String::from_utf8(self.take_while(|c| c.is_ascii_digit()).to_vec()).unwrap()
    }
    fn pred(&mut self) -> Rc<dyn Predicate> {
        // after '{'
        let st = self.i;
        let k = self.peek().expect("pred");
        self.i += 1;
        let mut opaque = None;
        let pr = match k {
            b'1' => Pr::Always,
            b'0' => Pr::Never,
            b'N' => {
                let mut l = Vec::new();
                if self.peek() != Some(b'}') {
                    loop {
                        l.push(self.hex());
                        if self.peek() == Some(b',') {
                            self.i += 1
                        } else {
                            break
                        }
                    }
                }
                Pr::NameIn(l)
            },
            b'I' => {
                let mut l = Vec::new();
                if self.peek() != Some(b'}') {
                    loop {
                        let t = self.take_while(|c| c.is_ascii_digit() || c == b'-');
                        l.push(std::str::from_utf8(t).unwrap().parse::<i64>().unwrap());
                        if self.peek() == Some(b',') {
                            self.i += 1
                        } else {
                            break
                        }
                    }
                }
                Pr::IntIn(l)
            },
            b'L' => Pr::ArrLen(self.digits().parse().unwrap()),
            b'#' => {
                opaque = Some(self.digits().parse::<u64>().unwrap());
                Pr::Always
            },
            _ => panic!("chk reader: bad predicate"),
        };
        self.expect(b'}');
        let text = String::from_utf8(self.s[st .. self.i].to_vec()).unwrap();
        if let Some(p) = self.intern.preds.get(&text) {
            return Rc::clone(p)
        }
        let p: Rc<dyn Predicate> = match opaque {
            Some(id) => (self.intern.opaque)(id),
            None => Rc::new(P(pr)),
        };
        self.intern.preds.insert(text, Rc::clone(&p));
        p
    }
    fn kspec(&mut self) -> DictKeySpec {
        let c = self.peek().expect("kspec");
        self.i += 1;
        match c {
            b'+' => DictKeySpec::Required,
            b'?' => DictKeySpec::Optional,
            b'-' => DictKeySpec::Forbidden,
            _ => panic!("chk reader: bad key spec"),
        }
    }
    fn list(&mut self) -> Vec<Rc<TypeCheck>> {
        let mut v = Vec::new();
        loop {
            match self.peek() {
                Some(b')') => {
                    self.i += 1;
                    break
                },
                Some(b',') => self.i += 1,
                _ => v.push(self.chk()),
            }
        }
        v
    }
    fn ents(&mut self) -> (Vec<DictEntry>, Option<DictStarEntry>) {
        let mut v = Vec::new();
        let mut star = None;
        loop {
            match self.peek() {
                Some(b')') => {
                    self.i += 1;
                    break
                },
                Some(b',') => self.i += 1,
                Some(b'*') => {
                    self.i += 1;
                    let o = self.kspec();
                    self.expect(b':');
                    let c = self.chk();
                    star = Some(DictStarEntry::verif_new(c, o));
                },
                _ => {
                    let k = self.hex();
                    let o = self.kspec();
                    self.expect(b':');
                    let c = self.chk();
                    v.push(DictEntry::verif_new(k, c, o));
                },
            }
        }
        (v, star)
    }
    pub fn attrs(&mut self) -> Attrs {
        let ind = match self.peek() {
            Some(b'!') => {
                self.i += 1;
                IndirectSpec::Required
            },
            Some(b'~') => {
                self.i += 1;
                IndirectSpec::Forbidden
            },
            _ => IndirectSpec::Allowed,
        };
        let p = if self.peek() == Some(b'{') {
            self.i += 1;
            Some(self.pred())
        } else {
            None
        };
        (p, ind)
    }
    pub fn ty(&mut self) -> PDFType {
        let c = self.peek().expect("chk reader: eof");
        self.i += 1;
        match c {
            b'_' => PDFType::Any,
            b'b' => PDFType::PrimType(PDFPrimType::Bool),
            b's' => PDFType::PrimType(PDFPrimType::String),
            b'm' => PDFType::PrimType(PDFPrimType::Name),
            b'n' => PDFType::PrimType(PDFPrimType::Null),
            b'i' => PDFType::PrimType(PDFPrimType::Integer),
            b'q' => PDFType::PrimType(PDFPrimType::Real),
            b'c' => PDFType::PrimType(PDFPrimType::Comment),
            b'A' => {
                let d = self.digits();
                self.expect(b'(');
                let elem = self.chk();
                self.expect(b')');
                PDFType::Array {
                    elem,
                    size: if d.is_empty() { None } else { Some(d.parse().unwrap()) },
                }
            },
            b'H' => {
                self.expect(b'(');
                PDFType::HetArray { elems: self.list() }
            },
            b'O' => {
                self.expect(b'(');
                PDFType::Disjunct(self.list())
            },
            b'D' => {
                self.expect(b'(');
                let (v, s) = self.ents();
                PDFType::Dict(v, s)
            },
            b'S' => {
                self.expect(b'(');
                let (v, _) = self.ents();
                PDFType::Stream(v)
            },
            _ => panic!("chk reader: bad type tag {}", c as char),
        }
    }
    pub fn chk(&mut self) -> Rc<TypeCheck> {
        if self.peek() == Some(b'@') {
            self.i += 1;
            let n = self.take_while(|c| c != b',' && c != b')' && c != b';' && c != b'=');
            return TypeCheck::new_named(std::str::from_utf8(n).unwrap())
        }
        let (p, ind) = self.attrs();
        let t = self.ty();
        TypeCheck::new_all(&mut self.scratch, "", Rc::new(t), p, ind)
    }
}

// a whole check
pub fn read_chk(text: &str, intern: &mut Interner) -> Rc<TypeCheck> {
    let mut rd = Rd::new(text, intern);
    let c = rd.chk();
    assert!(rd.at_end(), "chk reader: trailing text");
    c
}

// "name=chk;…" — registers each named check (a full representation) in [tctx], in order
pub fn read_tctx(text: &str, tctx: &mut TypeCheckContext, intern: &mut Interner) -> bool {
    if text == "-" || text.is_empty() {
        return true
    }
    for part in text.split(';') {
        let mut it = part.splitn(2, '=');
        let name = it.next().unwrap();
        let body = match it.next() {
            Some(b) => b,
            None => return false,
        };
        let mut rd = Rd::new(body, intern);
        if rd.peek() == Some(b'@') {
            return false
        }
        let (p, ind) = rd.attrs();
        let ty = rd.ty();
        assert!(rd.at_end(), "chk reader: trailing text");
        TypeCheck::new_all(tctx, name, Rc::new(ty), p, ind);
    }
    true
}

// ---- printer: dumps an existing TypeCheck graph.  Predicates are trait objects: each distinct
// predicate (by pointer) gets the next opaque number; [preds][k] is the predicate printed '#'k. ----
pub struct Printer {
    pub preds: Vec<Rc<dyn Predicate>>,
    names:     BTreeSet<String>,
}

fn hexs(v: &[u8]) -> String {
    let mut s = String::with_capacity(v.len() * 2);
    for b in v {
        s.push_str(&format!("{:02x}", b));
    }
    s
}

impl Printer {
    pub fn new() -> Printer {
        Printer {
            preds: Vec::new(),
            names: BTreeSet::new(),
        }
    }
    fn pred_id(&mut self, p: &Rc<dyn Predicate>) -> usize {
        let a = Rc::as_ptr(p) as *const u8;
        for (i, q) in self.preds.iter().enumerate() {
            if Rc::as_ptr(q) as *const u8 == a {
                return i
            }
        }
        self.preds.push(Rc::clone(p));
        self.preds.len() - 1
    }
    fn kspec(o: DictKeySpec) -> char {
        match o {
            DictKeySpec::Required => '+',
            DictKeySpec::Optional => '?',
            DictKeySpec::Forbidden => '-',
        }
    }
    fn ents(&mut self, ents: &[DictEntry], star: Option<&DictStarEntry>, out: &mut String) {
        let mut first = true;
        for e in ents {
            if !first {
                out.push(',');
            }
            first = false;
            out.push_str(&hexs(e.verif_key()));
            out.push(Self::kspec(e.verif_opt()));
            out.push(':');
            self.chk_into(e.verif_chk(), out);
        }
        if let Some(s) = star {
            if !first {
                out.push(',');
            }
            out.push('*');
            out.push(Self::kspec(s.verif_opt()));
            out.push(':');
            self.chk_into(s.verif_chk(), out);
        }
    }
    pub fn rep_into(&mut self, r: &TypeCheckRep, out: &mut String) {
        match r.indirect() {
            IndirectSpec::Required => out.push('!'),
            IndirectSpec::Forbidden => out.push('~'),
            IndirectSpec::Allowed => (),
        }
        if let Some(p) = r.pred() {
            let id = self.pred_id(p);
            out.push_str(&format!("{{#{}}}", id));
        }
        match r.typ() {
            PDFType::Any => out.push('_'),
            PDFType::PrimType(p) => out.push(match p {
                PDFPrimType::Bool => 'b',
                PDFPrimType::String => 's',
                PDFPrimType::Name => 'm',
                PDFPrimType::Null => 'n',
                PDFPrimType::Integer => 'i',
                PDFPrimType::Real => 'q',
                PDFPrimType::Comment => 'c',
            }),
            PDFType::Array { elem, size } => {
                out.push('A');
                if let Some(n) = size {
                    out.push_str(&format!("{}", n));
                }
                out.push('(');
                self.chk_into(elem, out);
                out.push(')');
            },
            PDFType::HetArray { elems } => {
                out.push_str("H(");
                for (i, e) in elems.iter().enumerate() {
                    if i > 0 {
                        out.push(',');
                    }
                    self.chk_into(e, out);
                }
                out.push(')');
            },
            PDFType::Disjunct(alts) => {
                out.push_str("O(");
                for (i, e) in alts.iter().enumerate() {
                    if i > 0 {
                        out.push(',');
                    }
                    self.chk_into(e, out);
                }
                out.push(')');
            },
            PDFType::Dict(ents, star) => {
                out.push_str("D(");
                self.ents(ents, star.as_ref(), out);
                out.push(')');
            },
            PDFType::Stream(ents) => {
                out.push_str("S(");
                self.ents(ents, None, out);
                out.push(')');
            },
        }
    }
    pub fn chk_into(&mut self, tc: &TypeCheck, out: &mut String) {
        match tc {
            TypeCheck::Named(n) => {
                self.names.insert(n.clone());
                out.push('@');
                out.push_str(n);
            },
            TypeCheck::Rep(r) => self.rep_into(r, out),
        }
    }
    pub fn chk(&mut self, tc: &TypeCheck) -> String {
        let mut s = String::new();
        self.chk_into(tc, &mut s);
        s
    }
    // the root check and the named checks it (transitively) mentions, as (tctx text, chk text);
    // a name without a definition in [tctx] is left out (the checker reports it when reached)
    pub fn dump(&mut self, tctx: &TypeCheckContext, root: &TypeCheck) -> (String, String) {
        let root_text = self.chk(root);
        let mut done: BTreeSet<String> = BTreeSet::new();
        let mut parts = Vec::new();
        loop {
            let next = self.names.iter().find(|n| !done.contains(*n)).cloned();
            match next {
                None => break,
                Some(n) => {
                    done.insert(n.clone());
                    if let Some(r) = tctx.lookup(&n) {
                        let mut s = String::new();
                        self.rep_into(&r, &mut s);
                        parts.push(format!("{}={}", n, s));
                    }
                },
            }
        }
        let t = if parts.is_empty() { "-".to_string() } else { parts.join(";") };
        (t, root_text)
    }
}
