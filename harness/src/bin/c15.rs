// C15: token parsers of pdf_prim.rs + BinaryScanner/BinaryMatcher.
// case: kind arg hexbuf cursor
// observation: <result> | <result of the same parser on the reported span alone>
use implrun::*;
use parsley_rust::pcore::parsebuffer::{Location, ParsleyParser};
use parsley_rust::pcore::prim_binary::{BinaryMatcher, BinaryScanner};
use parsley_rust::pdf_lib::pdf_prim::*;

// runs parser `p` at cursor c of buf; returns (text, Some((start,end))) on success
fn once<P, F>(mk: &dyn Fn() -> P, sh: &F, buf: &[u8], c: usize) -> (String, Option<(usize, usize)>)
where
    P: ParsleyParser,
    F: Fn(&P::T) -> String,
{
    // each of the two parser applications has its own panic observation
    match std::panic::catch_unwind(std::panic::AssertUnwindSafe(|| once_(mk, sh, buf, c))) {
        Ok(r) => r,
        Err(_) => ("panic".to_string(), None),
    }
}

fn once_<P, F>(mk: &dyn Fn() -> P, sh: &F, buf: &[u8], c: usize) -> (String, Option<(usize, usize)>)
where
    P: ParsleyParser,
    F: Fn(&P::T) -> String,
{
    let mut pb = ParseBuffer::new(buf.to_vec());
    if pb.set_cursor(c).is_err() {
        return ("badcase".to_string(), None)
    }
    let mut p = mk();
    match p.parse(&mut pb) {
        Ok(v) => (
            format!(
                "ok {} {} {} @{}",
                sh(&v),
                v.loc_start(),
                v.loc_end(),
                pb.get_cursor()
            ),
            Some((v.loc_start(), v.loc_end())),
        ),
        Err(e) => (
            format!("err {} @{}", ekind(e.val()), pb.get_cursor()),
            None,
        ),
    }
}

fn run2<P, F>(mk: &dyn Fn() -> P, sh: F, buf: &[u8], c: usize) -> String
where
    P: ParsleyParser,
    F: Fn(&P::T) -> String,
{
    run2x(0, mk, sh, buf, c)
}

// ext = number of look-ahead bytes appended to the span for the re-parse (scanner: the tag)
fn run2x<P, F>(ext: usize, mk: &dyn Fn() -> P, sh: F, buf: &[u8], c: usize) -> String
where
    P: ParsleyParser,
    F: Fn(&P::T) -> String,
{
    let (r, span) = once(mk, &sh, buf, c);
    if r == "badcase" {
        return r
    }
    match span {
        // same slicing as the model's `sub`: firstn (b - a) (skipn a s)
        Some((a, b)) => {
            let a2 = a.min(buf.len());
            let b2 = (a2 + (b + ext).saturating_sub(a)).min(buf.len());
            let (r2, _) = once(mk, &sh, &buf[a2 .. b2], 0);
            format!("{} | {}", r, r2)
        },
        None => format!("{} | -", r),
    }
}

fn main() {
    run_lines(|t| {
        let kind = t[0];
        let a1 = t[1];
        let buf = unhex(t[2]);
        let c: usize = t[3].parse().unwrap();
        let flag = a1 != "0";
        match kind {
            "wsn" => run2(&|| WhitespaceNoEOL::new(flag), |_v| "()".to_string(), &buf, c),
            "com" => run2(&|| Comment, |v| hex(v.val()), &buf, c),
            "wse" => run2(&|| WhitespaceEOL::new(flag), |_v| "()".to_string(), &buf, c),
            "bool" => run2(&|| Boolean, |v| format!("{}", v.val()), &buf, c),
            "null" => run2(&|| Null, |_v| "()".to_string(), &buf, c),
            "int" => run2(&|| IntegerP, |v| format!("{}", v.val().int_val()), &buf, c),
            "real" => run2(
                &|| RealP,
                |v| {
                    // RealT has no public accessor for the denominator: use the derived Debug form RealT(n, d)
                    let d = format!("{:?}", v.val());
                    let inner = d.trim_start_matches("RealT(").trim_end_matches(')');
                    let parts: Vec<&str> = inner.split(", ").collect();
                    format!("{}/{}", parts[0], parts[1])
                },
                &buf,
                c,
            ),
            "hex" => run2(&|| HexString, |v| hex(v.val()), &buf, c),
            "lit" => run2(&|| RawLiteralString, |v| hex(v.val()), &buf, c),
            "name" => run2(&|| NameP, |v| hex(v.val().val()), &buf, c),
            "op" => run2(&|| OperatorP, |v| hex(v.val().name().as_bytes()), &buf, c),
            "sc" => {
                let k: usize = a1.parse().unwrap();
                run2(
                    &|| StreamContentP::new(k / 2, k % 2 == 1),
                    |v| {
                        format!(
                            "{}:{}:{}",
                            v.val().start(),
                            v.val().size(),
                            hex(v.val().content())
                        )
                    },
                    &buf,
                    c,
                )
            },
            "scan" => {
                let tag = unhex(a1);
                run2x(
                    tag.len(),
                    &|| BinaryScanner::new(&tag),
                    |v| format!("{}", v.val()),
                    &buf,
                    c,
                )
            },
            "match" => {
                let tag = unhex(a1);
                run2(&|| BinaryMatcher::new(&tag), |v| format!("{}", v.val()), &buf, c)
            },
            _ => "badcase".to_string(),
        }
    })
}
