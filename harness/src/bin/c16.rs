// C16: object nesting is bounded by the configured depth.
// cases:
//   obj <max_depth> <pre_entered> <hexbuf> [meta]      as in c02.rs
//   deep <max_depth> <pre_entered> <kind> <n> [meta]   a generated input of nesting n (10^5..10^6):
//        kind a: "[" x n           kind d: "<</a" x n        kind m: ("[" "<</a") alternating, n openers
//        kind A: "[" x n "]" x n   kind D: "<</a" x n ">>" x n
//     run in a CHILD PROCESS on a thread with a fixed 64 MiB stack, so that recursion proportional
//     to the input kills the child (observation "crash") instead of the runner.
// observation:  ok <obj> <loc_start> <loc_end> @<cursor> d<ctxt.depth()>
//               err <kind> @<cursor> d<ctxt.depth()>
use implrun::*;
use parsley_rust::pcore::parsebuffer::Location;
use parsley_rust::pdf_lib::pdf_obj::{parse_pdf_obj, PDFObjContext};
use std::io::{Read, Write};
use std::process::{Command, Stdio};

fn run_buf(d: usize, k: usize, buf: Vec<u8>) -> String {
    let mut ctxt = PDFObjContext::new(d);
    for _ in 0 .. k {
        if !ctxt.enter_obj() {
            return "badcase".to_string()
        }
    }
    let mut pb = ParseBuffer::new(buf);
    match parse_pdf_obj(&mut ctxt, &mut pb) {
        Ok(o) => format!(
            "ok {} {} {} @{} d{}",
            pdfobj::show(o.val()),
            o.loc_start(),
            o.loc_end(),
            pb.get_cursor(),
            ctxt.depth()
        ),
        Err(e) => format!(
            "err {} @{} d{}",
            ekind(e.val()),
            pb.get_cursor(),
            ctxt.depth()
        ),
    }
}

fn deep_buf(kind: &str, n: usize) -> Option<Vec<u8>> {
    let mut v = Vec::new();
    match kind {
        "a" | "A" => {
            for _ in 0 .. n {
                v.push(b'[')
            }
            if kind == "A" {
                for _ in 0 .. n {
                    v.push(b']')
                }
            }
        },
        "d" | "D" => {
            for _ in 0 .. n {
                v.extend_from_slice(b"<</a")
            }
            if kind == "D" {
                for _ in 0 .. n {
                    v.extend_from_slice(b">>")
                }
            }
        },
        "m" => {
            for i in 0 .. n {
                if i % 2 == 0 {
                    v.push(b'[')
                } else {
                    v.extend_from_slice(b"<</a")
                }
            }
        },
        _ => return None,
    }
    Some(v)
}

fn parse2(t: &[&str]) -> Option<(usize, usize)> {
    if t.len() < 4 {
        return None
    }
    Some((t[1].parse().ok()?, t[2].parse().ok()?))
}

// executed in the child: one case line on stdin, one observation on stdout
fn child() {
    let mut line = String::new();
    std::io::stdin().read_to_string(&mut line).unwrap();
    let line = line.trim_end_matches('\n').to_string();
    let h = std::thread::Builder::new()
        .stack_size(64 << 20)
        .spawn(move || {
            let t: Vec<&str> = line.split(' ').collect();
            let r = std::panic::catch_unwind(|| {
                let (d, k) = match parse2(&t) {
                    Some(x) => x,
                    None => return "badcase".to_string(),
                };
                if t.len() < 5 {
                    return "badcase".to_string()
                }
                let n: usize = match t[4].parse() {
                    Ok(n) => n,
                    Err(_) => return "badcase".to_string(),
                };
                match deep_buf(t[3], n) {
                    Some(b) => run_buf(d, k, b),
                    None => "badcase".to_string(),
                }
            });
            match r {
                Ok(s) => s,
                Err(_) => "panic".to_string(),
            }
        })
        .unwrap();
    let s = h.join().unwrap_or_else(|_| "panic".to_string());
    println!("{}", s);
}

fn run_deep(t: &[&str]) -> String {
    let exe = match std::env::current_exe() {
        Ok(e) => e,
        Err(_) => return "badcase".to_string(),
    };
    let mut ch = match Command::new(exe)
        .arg("--child")
        .stdin(Stdio::piped())
        .stdout(Stdio::piped())
        .stderr(Stdio::null())
        .spawn()
    {
        Ok(c) => c,
        Err(_) => return "badcase".to_string(),
    };
    {
        let mut si = ch.stdin.take().unwrap();
        let _ = si.write_all(t.join(" ").as_bytes());
    }
    let out = match ch.wait_with_output() {
        Ok(o) => o,
        Err(_) => return "crash".to_string(),
    };
    if !out.status.success() {
        // killed by a signal (stack overflow = SIGSEGV/SIGABRT) or non-zero exit
        return "crash".to_string()
    }
    String::from_utf8_lossy(&out.stdout).trim_end().to_string()
}

fn main() {
    if std::env::args().any(|a| a == "--child") {
        std::panic::set_hook(Box::new(|_| {}));
        child();
        return
    }
    run_lines(|t| match t[0] {
        "obj" => match parse2(t) {
            Some((d, k)) => run_buf(d, k, unhex(t[3])),
            None => "badcase".to_string(),
        },
        "deep" => run_deep(t),
        _ => "badcase".to_string(),
    })
}
