// C13: cross-reference tables and streams.
//   tab <hexbuf> <cursor>                              XrefSectP.parse
//   stm <enc 0|1> <S(D(…),hexcontent)> <decoded>       XrefStreamP::new(enc, &stream).parse(view of content)
// The 4th token of `stm` (the decoder output) is for the model only; the implementation decodes itself.
use implrun::*;
use parsley_rust::pcore::parsebuffer::{Location, ParsleyParser};
use parsley_rust::pdf_lib::pdf_file::XrefSectP;
use parsley_rust::pdf_lib::pdf_obj::PDFObjT;
use parsley_rust::pdf_lib::pdf_streams::{XrefEntStatus, XrefEntT, XrefStreamP};

fn show_ent(e: &XrefEntT) -> String {
    match e.status() {
        XrefEntStatus::Free { next } => format!("{}.{}.f.{}", e.obj(), e.gen(), next),
        XrefEntStatus::InUse { file_ofs } => format!("{}.{}.n.{}", e.obj(), e.gen(), file_ofs),
        XrefEntStatus::InStream {
            stream_obj,
            obj_index,
        } => format!("{}.{}.s.{}.{}", e.obj(), e.gen(), stream_obj, obj_index),
    }
}

fn show_list(v: Vec<String>) -> String {
    if v.is_empty() {
        "-".to_string()
    } else {
        v.join(",")
    }
}

fn main() {
    run_lines(|t| match t[0] {
        "tab" => {
            let buf = unhex(t[1]);
            let c: usize = t[2].parse().unwrap();
            let mut pb = ParseBuffer::new(buf);
            if pb.set_cursor(c).is_err() {
                return "badcase".to_string()
            }
            match XrefSectP.parse(&mut pb) {
                Ok(x) => {
                    let subs: Vec<String> = x
                        .val()
                        .sects()
                        .iter()
                        .map(|s| format!("{}+{}", s.val().start(), s.val().count()))
                        .collect();
                    let ents: Vec<String> = x.val().ents().iter().map(|e| show_ent(e.val())).collect();
                    format!(
                        "ok {} {} {} {} @{}",
                        show_list(subs),
                        show_list(ents),
                        x.loc_start(),
                        x.loc_end(),
                        pb.get_cursor()
                    )
                },
                Err(e) => format!("err {} @{}", ekind(e.val()), pb.get_cursor()),
            }
        },
        "stm" => {
            let enc = t[1] == "1";
            let o = pdfobj::read(t[2]);
            let s = match o {
                PDFObjT::Stream(s) => s,
                _ => return "badcase".to_string(),
            };
            let mut pb = ParseBuffer::new(Vec::from(s.content()));
            let mut p = XrefStreamP::new(enc, &s);
            match p.parse(&mut pb) {
                Ok(x) => {
                    let ents: Vec<String> = x.val().ents().iter().map(|e| show_ent(e.val())).collect();
                    format!(
                        "ok {} {} {} @{}",
                        show_list(ents),
                        x.loc_start(),
                        x.loc_end(),
                        pb.get_cursor()
                    )
                },
                Err(e) => format!("err {} @{}", ekind(e.val()), pb.get_cursor()),
            }
        },
        _ => "badcase".to_string(),
    })
}

