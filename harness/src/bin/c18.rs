// C18: combinators (Sequence, Alternate, Star, Not) over guarded AsciiChar parsers.
// case: <expr> <hex input> <cursor>
// expr is a prefix term in one token; '(' ',' ')' are decoration and skipped:
//   =HH  AsciiChar guarded by (c == 0xHH)    .  AsciiChar::new()    [HH..]  guarded by membership
//   ~<guard>  DirtyChar (below): a test double that accepts the same bytes but advances the cursor
//             before deciding and does not restore it on failure
//   S(a,b) Sequence   A(a,b) Alternate   *(a) Star   !(a) Not
// observation: "ok <tree> @cursor" | "err <kind> @cursor"; tree = tag[start,end](kids)
//
// The combinators are generic over the operand parser types, so an arbitrary expression tree is
// run through `DynP`: a parser whose `parse` constructs the *real* generic combinator
// (Sequence<DynP,DynP>, Alternate<DynP,DynP>, Star<DynP>, Not<DynP>) at each node, calls its
// `parse`, and converts the typed output to a uniform `Node`.  The conversion never touches the
// buffer, so cursor movements are exactly those of the library code.
use implrun::*;
use parsley_rust::pcore::parsebuffer::{Location, ParseResult, ParsleyParser};
use parsley_rust::pcore::prim_ascii::AsciiChar;
use parsley_rust::pcore::prim_combinators::{Alt, Alternate, Not, Sequence, Star};

#[derive(Clone, Debug)]
enum Guard {
    Any,
    Eq(u8),
    Set(Vec<u8>),
}

#[derive(Clone, Debug)]
enum Expr {
    Chr(Guard),
    Dty(Guard),
    Seq(Box<Expr>, Box<Expr>),
    Alt(Box<Expr>, Box<Expr>),
    Star(Box<Expr>),
    Not(Box<Expr>),
}

fn hexd(c: u8) -> u8 {
    match c {
        b'0' ..= b'9' => c - b'0',
        b'a' ..= b'f' => c - b'a' + 10,
        b'A' ..= b'F' => c - b'A' + 10,
        _ => 0,
    }
}

fn read_guard(t: &[u8], i: &mut usize) -> Option<Guard> {
    if *i >= t.len() {
        return None
    }
    let ch = t[*i];
    *i += 1;
    match ch {
        b'=' => {
            if *i + 2 > t.len() {
                return None
            }
            let b = hexd(t[*i]) * 16 + hexd(t[*i + 1]);
            *i += 2;
            Some(Guard::Eq(b))
        },
        b'.' => Some(Guard::Any),
        b'[' => {
            let mut set = Vec::new();
            loop {
                if *i < t.len() && t[*i] == b']' {
                    *i += 1;
                    break
                }
                if *i + 2 > t.len() {
                    return None
                }
                set.push(hexd(t[*i]) * 16 + hexd(t[*i + 1]));
                *i += 2;
            }
            Some(Guard::Set(set))
        },
        _ => None,
    }
}

fn read_expr(t: &[u8], i: &mut usize) -> Option<Expr> {
    while *i < t.len() && (t[*i] == b'(' || t[*i] == b')' || t[*i] == b',') {
        *i += 1;
    }
    if *i >= t.len() {
        return None
    }
    let ch = t[*i];
    *i += 1;
    match ch {
        b'=' | b'.' | b'[' => {
            *i -= 1;
            Some(Expr::Chr(read_guard(t, i)?))
        },
        b'~' => Some(Expr::Dty(read_guard(t, i)?)),
        b'S' => {
            let a = read_expr(t, i)?;
            let b = read_expr(t, i)?;
            Some(Expr::Seq(Box::new(a), Box::new(b)))
        },
        b'A' => {
            let a = read_expr(t, i)?;
            let b = read_expr(t, i)?;
            Some(Expr::Alt(Box::new(a), Box::new(b)))
        },
        b'*' => Some(Expr::Star(Box::new(read_expr(t, i)?))),
        b'!' => Some(Expr::Not(Box::new(read_expr(t, i)?))),
        _ => None,
    }
}

// The property's domain: every Star operand syntactically consumes input.  Outside it the
// library's `while let Ok(..)` loop does not terminate, so such a case is never run.
fn nullable(e: &Expr) -> bool {
    match e {
        Expr::Chr(_) | Expr::Dty(_) => false,
        Expr::Seq(a, b) => nullable(a) && nullable(b),
        Expr::Alt(a, b) => nullable(a) || nullable(b),
        Expr::Star(_) => true,
        Expr::Not(_) => true,
    }
}
fn wf(e: &Expr) -> bool {
    match e {
        Expr::Chr(_) | Expr::Dty(_) => true,
        Expr::Seq(a, b) | Expr::Alt(a, b) => wf(a) && wf(b),
        Expr::Star(a) => wf(a) && !nullable(a),
        Expr::Not(a) => wf(a),
    }
}

// uniform located value tree
#[derive(Debug, PartialEq)]
enum Tag {
    Chr(u8),
    Seq,
    Left,
    Right,
    Star,
    Not,
}
#[derive(Debug, PartialEq)]
struct Node {
    tag:   Tag,
    kids:  Vec<Node>,
    start: usize,
    end:   usize,
}
impl Location for Node {
    fn loc_start(&self) -> usize { self.start }
    fn loc_end(&self) -> usize { self.end }
}

// Test double: a leaf parser that is a legitimate ParsleyParser but, unlike AsciiChar, moves the
// cursor before it decides and leaves it there when it fails.  Nothing in the ParsleyParser
// contract forbids that, and the combinators are written to cope with it.
struct DirtyChar {
    guard: Guard,
}
impl ParsleyParser for DirtyChar {
    type T = LocatedVal<char>;

    fn parse(&mut self, buf: &mut dyn ParseBufferT) -> ParseResult<Self::T> {
        let start = buf.get_cursor();
        let b = match buf.peek() {
            None => return Err(LocatedVal::new(ErrorKind::EndOfBuffer, start, start)),
            Some(b) => b,
        };
        buf.incr_cursor_unsafe();
        let end = buf.get_cursor();
        if b >= 128 {
            let e = parsley_rust::pcore::parsebuffer::ParseError::new("dirty: not ascii");
            return Err(LocatedVal::new(ErrorKind::PrimitiveError(e), start, end))
        }
        let ok = match &self.guard {
            Guard::Any => true,
            Guard::Eq(x) => b == *x,
            Guard::Set(s) => s.contains(&b),
        };
        if !ok {
            return Err(LocatedVal::new(
                ErrorKind::GuardError("dirty".to_string()),
                start,
                end,
            ))
        }
        Ok(LocatedVal::new(char::from(b), start, end))
    }
}

enum DynP {
    Chr(AsciiChar),
    Dty(DirtyChar),
    Seq(Box<DynP>, Box<DynP>),
    Alt(Box<DynP>, Box<DynP>),
    Star(Box<DynP>),
    Not(Box<DynP>),
}

fn build(e: &Expr) -> DynP {
    match e {
        Expr::Chr(Guard::Any) => DynP::Chr(AsciiChar::new()),
        Expr::Chr(Guard::Eq(b)) => {
            let b = *b;
            DynP::Chr(AsciiChar::new_guarded(Box::new(move |c: &char| *c == char::from(b))))
        },
        Expr::Chr(Guard::Set(s)) => {
            let s: Vec<char> = s.iter().map(|b| char::from(*b)).collect();
            DynP::Chr(AsciiChar::new_guarded(Box::new(move |c: &char| s.contains(c))))
        },
        Expr::Dty(g) => DynP::Dty(DirtyChar { guard: g.clone() }),
        Expr::Seq(a, b) => DynP::Seq(Box::new(build(a)), Box::new(build(b))),
        Expr::Alt(a, b) => DynP::Alt(Box::new(build(a)), Box::new(build(b))),
        Expr::Star(a) => DynP::Star(Box::new(build(a))),
        Expr::Not(a) => DynP::Not(Box::new(build(a))),
    }
}

impl ParsleyParser for DynP {
    type T = Node;

    fn parse(&mut self, buf: &mut dyn ParseBufferT) -> ParseResult<Node> {
        match self {
            DynP::Chr(p) => {
                let r = p.parse(buf)?;
                let (start, end) = (r.loc_start(), r.loc_end());
                Ok(Node {
                    tag: Tag::Chr(*r.val() as u32 as u8),
                    kids: vec![],
                    start,
                    end,
                })
            },
            DynP::Dty(p) => {
                let r = p.parse(buf)?;
                let (start, end) = (r.loc_start(), r.loc_end());
                Ok(Node {
                    tag: Tag::Chr(*r.val() as u32 as u8),
                    kids: vec![],
                    start,
                    end,
                })
            },
            DynP::Seq(a, b) => {
                let mut p = Sequence::new(&mut **a, &mut **b);
                let r = p.parse(buf)?;
                let (start, end) = (r.loc_start(), r.loc_end());
                let (x, y) = r.unwrap();
                Ok(Node {
                    tag: Tag::Seq,
                    kids: vec![x, y],
                    start,
                    end,
                })
            },
            DynP::Alt(a, b) => {
                let mut p = Alternate::new(&mut **a, &mut **b);
                let r = p.parse(buf)?;
                let (start, end) = (r.loc_start(), r.loc_end());
                let (tag, x) = match r.unwrap() {
                    Alt::Left(x) => (Tag::Left, x),
                    Alt::Right(x) => (Tag::Right, x),
                };
                Ok(Node {
                    tag,
                    kids: vec![x],
                    start,
                    end,
                })
            },
            DynP::Star(a) => {
                let mut p = Star::new(&mut **a);
                let r = p.parse(buf)?;
                let (start, end) = (r.loc_start(), r.loc_end());
                Ok(Node {
                    tag: Tag::Star,
                    kids: r.unwrap(),
                    start,
                    end,
                })
            },
            DynP::Not(a) => {
                let mut p = Not::new(&mut **a);
                let r = p.parse(buf)?;
                let (start, end) = (r.loc_start(), r.loc_end());
                Ok(Node {
                    tag: Tag::Not,
                    kids: vec![],
                    start,
                    end,
                })
            },
        }
    }
}

fn show_tree(n: &Node, out: &mut String) {
    match &n.tag {
        Tag::Chr(b) => out.push_str(&format!("'{:02x}", b)),
        Tag::Seq => out.push('S'),
        Tag::Left => out.push('L'),
        Tag::Right => out.push('R'),
        Tag::Star => out.push('*'),
        Tag::Not => out.push('!'),
    }
    out.push_str(&format!("[{},{}]", n.start, n.end));
    match n.tag {
        Tag::Chr(_) | Tag::Not => {},
        _ => {
            out.push('(');
            for (i, k) in n.kids.iter().enumerate() {
                if i > 0 {
                    out.push(',');
                }
                show_tree(k, out);
            }
            out.push(')');
        },
    }
}

fn main() {
    run_lines(|t| {
        if t.len() < 3 {
            return "badcase".to_string()
        }
        let tok = t[0].as_bytes();
        let mut i = 0;
        let e = match read_expr(tok, &mut i) {
            Some(e) => e,
            None => return "badcase".to_string(),
        };
        while i < tok.len() && (tok[i] == b'(' || tok[i] == b')' || tok[i] == b',') {
            i += 1;
        }
        if i != tok.len() {
            return "badcase".to_string()
        }
        let buf = unhex(t[1]);
        let c: usize = match t[2].parse() {
            Ok(c) => c,
            Err(_) => return "badcase".to_string(),
        };
        let mut pb = ParseBuffer::new(buf);
        if pb.set_cursor(c).is_err() {
            return "badcase".to_string()
        }
        if !wf(&e) {
            return "notwf".to_string()
        }
        let mut p = build(&e);
        match p.parse(&mut pb) {
            Ok(n) => {
                let mut s = String::from("ok ");
                show_tree(&n, &mut s);
                s.push_str(&format!(" @{}", pb.get_cursor()));
                s
            },
            Err(e) => format!("err {} @{}", ekind(e.val()), pb.get_cursor()),
        }
    })
}
