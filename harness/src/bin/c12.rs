// C12: content-stream text extractor.
//   case "T <hex stream> tok tok …" : the stream bytes (rendered by props/c12.py) and the token list the
//        model works on.  The runner first lexes the bytes with the real CSObjP and checks that the
//        result is exactly the given token list (otherwise prints "lexdiff …": the rendering, not the
//        extractor, is wrong); then runs TextExtractor::parse on the bytes.
//   case "B <hex stream>"           : bytes only.
// tokens: o<hex name> operator; operands in the shared PDF-object text form (harness/src/pdfobj.rs).
// observation: "ok" followed by " S" (Space) / " x<hex>" (RawText, "x-" when empty), or "err <kind>".
use implrun::*;
use parsley_rust::pcore::parsebuffer::ParsleyParser;
use parsley_rust::pdf_lib::pdf_content_streams::{CSObjP, CSObjT, TextExtractor, TextToken};
use parsley_rust::pdf_lib::pdf_obj::{PDFObjContext, PDFObjT};
use parsley_rust::pdf_lib::pdf_prim::WhitespaceEOL;

fn hexs(v: &[u8]) -> String {
    let mut s = String::with_capacity(v.len() * 2);
    for b in v {
        s.push_str(&format!("{:02x}", b));
    }
    s
}

fn show_real(r: &parsley_rust::pdf_lib::pdf_prim::RealT) -> String {
    let s = format!("{:?}", r);
    let inner = s.trim_start_matches("RealT(").trim_end_matches(')');
    let mut it = inner.split(", ");
    let n = it.next().unwrap_or("?");
    let d = it.next().unwrap_or("?");
    format!("q{}/{}", n, d)
}

fn show_cs(o: &CSObjT) -> String {
    match o {
        CSObjT::Op(n) => format!("o{}", hexs(n.as_bytes())),
        CSObjT::Array(a) => {
            let mut out = String::from("A(");
            let mut first = true;
            for x in a.objs() {
                if !first {
                    out.push(',');
                }
                first = false;
                pdfobj::show_into(x.val(), &mut out);
            }
            out.push(')');
            out
        },
        CSObjT::Dict(d) => {
            let mut out = String::from("D(");
            let mut first = true;
            for (k, v) in d.map().iter() {
                if !first {
                    out.push(',');
                }
                first = false;
                out.push_str(&hexs(k.as_slice()));
                out.push(':');
                pdfobj::show_into(v.val(), &mut out);
            }
            out.push(')');
            out
        },
        CSObjT::Boolean(true) => "t".to_string(),
        CSObjT::Boolean(false) => "f".to_string(),
        CSObjT::String(s) => format!("s{}", hexs(s)),
        CSObjT::Name(n) => format!("m{}", hexs(n.val())),
        CSObjT::Null(_) => "n".to_string(),
        CSObjT::Comment(c) => format!("c{}", hexs(c)),
        CSObjT::Integer(i) => format!("i{}", i.int_val()),
        CSObjT::Real(r) => show_real(r),
    }
}

// the token list the real lexer sees (whitespace/comments skipped exactly as the extractor's loop does)
fn lex(bytes: &[u8]) -> Vec<String> {
    let mut ctxt = PDFObjContext::new(50);
    let mut p = CSObjP::new(&mut ctxt);
    let mut ws = WhitespaceEOL::new(true);
    let mut pb = ParseBuffer::new(bytes.to_vec());
    let mut toks = Vec::new();
    loop {
        if ws.parse(&mut pb).is_err() {
            toks.push("!ws".to_string());
            break
        }
        if pb.remaining() == 0 {
            break
        }
        match p.parse(&mut pb) {
            Ok(o) => toks.push(show_cs(o.val())),
            Err(e) => {
                toks.push(format!("!{}", ekind(e.val())));
                break
            },
        }
    }
    toks
}

fn extract(bytes: &[u8]) -> String {
    let mut ctxt = PDFObjContext::new(50);
    let id = (1usize, 0usize);
    let mut te = TextExtractor::new(&mut ctxt, &id);
    let mut pb = ParseBuffer::new(bytes.to_vec());
    match te.parse(&mut pb) {
        Ok(v) => {
            let mut out = String::from("ok");
            for t in v.val().iter() {
                match t {
                    TextToken::Space => out.push_str(" S"),
                    TextToken::RawText(s) => {
                        out.push_str(" x");
                        out.push_str(&hex(s))
                    },
                }
            }
            out
        },
        Err(e) => format!("err {}", ekind(e.val())),
    }
}

#[allow(dead_code)]
fn _unused(_: &PDFObjT) {}

fn main() {
    run_lines(|t| match t[0] {
        "T" => {
            if t.len() < 2 {
                return "badcase".to_string()
            }
            let bytes = unhex(t[1]);
            let want: Vec<String> = t[2 ..].iter().map(|s| s.to_string()).collect();
            let got = lex(&bytes);
            if got != want {
                let mut out = String::from("lexdiff");
                for g in got.iter() {
                    out.push(' ');
                    out.push_str(g);
                }
                return out
            }
            extract(&bytes)
        },
        "B" => {
            if t.len() < 2 {
                return "badcase".to_string()
            }
            extract(&unhex(t[1]))
        },
        "L" => {
            // lexer only (for probing): prints the token list
            if t.len() < 2 {
                return "badcase".to_string()
            }
            format!("lex {}", lex(&unhex(t[1])).join(" "))
        },
        _ => "badcase".to_string(),
    })
}
