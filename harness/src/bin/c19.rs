// C19: binary integer parsers.  case: kind endian|len hexbuf cursor
use implrun::*;
use parsley_rust::pcore::parsebuffer::{Location, ParsleyParser};
use parsley_rust::pcore::prim_binary::*;

fn show<T: std::fmt::Display>(
    r: Result<LocatedVal<T>, LocatedVal<ErrorKind>>, pb: &ParseBuffer,
) -> String
where
    T: PartialEq,
{
    match r {
        Ok(v) => format!(
            "ok {} {} {} @{}",
            v.val(),
            v.loc_start(),
            v.loc_end(),
            pb.get_cursor()
        ),
        Err(e) => format!("err {} @{}", ekind(e.val()), pb.get_cursor()),
    }
}

fn main() {
    run_lines(|t| {
        let kind = t[0];
        let buf = unhex(t[2]);
        let c: usize = t[3].parse().unwrap();
        // optional tokens 4, 5: bytes before / after the window in the underlying storage; the
        // parser then runs on a restricted view holding exactly `buf`
        let mut pb = if t.len() >= 6 {
            use parsley_rust::pcore::transforms::{BufferTransformT, RestrictView};
            let pre = unhex(t[4]);
            let post = unhex(t[5]);
            let mut all = pre.clone();
            all.extend_from_slice(&buf);
            all.extend_from_slice(&post);
            let base = ParseBuffer::new(all);
            match RestrictView::new(pre.len(), buf.len()).transform(&base) {
                Ok(v) => v,
                Err(_) => return "badcase".to_string(),
            }
        } else {
            ParseBuffer::new(buf)
        };
        if pb.set_cursor(c).is_err() {
            return "badcase".to_string()
        }
        let e = if t[1] == "le" { Endian::Little } else { Endian::Big };
        match kind {
            "u8" => show(UInt8P.parse(&mut pb), &pb),
            "u16" => show(UInt16P::new(e).parse(&mut pb), &pb),
            "u32" => show(UInt32P::new(e).parse(&mut pb), &pb),
            "u64" => show(UInt64P::new(e).parse(&mut pb), &pb),
            "i8" => show(Int8P.parse(&mut pb), &pb),
            "i16" => show(Int16P::new(e).parse(&mut pb), &pb),
            "i32" => show(Int32P::new(e).parse(&mut pb), &pb),
            "i64" => show(Int64P::new(e).parse(&mut pb), &pb),
            "bytes" => {
                let n: usize = t[1].parse().unwrap();
                match ByteVecP::new(n).parse(&mut pb) {
                    Ok(v) => format!(
                        "ok {} {} {} @{}",
                        hex(v.val()),
                        v.loc_start(),
                        v.loc_end(),
                        pb.get_cursor()
                    ),
                    Err(e) => format!("err {} @{}", ekind(e.val()), pb.get_cursor()),
                }
            },
            _ => "badcase".to_string(),
        }
    })
}
