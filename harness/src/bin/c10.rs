// C10: the shipped catalog / page-tree specification.  case: tag octx root
//   tag   "ok" | "bad:<mutation>" | "any" | "sub:<path>:<exp>"
//   octx  "num.gen=obj;…" | "-"        (implrun::pdfobj::read_ctx)
//   root  the object handed to check_type (the catalog; for sub:… the value of the sub-check)
// observation: the verdict of the real
//     check_type(ctxt, tctx, root, catalog_type(&mut tctx))
// ("accept" | "reject <kind>" | "specerr <kind>" | "panic"), followed for tags ok / bad:… by
// " spec=conforms" / " spec=violates" — what the tag promises; the model prints there the
// declarative verdict of Spec/Conforms.v on the dumped specification (gen/Shipped.v).
// For "sub:<path>:<exp>" the check is the sub-check of catalog_type's result reached by
// <path> ('/'-separated: k<hexkey> entry of a Dict/Stream, e array element, a<i> disjunct
// alternative, h<i> het-array member; named checks are resolved through tctx on the way).
use implrun::*;
use parsley_rust::pdf_lib::catalog::catalog_type;
use parsley_rust::pdf_lib::pdf_obj::PDFObjContext;
use parsley_rust::pdf_lib::pdf_type_check::{
    check_type, PDFType, TypeCheck, TypeCheckContext, TypeCheckError, TypeCheckRep,
};
use std::rc::Rc;

fn kind(e: &TypeCheckError) -> &'static str {
    match e {
        TypeCheckError::RefNotFound(_) => "reject refnotfound",
        TypeCheckError::ArraySizeMismatch(_, _) => "reject size",
        TypeCheckError::MissingKey(_) => "reject missingkey",
        TypeCheckError::ForbiddenKey(_) => "reject forbiddenkey",
        TypeCheckError::TypeMismatch(_, _) => "reject type",
        TypeCheckError::ValueMismatch(_, _) => "reject value",
        // the shipped predicates (date, name tree, number tree) answer PredicateError; the checker
        // itself uses that kind for exactly one specification error
        TypeCheckError::PredicateError(m) => {
            if m.starts_with("Unsupported disjunct type") {
                "specerr pred"
            } else {
                "reject value"
            }
        },
        TypeCheckError::UnknownTypeCheck(_) => "specerr unknown",
    }
}

fn resolve(tctx: &TypeCheckContext, c: &Rc<TypeCheck>) -> Option<Rc<TypeCheckRep>> {
    match c.as_ref() {
        TypeCheck::Rep(r) => Some(Rc::clone(r)),
        TypeCheck::Named(n) => tctx.lookup(n),
    }
}

fn unhexv(s: &str) -> Vec<u8> {
    if s.is_empty() {
        Vec::new()
    } else {
        unhex(s)
    }
}

fn nav(tctx: &TypeCheckContext, path: &str, root: Rc<TypeCheck>) -> Option<Rc<TypeCheck>> {
    let mut c = root;
    for st in path.split('/') {
        if st.is_empty() {
            continue
        }
        let r = resolve(tctx, &c)?;
        let (t, arg) = st.split_at(1);
        c = match (t, r.typ()) {
            ("k", PDFType::Dict(ents, _)) | ("k", PDFType::Stream(ents)) => {
                let key = unhexv(arg);
                let e = ents.iter().find(|e| e.verif_key() == key.as_slice())?;
                Rc::clone(e.verif_chk())
            },
            ("e", PDFType::Array { elem, .. }) => Rc::clone(elem),
            ("a", PDFType::Disjunct(l)) => Rc::clone(l.get(arg.parse::<usize>().ok()?)?),
            ("h", PDFType::HetArray { elems }) => Rc::clone(elems.get(arg.parse::<usize>().ok()?)?),
            _ => return None,
        };
    }
    Some(c)
}

pub fn run_case(t: &[&str]) -> String {
    if t.len() != 3 {
        return "badcase".to_string()
    }
    let tag = t[0];
    let mut ctxt = PDFObjContext::new(50);
    pdfobj::read_ctx(t[1], &mut ctxt);
    let obj = Rc::new(LocatedVal::new(pdfobj::read(t[2]), 0, 0));
    let mut tctx = TypeCheckContext::new();
    let cat = catalog_type(&mut tctx);
    if tag.starts_with("sub:") {
        let path = tag.split(':').nth(1).unwrap_or("");
        return match nav(&tctx, path, cat) {
            None => "badpath".to_string(),
            Some(c) => match check_type(&ctxt, &tctx, obj, c) {
                None => "accept".to_string(),
                Some(e) => kind(e.val()).to_string(),
            },
        }
    }
    let v = match check_type(&ctxt, &tctx, obj, cat) {
        None => "accept".to_string(),
        Some(e) => kind(e.val()).to_string(),
    };
    if tag == "any" {
        v
    } else if tag == "ok" {
        format!("{} spec=conforms", v)
    } else if tag.starts_with("bad:") {
        format!("{} spec=violates", v)
    } else {
        "badcase".to_string()
    }
}

#[allow(dead_code)]
fn main() { run_lines(|t| run_case(t)) }
