// C03B (auxiliary family of C03): the real loader on a classic-layout file given as bytes only.
// case:  Y <hex of the file> <probes n.g+n.g+…|->        observation: rejected | panic | loaded root=… n.g=<obj> …
// The model side is coq/Model/LoaderBytes.v (`load_bytes`: the loader model applied to the abstraction that
// the byte-level parser MODELS compute from the bytes), theorem C03_bytes_classic (Properties/C03b.v).
#[allow(dead_code)]
#[path = "../loader_common.rs"]
mod loader_common;

fn main() {
    implrun::run_lines(|t| {
        if t.len() < 3 || t[0] != "Y" {
            return "badcase".to_string()
        }
        // same code path as the C03 runner (parse_data in-process), without an abstract description
        let l = ["L", "0", "1", "-", t[2], "-", t[1]];
        let out = loader_common::run_case(&l);
        match out.find(" items=") {
            Some(i) => out[.. i].to_string(),
            None => out,
        }
    })
}
