// C03: the document loader (pdf_traverse_xref.rs::parse_data) run in-process; see ../loader_common.rs
#[path = "../loader_common.rs"]
mod loader_common;

fn main() { loader_common::main_loader() }
