// C09: termination of the type checker — same cases and runner as C08 (mode "s" adds the step count).
#[path = "c08.rs"]
mod c08;

fn main() { implrun::run_lines(|t| c08::run_case(t)) }
