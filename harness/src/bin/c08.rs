// C08 / C09: the type checker.  case: mode octx tctx chk obj
//   mode "v": verdict;  mode "s": verdict + number of loop iterations (hook verif_steps), the
//             check is run twice from scratch and must give the same answer
//   octx  "num.gen=obj;…" | "-"        (implrun::pdfobj::read_ctx)
//   tctx  "name=chk;…" | "-"           named checks, registered in this order
//   chk   one-token text form of a check (harness/src/tcspec.rs, docs/TCSPEC.md)
//   obj   the root object
#[path = "../tcspec.rs"]
mod tcspec;

use implrun::*;
use parsley_rust::pdf_lib::pdf_obj::PDFObjContext;
use parsley_rust::pdf_lib::pdf_type_check::{
    check_type, verif_steps, verif_steps_reset, TypeCheckContext, TypeCheckError,
};
use std::rc::Rc;

fn kind(e: &TypeCheckError) -> &'static str {
    match e {
        TypeCheckError::RefNotFound(_) => "reject refnotfound",
        TypeCheckError::ArraySizeMismatch(_, _) => "reject size",
        TypeCheckError::MissingKey(_) => "reject missingkey",
        TypeCheckError::ForbiddenKey(_) => "reject forbiddenkey",
        TypeCheckError::TypeMismatch(_, _) => "reject type",
        TypeCheckError::ValueMismatch(_, _) => "reject value",
        // only "Unsupported disjunct type": the harness predicates answer ValueMismatch
        TypeCheckError::PredicateError(_) => "specerr pred",
        TypeCheckError::UnknownTypeCheck(_) => "specerr unknown",
    }
}

fn once(t: &[&str]) -> Option<(String, u64)> {
    let mut ctxt = PDFObjContext::new(50);
    pdfobj::read_ctx(t[1], &mut ctxt);
    let mut intern = tcspec::Interner::new();
    let mut tctx = TypeCheckContext::new();
    if !tcspec::read_tctx(t[2], &mut tctx, &mut intern) {
        return None
    }
    let chk = tcspec::read_chk(t[3], &mut intern);
    let obj = Rc::new(LocatedVal::new(pdfobj::read(t[4]), 0, 0));
    verif_steps_reset();
    let r = check_type(&ctxt, &tctx, obj, chk);
    let steps = verif_steps();
    let v = match r {
        None => "accept".to_string(),
        Some(e) => kind(e.val()).to_string(),
    };
    Some((v, steps))
}

pub fn run_case(t: &[&str]) -> String {
    if t.len() != 5 {
        return "badcase".to_string()
    }
    if t[0] == "p" {
        // printer self-test: read the specification, dump it again (predicates become opaque numbers)
        let mut intern = tcspec::Interner::new();
        let mut tctx = TypeCheckContext::new();
        if !tcspec::read_tctx(t[2], &mut tctx, &mut intern) {
            return "badcase".to_string()
        }
        let chk = tcspec::read_chk(t[3], &mut intern);
        let (a, b) = tcspec::Printer::new().dump(&tctx, &chk);
        return format!("{} {}", a, b)
    }
    match (t[0], once(t)) {
        (_, None) => "badcase".to_string(),
        ("v", Some((v, _))) => v,
        ("s", Some((v, steps))) => match once(t) {
            Some((v2, s2)) if v2 == v && s2 == steps => format!("{} steps={}", v, steps),
            _ => "nondeterministic".to_string(),
        },
        _ => "badcase".to_string(),
    }
}

#[allow(dead_code)]
fn main() { run_lines(|t| run_case(t)) }
