// C08 / C09: the type checker.  case: mode octx tctx chk obj
//   mode "v": verdict;  mode "s": verdict + number of loop iterations (hook verif_steps) + "stable".
//   Every case is run several times and must always give the same answer (verdict and iterations):
//   twice from scratch ("nondeterministic" otherwise), twice on the same TypeCheckContext, and on
//   contexts on which a DIFFERENT check with the SAME name as the root check (one that accepts
//   everything, one that rejects everything) was used as a top-level check before and after
//   ("unstable:<run>" otherwise).  Each case runs in its own thread under a watchdog: a check that
//   does not come back within WATCHDOG_MS is the observation "timeout".
//   octx  "num.gen=obj;…" | "-"        (implrun::pdfobj::read_ctx)
//   tctx  "name=chk;…" | "-"           named checks, registered in this order
//   chk   one-token text form of a check (harness/src/tcspec.rs, docs/TCSPEC.md)
//   obj   the root object
#[path = "../tcspec.rs"]
mod tcspec;

use implrun::*;
use parsley_rust::pdf_lib::pdf_obj::PDFObjContext;
use parsley_rust::pdf_lib::pdf_type_check::{
    check_type, verif_steps, verif_steps_reset, IndirectSpec, PDFType, Predicate, TypeCheck,
    TypeCheckContext, TypeCheckError,
};
use std::rc::Rc;

fn kind(e: &TypeCheckError) -> &'static str {
    match e {
        TypeCheckError::RefNotFound(_) => "reject refnotfound",
        TypeCheckError::ArraySizeMismatch(_, _) => "reject size",
        TypeCheckError::MissingKey(_) => "reject missingkey",
        TypeCheckError::ForbiddenKey(_) => "reject forbiddenkey",
        TypeCheckError::TypeMismatch(_, _) => "reject type",
        TypeCheckError::ValueMismatch(_, _) => "reject value",
        // only "Unsupported disjunct type": the harness predicates answer ValueMismatch
        TypeCheckError::PredicateError(_) => "specerr pred",
        TypeCheckError::UnknownTypeCheck(_) => "specerr unknown",
    }
}

const WATCHDOG_MS: u64 = 3000;

type Verdict = (String, u64);

struct Built {
    ctxt: PDFObjContext,
    tctx: TypeCheckContext,
    chk:  Rc<TypeCheck>,
}

fn build(t: &[String]) -> Option<Built> {
    let mut ctxt = PDFObjContext::new(50);
    pdfobj::read_ctx(&t[1], &mut ctxt);
    let mut intern = tcspec::Interner::new();
    let mut tctx = TypeCheckContext::new();
    if !tcspec::read_tctx(&t[2], &mut tctx, &mut intern) {
        return None
    }
    let chk = tcspec::read_chk(&t[3], &mut intern);
    Some(Built { ctxt, tctx, chk })
}

fn run_chk(b: &Built, chk: &Rc<TypeCheck>, objtext: &str) -> Verdict {
    let obj = Rc::new(LocatedVal::new(pdfobj::read(objtext), 0, 0));
    verif_steps_reset();
    let r = check_type(&b.ctxt, &b.tctx, obj, Rc::clone(chk));
    let steps = verif_steps();
    let v = match r {
        None => "accept".to_string(),
        Some(e) => kind(e.val()).to_string(),
    };
    (v, steps)
}

// the name under which the root check is known to the context
fn root_name(chktext: &str) -> String {
    match chktext.strip_prefix('@') {
        Some(n) => n.to_string(),
        None => String::new(),
    }
}

// a different check with the same name: Any, with or without a predicate that nothing satisfies.
// It is registered in a scratch context only (TypeCheck::new* always registers).
fn decoy(name: &str, reject: bool) -> Rc<TypeCheck> {
    let mut scratch = TypeCheckContext::new();
    let pred: Option<Rc<dyn Predicate>> =
        if reject { Some(Rc::new(tcspec::P(tcspec::Pr::Never))) } else { None };
    TypeCheck::new_all(&mut scratch, name, Rc::new(PDFType::Any), pred, IndirectSpec::Allowed)
}

// all the runs of one case; Err = what differed
fn all_runs(t: &[String]) -> Option<Result<Verdict, String>> {
    let b0 = build(t)?;
    let v0 = run_chk(&b0, &b0.chk, &t[4]);
    // from scratch
    let b1 = build(t)?;
    if run_chk(&b1, &b1.chk, &t[4]) != v0 {
        return Some(Err("nondeterministic".to_string()))
    }
    // again on the same context
    if run_chk(&b1, &b1.chk, &t[4]) != v0 {
        return Some(Err("unstable:again".to_string()))
    }
    // a different check with the same name used before and after on the same context
    let name = root_name(&t[3]);
    for (reject, tag) in [(false, "decoy-accept"), (true, "decoy-reject")] {
        let b = build(t)?;
        let d = decoy(&name, reject);
        let _ = run_chk(&b, &d, &t[4]);
        if run_chk(&b, &b.chk, &t[4]) != v0 {
            return Some(Err(format!("unstable:{}-before", tag)))
        }
        let _ = run_chk(&b, &d, &t[4]);
        if run_chk(&b, &b.chk, &t[4]) != v0 {
            return Some(Err(format!("unstable:{}-after", tag)))
        }
    }
    Some(Ok(v0))
}

fn answer(t: &[String]) -> String {
    if t[0] == "p" {
        // printer self-test: read the specification, dump it again (predicates become opaque numbers)
        let mut intern = tcspec::Interner::new();
        let mut tctx = TypeCheckContext::new();
        if !tcspec::read_tctx(&t[2], &mut tctx, &mut intern) {
            return "badcase".to_string()
        }
        let chk = tcspec::read_chk(&t[3], &mut intern);
        let (a, b) = tcspec::Printer::new().dump(&tctx, &chk);
        return format!("{} {}", a, b)
    }
    match (t[0].as_str(), all_runs(t)) {
        (_, None) => "badcase".to_string(),
        (_, Some(Err(what))) => what,
        ("v", Some(Ok((v, _)))) => v,
        ("s", Some(Ok((v, steps)))) => format!("{} steps={} stable", v, steps),
        _ => "badcase".to_string(),
    }
}

pub fn run_case(t: &[&str]) -> String {
    if t.len() != 5 {
        return "badcase".to_string()
    }
    // the case runs in a thread of its own; the values it builds (Rc) never leave it
    let owned: Vec<String> = t.iter().map(|x| x.to_string()).collect();
    let (tx, rx) = std::sync::mpsc::channel();
    let th = std::thread::Builder::new()
        .stack_size(256 << 20)
        .spawn(move || {
            let r = answer(&owned);
            let _ = tx.send(r);
        })
        .expect("spawn");
    match rx.recv_timeout(std::time::Duration::from_millis(WATCHDOG_MS)) {
        Ok(s) => {
            let _ = th.join();
            s
        },
        // the sender was dropped without an answer: the check panicked
        Err(std::sync::mpsc::RecvTimeoutError::Disconnected) => "panic".to_string(),
        // still running: the thread is abandoned (it ends with the process)
        Err(std::sync::mpsc::RecvTimeoutError::Timeout) => "timeout".to_string(),
    }
}

#[allow(dead_code)]
fn main() { run_lines(|t| run_case(t)) }
