// C17: a buffer view behaves like an independent copy of its window.
// case: <hex base> <chain> <keep|drop> <ops>
//   chain = "-" or comma-separated  view:<start>:<size> | viewfrom:<start>   (nested restrictions)
//   keep  = the parents stay alive (the view shares the Rc); drop = they are dropped first
//   ops   = "-" or comma-separated  name[:arg]  (numbers decimal, byte strings hex)
// The history is applied to the real view AND to a fresh ParseBuffer::new(copy of the window)
// (made shared by a dummy empty view iff the view is shared).  After every operation its result
// and get_cursor,size,remaining,peek,buf() are printed; a panic ends that history with "panic".
// Output:  V=<obs>;<obs>;… C=<obs>;…     or  E<i>:<kind> / P<i>  when chain step i fails.
use implrun::*;
use parsley_rust::pcore::parsebuffer::StreamBufferT;
use parsley_rust::pcore::transforms::{BufferTransformT, RestrictView, RestrictViewFrom};
use std::panic::{self, AssertUnwindSafe};

fn num(s: &str) -> usize { s.parse().unwrap() }

fn hx(s: &str) -> Vec<u8> {
    if s.is_empty() {
        Vec::new()
    } else {
        unhex(s)
    }
}

fn state(pb: &ParseBuffer) -> String {
    let c = pb.get_cursor();
    let s = pb.size();
    let r = pb.remaining();
    let p = match pb.peek() {
        Some(b) => format!("{:02x}", b),
        None => "n".to_string(),
    };
    let b = hex(pb.buf());
    format!("{},{},{},{},{}", c, s, r, p, b)
}

fn unit(r: Result<(), LocatedVal<ErrorKind>>) -> String {
    match r {
        Ok(()) => "ok".to_string(),
        Err(e) => format!("err:{}", ekind(e.val())),
    }
}
fn boolr(r: Result<bool, LocatedVal<ErrorKind>>) -> String {
    match r {
        Ok(true) => "t".to_string(),
        Ok(false) => "f".to_string(),
        Err(e) => format!("err:{}", ekind(e.val())),
    }
}
fn bytesr(r: Result<Vec<u8>, LocatedVal<ErrorKind>>) -> String {
    match r {
        Ok(v) => format!("ok:{}", hex(&v)),
        Err(e) => format!("err:{}", ekind(e.val())),
    }
}
fn numr(r: Result<usize, LocatedVal<ErrorKind>>) -> String {
    match r {
        Ok(v) => format!("ok:{}", v),
        Err(e) => format!("err:{}", ekind(e.val())),
    }
}
fn b(x: bool) -> String { (if x { "t" } else { "f" }).to_string() }

// one operation; None = not an operation of the op list
fn apply(pb: &mut ParseBuffer, op: &str) -> Option<String> {
    let f: Vec<&str> = op.split(':').collect();
    let a1 = if f.len() > 1 { f[1] } else { "" };
    Some(match f[0] {
        "set_cursor" => unit(pb.set_cursor(num(a1))),
        "incr" => unit(pb.incr_cursor()),
        "decr" => unit(pb.decr_cursor()),
        "check_cursor" => b(pb.check_cursor(num(a1))),
        "set_cursor_u" => {
            pb.set_cursor_unsafe(num(a1));
            "ok".to_string()
        },
        "incr_u" => {
            pb.incr_cursor_unsafe();
            "ok".to_string()
        },
        "decr_u" => {
            pb.decr_cursor_unsafe();
            "ok".to_string()
        },
        "check_prefix" => boolr(pb.check_prefix(&hx(a1))),
        "allowed" => bytesr(pb.parse_allowed_bytes(&hx(a1))),
        "until" => bytesr(pb.parse_bytes_until(&hx(a1))),
        "scan" => numr(pb.scan(&hx(a1))),
        "bscan" => numr(pb.backward_scan(&hx(a1))),
        "exact" => boolr(pb.exact(&hx(a1))),
        "extract" => bytesr(pb.extract(num(a1)).map(|s| s.to_vec())),
        "drop" => b(pb.drop(num(a1))),
        "append" => b(pb.append(&hx(a1))),
        _ => return None,
    })
}

fn history(pb: &mut ParseBuffer, ops: &[&str]) -> Option<String> {
    let mut out: Vec<String> = Vec::new();
    match panic::catch_unwind(AssertUnwindSafe(|| format!("ok/{}", state(pb)))) {
        Ok(s) => out.push(s),
        Err(_) => return Some("panic".to_string()),
    }
    for op in ops {
        let r = panic::catch_unwind(AssertUnwindSafe(|| {
            apply(pb, op).map(|r| format!("{}/{}", r, state(pb)))
        }));
        match r {
            Ok(Some(s)) => out.push(s),
            Ok(None) => return None,
            Err(_) => {
                out.push("panic".to_string());
                break
            },
        }
    }
    Some(out.join(";"))
}

fn items(s: &str) -> Vec<&str> {
    if s == "-" {
        Vec::new()
    } else {
        s.split(',').collect()
    }
}

fn main() {
    run_lines(|t| {
        if t.len() < 4 {
            return "badcase".to_string()
        }
        let base = unhex(t[0]);
        let chain = items(t[1]);
        let keep = t[2] == "keep";
        let ops = items(t[3]);
        // the view
        let mut parents: Vec<ParseBuffer> = Vec::new();
        let mut cur = ParseBuffer::new(base.clone());
        // the runner's own bookkeeping of the window on the plain vector
        let mut win: Option<(usize, usize)> = Some((0, base.len()));
        for (i, c) in chain.iter().enumerate() {
            let f: Vec<&str> = c.split(':').collect();
            let r = panic::catch_unwind(AssertUnwindSafe(|| match f[0] {
                "view" if f.len() == 3 => Some(RestrictView::new(num(f[1]), num(f[2])).transform(&cur)),
                "viewfrom" if f.len() == 2 => Some(RestrictViewFrom::new(num(f[1])).transform(&cur)),
                _ => None,
            }));
            match r {
                Err(_) => return format!("P{}", i),
                Ok(None) => return "badcase".to_string(),
                Ok(Some(Err(e))) => return format!("E{}:{}", i, ekind(e.val())),
                Ok(Some(Ok(v))) => {
                    parents.push(std::mem::replace(&mut cur, v));
                },
            }
            win = match (win, f[0]) {
                (Some((off, sz)), "view") => match num(f[1]).checked_add(num(f[2])) {
                    Some(e) if e <= sz => Some((off + num(f[1]), num(f[2]))),
                    _ => None,
                },
                (Some((off, sz)), _) => {
                    if num(f[1]) < sz {
                        Some((off + num(f[1]), sz - num(f[1])))
                    } else {
                        None
                    }
                },
                (None, _) => None,
            };
        }
        let shared = keep && !chain.is_empty();
        if !shared {
            parents.clear();
        }
        let v = match history(&mut cur, &ops) {
            Some(s) => s,
            None => return "badcase".to_string(),
        };
        // the independent copy
        let c = match win {
            None => "none".to_string(),
            Some((off, sz)) => {
                let mut copy = ParseBuffer::new(base[off .. off + sz].to_vec());
                let _holder = if shared {
                    Some(RestrictView::new(0, 0).transform(&copy).unwrap())
                } else {
                    None
                };
                match history(&mut copy, &ops) {
                    Some(s) => s,
                    None => return "badcase".to_string(),
                }
            },
        };
        drop(parents);
        format!("V={} C={}", v, c)
    })
}
