// C06: stream filters.
// case: t <FilterName> <parms|n> <hex data> [oracle tokens…]   one BufferTransformT::transform
//       s <S(D(…),hex)> [oracle tokens…]                        decode_stream on a stream object
// Oracle tokens (z:…) carry zlib's answer for the model; the implementation ignores them.
// Decoded bytes are printed in hex up to 64 bytes, else as #<len>.<adler32>.
use implrun::*;
use parsley_rust::pcore::transforms::BufferTransformT;
use parsley_rust::pdf_lib::pdf_filters::{ASCII85Decode, ASCIIHexDecode, FlateDecode};
use parsley_rust::pdf_lib::pdf_obj::{DictT, PDFObjT};
use parsley_rust::pdf_lib::pdf_streams::decode_stream;

fn adler32(v: &[u8]) -> u32 {
    let (mut a, mut b) = (1u32, 0u32);
    for x in v {
        a = (a + u32::from(*x)) % 65521;
        b = (b + a) % 65521;
    }
    (b << 16) | a
}

fn content(v: &[u8]) -> String {
    if v.len() <= 64 {
        hex(v)
    } else {
        format!("#{}.{}", v.len(), adler32(v))
    }
}

fn show_dict(d: &DictT) -> String {
    let mut out = String::from("D(");
    let mut first = true;
    for (k, v) in d.map().iter() {
        if !first {
            out.push(',');
        }
        first = false;
        out.push_str(&hex(k.as_slice()).replace('-', ""));
        out.push(':');
        pdfobj::show_into(v.val(), &mut out);
    }
    out.push(')');
    out
}

fn main() {
    run_lines(|t| match t[0] {
        "t" => {
            let parms = pdfobj::read(t[2]);
            let o = match &parms {
                PDFObjT::Dict(d) => Some(d),
                _ => None,
            };
            let pb = ParseBuffer::new(unhex(t[3]));
            let r = match t[1] {
                "FlateDecode" => FlateDecode::new(&o).transform(&pb),
                "ASCIIHexDecode" => ASCIIHexDecode::new(&o).transform(&pb),
                "ASCII85Decode" => ASCII85Decode::new(&o).transform(&pb),
                _ => return "badcase".to_string(),
            };
            match r {
                Ok(b) => format!("ok {}", content(b.buf())),
                Err(e) => format!("err {}", ekind(e.val())),
            }
        },
        "s" => {
            let o = pdfobj::read(t[1]);
            let s = match &o {
                PDFObjT::Stream(s) => s,
                _ => return "badcase".to_string(),
            };
            match decode_stream(s) {
                Ok(d) => format!("ok {} {}", show_dict(d.dict().val()), content(d.content())),
                Err(e) => format!("err {}", ekind(e.val())),
            }
        },
        _ => "badcase".to_string(),
    })
}
