// C20: RTPS packet reader.  case: hexdatagram
// answer: ok <locstart> <locend> <version> <vendor> <prefixhex> <n> {<id> <flags> <length> <kind> <payloadhex>}* eq|neq @<cursor>
//       | err <kind> @<cursor>
// The structs of rtps_lib keep their fields private and offer no accessors for most of them; they all
// derive Debug, so the fields are read from the derived Debug text.  That reading is then checked:
// the packet is rebuilt from the printed fields through the public constructors and compared with ==
// against the parsed packet ("eq"/"neq"), as the property's observe_at prescribes.
use implrun::*;
use parsley_rust::pcore::parsebuffer::{Location, ParsleyParser};
use parsley_rust::rtps_lib::rtps_packet::{Packet, PacketP};
use parsley_rust::rtps_lib::rtps_prim::{
    GuidPrefix, Header, ProtocolVersion, SubMessage, SubMessageHeader, VendorId,
};

// the decimal number following `key` in `s`
fn num_after(s: &str, key: &str) -> u64 {
    let i = s.find(key).expect("debug field") + key.len();
    let d: String = s[i ..].chars().take_while(|c| c.is_ascii_digit()).collect();
    d.parse().expect("debug number")
}

// the `[a, b, c]` list of small numbers following `key` in `s`
fn list_after(s: &str, key: &str) -> Vec<u8> {
    let i = s.find(key).expect("debug field") + key.len();
    let j = i + s[i ..].find(']').expect("debug list end");
    let body = &s[i .. j];
    if body.is_empty() {
        return Vec::new()
    }
    body.split(", ")
        .map(|x| x.parse::<u8>().expect("debug byte"))
        .collect()
}

fn main() {
    run_lines(|t| {
        let buf = unhex(t[0]);
        let mut pb = ParseBuffer::new(buf);
        let mut pp = PacketP;
        match pp.parse(&mut pb) {
            Err(e) => format!("err {} @{}", ekind(e.val()), pb.get_cursor()),
            Ok(p) => {
                let pk: &Packet = p.val();
                let hs = format!("{:?}", pk.hdr());
                let version = num_after(&hs, "ProtocolVersion { id: ") as u16;
                let vendor = num_after(&hs, "VendorId { id: ") as u16;
                let prefix = list_after(&hs, "GuidPrefix { id: [");
                let mut out = format!(
                    "ok {} {} {} {} {} {}",
                    p.loc_start(),
                    p.loc_end(),
                    version,
                    vendor,
                    hex(&prefix),
                    pk.msgs().len()
                );
                let mut rebuilt = Vec::new();
                for m in pk.msgs() {
                    let ms = format!("{:?}", m);
                    let id = num_after(&ms, "sub_msg_id: ") as u8;
                    let flags = num_after(&ms, "flags: ") as u8;
                    let length = num_after(&ms, "length: ") as u16;
                    let payload = list_after(&ms, "payload: [");
                    out.push_str(&format!(
                        " {} {} {} {:?} {}",
                        id,
                        flags,
                        length,
                        m.kind(),
                        hex(&payload)
                    ));
                    rebuilt.push(SubMessage::new(
                        SubMessageHeader::new(id, flags, length),
                        payload,
                    ));
                }
                let mut arr = [0u8; 12];
                let same = if prefix.len() == 12 {
                    arr.copy_from_slice(&prefix);
                    let h = Header::new(
                        ProtocolVersion::new(version),
                        VendorId::new(vendor),
                        GuidPrefix::new(arr),
                    );
                    Packet::new(h, rebuilt) == *pk
                } else {
                    false
                };
                out.push_str(if same { " eq" } else { " neq" });
                out.push_str(&format!(" @{}", pb.get_cursor()));
                out
            },
        }
    })
}
