// C01: the complete pipeline, observed the way the property's observe_at says: exit status of the REAL
// binary target/<profile>/pdf_printer (built from the repository without the `verif` feature) on a file.
// case: <family> <hex of the file> …        observation: accepted | rejected | panic | abort:<signal> |
//                                                          timeout | exit:<code>
use implrun::*;
use parsley_rust::pdf_lib::pdf_traverse_xref::{parse_data, VerifExit};
use std::io::Write;
use std::panic::{catch_unwind, AssertUnwindSafe};
use std::os::unix::process::ExitStatusExt;
use std::process::{Command, Stdio};
use std::time::{Duration, Instant};

// For a modelled case (family M) the object context given to the Coq pipeline model must be what the
// REAL loader produces from the rendered file: parse_data is run in-process (feature `verif`: a rejection
// unwinds) and every object of the description is compared with the loaded one.
fn ctx_mismatch(data: &[u8], ctx: &str, root: &str) -> Option<String> {
    let r = catch_unwind(AssertUnwindSafe(|| parse_data(std::path::Path::new("case.pdf"), data)));
    match r {
        Err(payload) => {
            if payload.downcast_ref::<VerifExit>().is_some() {
                Some("loader-rejected".to_string())
            } else {
                Some("loader-panic".to_string())
            }
        },
        Ok((_fi, c, rid)) => {
            if format!("{}.{}", rid.0, rid.1) != root {
                return Some(format!("root:{}.{}", rid.0, rid.1))
            }
            if ctx != "-" {
                for part in ctx.split(';') {
                    let mut it = part.splitn(2, '=');
                    let id = it.next().unwrap();
                    let exp = it.next().unwrap();
                    let mut idp = id.split('.');
                    let n: usize = idp.next().unwrap().parse().unwrap();
                    let g: usize = idp.next().unwrap().parse().unwrap();
                    match c.lookup_obj((n, g)) {
                        None => return Some(format!("missing:{}", id)),
                        Some(o) => {
                            if pdfobj::show(o.val()) != exp {
                                return Some(format!("differs:{}", id))
                            }
                        },
                    }
                }
            }
            None
        },
    }
}

fn main() {
    let prof = std::env::var("VERIF_PROFILE").unwrap_or_else(|_| "debug".to_string());
    let target = std::env::var("VERIF_TARGET").unwrap_or_else(|_| "/verif/.cache/target".to_string());
    let cache = std::env::var("VERIF_CACHE").unwrap_or_else(|_| "/verif/.cache".to_string());
    let bin = format!("{}/repo-bin/{}/pdf_printer", target, prof);
    let tmpdir = format!("{}/tmp", cache);
    std::fs::create_dir_all(&tmpdir).unwrap();
    let limit: u64 = std::env::var("VERIF_C01_TIMEOUT_MS")
        .ok()
        .and_then(|s| s.parse().ok())
        .unwrap_or(8000);
    let pid = std::process::id();
    let path = format!("{}/c01-{}-{}.pdf", tmpdir, prof, pid);
    let retries = std::sync::atomic::AtomicU32::new(0);
    run_lines(move |t| {
        let data = unhex(t[1]);
        if t[0] == "M" && t.len() >= 4 {
            if let Some(m) = ctx_mismatch(&data, t[2], t[3]) {
                return format!("ctxbad:{}", m)
            }
        }
        {
            let mut f = std::fs::File::create(&path).unwrap();
            f.write_all(&data).unwrap();
        }
        // run once under the watchdog; a timeout is confirmed by a second, much longer run (at most a few
        // times per runner process), so that a heavily loaded machine cannot turn a slow run into a "hang"
        let run_once = |limit_ms: u64| -> Result<Option<std::process::ExitStatus>, ()> {
            let mut child = match Command::new(&bin)
                .arg(&path)
                .stdin(Stdio::null())
                .stdout(Stdio::null())
                .stderr(Stdio::null())
                .spawn()
            {
                Ok(c) => c,
                Err(_) => return Err(()),
            };
            let t0 = Instant::now();
            loop {
                match child.try_wait() {
                    Ok(Some(st)) => return Ok(Some(st)),
                    Ok(None) => {
                        if t0.elapsed() > Duration::from_millis(limit_ms) {
                            let _ = child.kill();
                            let _ = child.wait();
                            return Ok(None)
                        }
                        std::thread::sleep(Duration::from_millis(if t0.elapsed().as_millis() < 50 { 1 } else { 10 }));
                    },
                    Err(_) => return Ok(None),
                }
            }
        };
        let mut status = match run_once(limit) {
            Ok(s) => s,
            Err(_) => return "nobinary".to_string(),
        };
        if status.is_none() && retries.fetch_add(1, std::sync::atomic::Ordering::SeqCst) < 4 {
            status = run_once(5 * limit).unwrap_or(None);
        }
        let _ = std::fs::remove_file(&path);
        match status {
            None => "timeout".to_string(),
            Some(st) => match (st.code(), st.signal()) {
                (Some(0), _) => "accepted".to_string(),
                (Some(1), _) => "rejected".to_string(),
                (Some(101), _) => "panic".to_string(),
                (Some(c), _) => format!("exit:{}", c),
                (None, Some(s)) => format!("abort:{}", s),
                _ => "abort:?".to_string(),
            },
        }
    })
}
