// C10 translator helper (not a case runner): prints the specification that
// catalog_type(&mut TypeCheckContext) constructs at run time, in the TCSPEC text form
// (docs/TCSPEC.md), for props/c10.py regen() to wrap into coq/gen/Shipped.v.
//
//   stdin : one probe object per line (implrun::pdfobj text form)
//   stdout: "root <chk>"
//           "tctx <name=chk;…>"           the named checks the root transitively mentions
//           "npreds <n>"
//           "pred <k> <fingerprint>"      one per distinct predicate (by pointer, numbered as in the
//                                         dumped text '{#k}'); fingerprint = one character per probe:
//                                         '1' satisfied, 'v' ValueMismatch, 'p' PredicateError,
//                                         'x' any other error, '!' the predicate panicked
// Predicates are trait objects and cannot be inspected; regen() recognises each one by this
// behaviour on the probe set and refuses anything it does not recognise.
#[path = "../tcspec.rs"]
mod tcspec;

use implrun::*;
use parsley_rust::pdf_lib::catalog::catalog_type;
use parsley_rust::pdf_lib::pdf_type_check::{TypeCheckContext, TypeCheckError};
use std::io::{self, BufRead};
use std::panic;
use std::rc::Rc;

fn main() {
    panic::set_hook(Box::new(|_| {}));
    let mut probes = Vec::new();
    for line in io::stdin().lock().lines() {
        let line = line.unwrap();
        if line.is_empty() {
            continue
        }
        probes.push(line);
    }
    let mut tctx = TypeCheckContext::new();
    let root = catalog_type(&mut tctx);
    let mut pr = tcspec::Printer::new();
    let (tctx_text, root_text) = pr.dump(&tctx, &root);
    println!("root {}", root_text);
    println!("tctx {}", tctx_text);
    println!("npreds {}", pr.preds.len());
    for (k, p) in pr.preds.iter().enumerate() {
        let mut fp = String::with_capacity(probes.len());
        for t in &probes {
            let p = Rc::clone(p);
            let t = t.clone();
            let r = panic::catch_unwind(panic::AssertUnwindSafe(move || {
                let obj = Rc::new(LocatedVal::new(pdfobj::read(&t), 0, 0));
                match p.check(&obj) {
                    None => '1',
                    Some(e) => match e.val() {
                        TypeCheckError::ValueMismatch(_, _) => 'v',
                        TypeCheckError::PredicateError(_) => 'p',
                        _ => 'x',
                    },
                }
            }));
            fp.push(r.unwrap_or('!'));
        }
        println!("pred {} {}", k, fp);
    }
}
