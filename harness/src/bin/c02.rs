// C02: every spelling of a PDF object parses to exactly that object.
// case:  obj <max_depth> <pre_entered> <hexbuf> [meta tokens used by the oracle only]
//   ctxt = PDFObjContext::new(max_depth), enter_obj() called <pre_entered> times, then
//   parse_pdf_obj(ctxt, buf) on the whole buffer from cursor 0.
// observation:  ok <obj> <loc_start> <loc_end> @<cursor> d<ctxt.depth()>
//               err <kind> @<cursor> d<ctxt.depth()>
use implrun::*;
use parsley_rust::pcore::parsebuffer::Location;
use parsley_rust::pdf_lib::pdf_obj::{parse_pdf_obj, PDFObjContext};

pub fn run_obj(t: &[&str]) -> String {
    if t.len() < 4 {
        return "badcase".to_string()
    }
    let d: usize = match t[1].parse() {
        Ok(d) => d,
        Err(_) => return "badcase".to_string(),
    };
    let k: usize = match t[2].parse() {
        Ok(k) => k,
        Err(_) => return "badcase".to_string(),
    };
    let buf = unhex(t[3]);
    let mut ctxt = PDFObjContext::new(d);
    for _ in 0 .. k {
        if !ctxt.enter_obj() {
            return "badcase".to_string()
        }
    }
    let mut pb = ParseBuffer::new(buf);
    match parse_pdf_obj(&mut ctxt, &mut pb) {
        Ok(o) => format!(
            "ok {} {} {} @{} d{}",
            pdfobj::show(o.val()),
            o.loc_start(),
            o.loc_end(),
            pb.get_cursor(),
            ctxt.depth()
        ),
        Err(e) => format!(
            "err {} @{} d{}",
            ekind(e.val()),
            pb.get_cursor(),
            ctxt.depth()
        ),
    }
}

fn main() {
    run_lines(|t| match t[0] {
        "obj" => run_obj(t),
        _ => "badcase".to_string(),
    })
}
