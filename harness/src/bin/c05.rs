// C05: stream data is framed exactly by its declared length.
// case:  ind <max_depth> <ctx> <hexbuf> [meta tokens used by the oracle only]
//   ctxt = PDFObjContext::new(max_depth) with the objects of <ctx> ("num.gen=obj;…" or "-")
//   registered; parse_pdf_indirect_obj(ctxt, buf) on the whole buffer from cursor 0.
// observation:
//   ok <num>.<gen> <obj> <loc_start> <loc_end> <obj_start> <obj_end> <stream start()|-> <stream size()|-> @<cursor> d<depth>
//   err <kind> @<cursor> d<depth>
use implrun::*;
use parsley_rust::pcore::parsebuffer::Location;
use parsley_rust::pdf_lib::pdf_obj::{parse_pdf_indirect_obj, PDFObjContext, PDFObjT};

fn main() {
    run_lines(|t| {
        if t[0] != "ind" || t.len() < 4 {
            return "badcase".to_string()
        }
        let d: usize = match t[1].parse() {
            Ok(d) => d,
            Err(_) => return "badcase".to_string(),
        };
        let mut ctxt = PDFObjContext::new(d);
        pdfobj::read_ctx(t[2], &mut ctxt);
        let mut pb = ParseBuffer::new(unhex(t[3]));
        match parse_pdf_indirect_obj(&mut ctxt, &mut pb) {
            Ok(i) => {
                let o = i.val().obj();
                let (ss, sz) = match o.val() {
                    PDFObjT::Stream(s) => (
                        s.stream().val().start().to_string(),
                        s.stream().val().size().to_string(),
                    ),
                    _ => ("-".to_string(), "-".to_string()),
                };
                format!(
                    "ok {}.{} {} {} {} {} {} {} {} @{} d{}",
                    i.val().num(),
                    i.val().gen(),
                    pdfobj::show(o.val()),
                    i.loc_start(),
                    i.loc_end(),
                    o.loc_start(),
                    o.loc_end(),
                    ss,
                    sz,
                    pb.get_cursor(),
                    ctxt.depth()
                )
            },
            Err(e) => format!(
                "err {} @{} d{}",
                ekind(e.val()),
                pb.get_cursor(),
                ctxt.depth()
            ),
        }
    })
}
