// C07: predictor reversal through the real FlateDecode.
// case: <parms> <hex rows>     parms = D(…) dictionary token or `n` (no /DecodeParms)
// The rows (already predicted, i.e. what the inflater must hand to the predictor stage) are
// zlib-compressed here and given to FlateDecode::transform; the observation is the result.
use flate2::write::ZlibEncoder;
use flate2::Compression;
use implrun::*;
use parsley_rust::pcore::transforms::BufferTransformT;
use parsley_rust::pdf_lib::pdf_filters::FlateDecode;
use parsley_rust::pdf_lib::pdf_obj::PDFObjT;
use std::io::Write;

fn main() {
    run_lines(|t| {
        let parms = pdfobj::read(t[0]);
        let rows = unhex(t[1]);
        let mut enc = ZlibEncoder::new(Vec::new(), Compression::default());
        enc.write_all(&rows).unwrap();
        let z = enc.finish().unwrap();
        let pb = ParseBuffer::new(z);
        let r = match &parms {
            PDFObjT::Dict(d) => {
                let o = Some(d);
                let mut f = FlateDecode::new(&o);
                f.transform(&pb)
            },
            PDFObjT::Null(_) => {
                let o = None;
                let mut f = FlateDecode::new(&o);
                f.transform(&pb)
            },
            _ => return "badcase".to_string(),
        };
        match r {
            Ok(b) => format!("ok {}", hex(b.buf())),
            Err(e) => format!("err {}", ekind(e.val())),
        }
    })
}
