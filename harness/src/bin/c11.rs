// C11: page DOM construction (src/pdf_lib/pdf_page_dom.rs to_page_dom).
// case: <ctx> <rootnum>.<rootgen>      ctx = "num.gen=obj;num.gen=obj" (implrun::pdfobj::read_ctx)
//
// observation:
//   ok root=<res> [<num>.<gen>=N/<res>/<kids> | <num>.<gen>=L/<res>/<contents>]…
//      root=  the resources of the root page-tree node (RootPageTreeNode has no accessors for count/kids);
//      then the entries of dom.pages() in its iteration order (BTreeMap<ObjectId,_>: sorted by id);
//      <res>  = "~" (a node without resources in scope) | "-" (no fonts) |
//               <hexname>:<hexbasefont>:<enc>:<d|->:e=<t|f|u>,…   in BTreeMap order of the font-resource names
//               (<enc>: - none, R MacRoman, E MacExpert, W WinAnsi, U<hex> unknown name, D dictionary;
//                d = a font descriptor is attached; e = FontDictionary::is_embedded() True/False/Unknown)
//      <kids> = "-" | <num>.<gen>,…     <contents> = "-" | <hex content of stream>,… in Page::contents() order
//   err <PageDOMError variant>[:<num>.<gen> | :<hex>]
//   noroot                                 the root id is not defined in the context
//   panic | abort | timeout | exit:<code>  (see below)
//
// Isolation.  The library recursed without bound on looping reference chains (finding C11-10: stack
// overflow in debug builds, endless loop in release builds), neither of which catch_unwind can
// observe.  So the process that reads the case lines (the *supervisor*) never runs a case itself: it
// re-executes this binary as a *worker* (`c11 --worker`), hands it one case at a time and waits at most
// WATCHDOG for the answer.  The worker evaluates cases on a thread with a fixed STACK-byte stack (the
// driver starts runners under `ulimit -s unlimited`, which would let the main thread eat all memory
// instead of overflowing; a spawned thread's stack is bounded by what we ask for): a stack overflow
// kills the worker with SIGABRT/SIGSEGV -> observation `abort`; no answer within WATCHDOG -> the worker
// is killed -> `timeout`; the supervisor starts a fresh worker and goes on with the next case.
// The library prints diagnostics with println! on stdout (to_page_kids): the worker therefore marks its
// own answer lines with a leading 0x01 byte and the supervisor ignores every other line.
use implrun::pdfobj::read_ctx;
use parsley_rust::pcore::parsebuffer::LocatedVal;
use parsley_rust::pdf_lib::pdf_obj::{ObjectId, PDFObjContext, PDFObjT};
use parsley_rust::pdf_lib::pdf_page_dom::{
    to_page_dom, FeaturePresence, FontEncoding, PageDOMError, PageKid, Resources,
};
use std::io::{self, BufRead, BufReader, Write};
use std::process::{Child, ChildStdin, Command, Stdio};
use std::rc::Rc;
use std::sync::mpsc::{channel, Receiver, RecvTimeoutError};
use std::time::Duration;

const WATCHDOG: Duration = Duration::from_millis(3000);
const STACK: usize = 8 * 1024 * 1024;

fn hexs(v: &[u8]) -> String {
    if v.is_empty() {
        return "-".to_string()
    }
    let mut s = String::with_capacity(v.len() * 2);
    for b in v {
        s.push_str(&format!("{:02x}", b));
    }
    s
}

fn hex0(v: &[u8]) -> String {
    let mut s = String::with_capacity(v.len() * 2);
    for b in v {
        s.push_str(&format!("{:02x}", b));
    }
    s
}

fn show_id(id: &ObjectId) -> String { format!("{}.{}", id.0, id.1) }

fn show_ids(v: &[ObjectId]) -> String {
    if v.is_empty() {
        return "-".to_string()
    }
    v.iter().map(show_id).collect::<Vec<_>>().join(",")
}

fn show_res(r: &Resources) -> String {
    if r.fonts().is_empty() {
        return "-".to_string()
    }
    let mut parts = Vec::new();
    for (k, fd) in r.fonts().iter() {
        let enc = match fd.encoding() {
            None => "-".to_string(),
            Some(FontEncoding::MacRoman) => "R".to_string(),
            Some(FontEncoding::MacExpert) => "E".to_string(),
            Some(FontEncoding::WinAnsi) => "W".to_string(),
            Some(FontEncoding::Unknown(s)) => format!("U{}", hex0(s.as_bytes())),
            Some(FontEncoding::Dict(_)) => "D".to_string(),
        };
        // the descriptor field is private; is_symbolic() is Unknown exactly when there is none
        let has_descr = fd.is_symbolic() != FeaturePresence::Unknown;
        // FontDictionary::is_embedded(): what pdf_printer's file_extract_text rejects a page on
        let emb = match fd.is_embedded() {
            FeaturePresence::True => "t",
            FeaturePresence::False => "f",
            FeaturePresence::Unknown => "u",
        };
        parts.push(format!(
            "{}:{}:{}:{}:e={}",
            hex0(k.as_slice()),
            hex0(fd.basefont()),
            enc,
            if has_descr { "d" } else { "-" },
            emb
        ));
    }
    parts.join(",")
}

fn show_optres(r: &Option<Rc<Resources>>) -> String {
    match r {
        None => "~".to_string(),
        Some(r) => show_res(r),
    }
}

fn show_contents(v: &[Rc<LocatedVal<PDFObjT>>]) -> String {
    if v.is_empty() {
        return "-".to_string()
    }
    v.iter()
        .map(|c| match c.val() {
            PDFObjT::Stream(s) => hexs(s.content()),
            _ => "?".to_string(),
        })
        .collect::<Vec<_>>()
        .join(",")
}

fn show_err(e: &PageDOMError) -> String {
    use PageDOMError::*;
    match e {
        CatalogConversionBadCatalog => "CatalogConversionBadCatalog".into(),
        CatalogConversionNoPages => "CatalogConversionNoPages".into(),
        CatalogConversionPagesIdNotFound => "CatalogConversionPagesIdNotFound".into(),
        PageTreeNodeNotDict => "PageTreeNodeNotDict".into(),
        PageTreeNodeUnexpectedType(t) => format!("PageTreeNodeUnexpectedType:{}", hexs(t)),
        PageTreeNodeConversionNoCount => "PageTreeNodeConversionNoCount".into(),
        PageTreeNodeConversionNoKids => "PageTreeNodeConversionNoKids".into(),
        PageTreeNodeConversionNoParent => "PageTreeNodeConversionNoParent".into(),
        PageTreeNodeConversionBadKids => "PageTreeNodeConversionBadKids".into(),
        PageTreeNodeConversionBadRoot => "PageTreeNodeConversionBadRoot".into(),
        PageTreeNodeConversionBadNode => "PageTreeNodeConversionBadNode".into(),
        PageNodeConversionNoParent => "PageNodeConversionNoParent".into(),
        PageNodeConversionNoContents => "PageNodeConversionNoContents".into(),
        PageNodeConversionBadContents => "PageNodeConversionBadContents".into(),
        PageNodeConversionBadPage => "PageNodeConversionBadPage".into(),
        NoObjectType => "NoObjectType".into(),
        ResourceFontValueUnknownObjectId(id) => {
            format!("ResourceFontValueUnknownObjectId:{}", show_id(id))
        },
        ResourceFontValueNotDict => "ResourceFontValueNotDict".into(),
        FontResourceNotDict => "FontResourceNotDict".into(),
        FontDescrConversionUnknownObjectId(id) => {
            format!("FontDescrConversionUnknownObjectId:{}", show_id(id))
        },
        FontDescrConversionNoFontName => "FontDescrConversionNoFontName".into(),
        FontDescrConversionNoFlags => "FontDescrConversionNoFlags".into(),
        FontDescrConversionBadFontDescr => "FontDescrConversionBadFontDescr".into(),
        FontDictConversionNoBaseFont => "FontDictConversionNoBaseFont".into(),
        FontDictConversionNoSubtype => "FontDictConversionNoSubtype".into(),
        FontDictConversionBadFontDescriptor => "FontDictConversionBadFontDescriptor".into(),
        FontDictConversionNoEncoding => "FontDictConversionNoEncoding".into(),
        FontDictConversionUnknownEncoding => "FontDictConversionUnknownEncoding".into(),
        FontDictConversionBadEncoding => "FontDictConversionBadEncoding".into(),
        FontDictConversionBadFontDictionary => "FontDictConversionBadFontDictionary".into(),
        FontDictUnresolvedId(id) => format!("FontDictUnresolvedId:{}", show_id(id)),
        #[allow(unreachable_patterns)]
        other => {
            // variants added by later repairs: name, then an id payload if there is one
            let s = format!("{:?}", other);
            match s.find('(') {
                None => s,
                Some(i) => {
                    let name = &s[.. i];
                    let nums: Vec<&str> = s[i ..]
                        .split(|c: char| !c.is_ascii_digit())
                        .filter(|x| !x.is_empty())
                        .collect();
                    format!("{}:{}", name, nums.join("."))
                },
            }
        },
    }
}

fn run_case(t: &[&str]) -> String {
    if t.len() < 2 {
        return "badcase".to_string()
    }
    let mut ctxt = PDFObjContext::new(50);
    read_ctx(t[0], &mut ctxt);
    let mut idp = t[1].split('.');
    let n: usize = idp.next().unwrap().parse().unwrap();
    let g: usize = idp.next().unwrap().parse().unwrap();
    let root = match ctxt.lookup_obj((n, g)) {
        Some(o) => Rc::clone(o),
        None => return "noroot".to_string(),
    };
    match to_page_dom(&ctxt, &root) {
        Err(e) => format!("err {}", show_err(e.val())),
        Ok((cat, dom)) => {
            let rp = cat.root_page();
            let mut out = format!("ok root={}", show_optres(rp.resources()));
            for (id, p) in dom.pages().iter() {
                match p {
                    PageKid::Node(nd) => out.push_str(&format!(
                        " {}=N/{}/{}",
                        show_id(id),
                        show_optres(nd.resources()),
                        show_ids(nd.kids())
                    )),
                    PageKid::Leaf(l) => out.push_str(&format!(
                        " {}=L/{}/{}",
                        show_id(id),
                        show_res(l.resources()),
                        show_contents(l.contents())
                    )),
                }
            }
            out
        },
    }
}

// ---------------------------------------------------------------- worker
fn worker() {
    std::panic::set_hook(Box::new(|_| {}));
    let h = std::thread::Builder::new()
        .stack_size(STACK)
        .spawn(|| {
            let stdin = io::stdin();
            for line in stdin.lock().lines() {
                let line = match line {
                    Ok(l) => l,
                    Err(_) => break,
                };
                let toks: Vec<&str> = line.split(' ').collect();
                let r = std::panic::catch_unwind(|| run_case(&toks));
                let s = match r {
                    Ok(s) => s,
                    Err(_) => "panic".to_string(),
                };
                let out = io::stdout();
                let mut out = out.lock();
                let _ = writeln!(out, "\x01{}", s);
                let _ = out.flush();
            }
        })
        .unwrap();
    let _ = h.join();
}

// ---------------------------------------------------------------- supervisor
struct Worker {
    child: Child,
    stdin: ChildStdin,
    rx:    Receiver<String>,
}

fn spawn_worker() -> Worker {
    let exe = std::env::current_exe().unwrap();
    let mut child = Command::new(exe)
        .arg("--worker")
        .stdin(Stdio::piped())
        .stdout(Stdio::piped())
        .stderr(Stdio::null())
        .spawn()
        .unwrap();
    let stdin = child.stdin.take().unwrap();
    let stdout = child.stdout.take().unwrap();
    let (tx, rx) = channel();
    std::thread::spawn(move || {
        let rd = BufReader::new(stdout);
        for line in rd.split(b'\n') {
            match line {
                Ok(l) => {
                    if l.first() == Some(&1u8) {
                        let s = String::from_utf8_lossy(&l[1 ..]).to_string();
                        if tx.send(s).is_err() {
                            break
                        }
                    }
                },
                Err(_) => break,
            }
        }
    });
    Worker { child, stdin, rx }
}

fn died(w: &mut Worker) -> String {
    use std::os::unix::process::ExitStatusExt;
    match w.child.wait() {
        Ok(st) => match (st.signal(), st.code()) {
            (Some(_), _) => "abort".to_string(),
            (None, Some(c)) => format!("exit:{}", c),
            _ => "abort".to_string(),
        },
        Err(_) => "abort".to_string(),
    }
}

fn supervisor() {
    let stdin = io::stdin();
    let stdout = io::stdout();
    let mut out = io::BufWriter::new(stdout.lock());
    let mut w: Option<Worker> = None;
    for line in stdin.lock().lines() {
        let line = line.unwrap();
        if line.is_empty() || line.starts_with('#') {
            writeln!(out).unwrap();
            continue
        }
        if w.is_none() {
            w = Some(spawn_worker());
        }
        let obs = {
            let wk = w.as_mut().unwrap();
            let sent = writeln!(wk.stdin, "{}", line).and_then(|_| wk.stdin.flush());
            if sent.is_err() {
                let o = died(wk);
                w = None;
                o
            } else {
                match wk.rx.recv_timeout(WATCHDOG) {
                    Ok(s) => s,
                    Err(RecvTimeoutError::Timeout) => {
                        let _ = wk.child.kill();
                        let _ = wk.child.wait();
                        w = None;
                        "timeout".to_string()
                    },
                    Err(RecvTimeoutError::Disconnected) => {
                        let o = died(wk);
                        w = None;
                        o
                    },
                }
            }
        };
        writeln!(out, "{}", obs).unwrap();
    }
    out.flush().unwrap();
    if let Some(mut wk) = w {
        drop(wk.stdin);
        let _ = wk.child.wait();
    }
}

fn main() {
    if std::env::args().any(|a| a == "--worker") {
        worker()
    } else {
        supervisor()
    }
}
