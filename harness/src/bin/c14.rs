// C14: object streams.
//   os <max_depth> <enc 0|1> <ctx> <S(D(…),hexcontent)> <decoded> <queries>
// ObjStreamP::new(&mut ctxt, &stream).parse(buffer over the stream content, cursor 0), on a fresh
// context of the given depth pre-loaded with <ctx>; afterwards ctxt.lookup_obj for every queried id.
// The 6th token (decoder output) is for the model only; the implementation decodes itself.
use implrun::*;
use parsley_rust::pcore::parsebuffer::{Location, ParsleyParser};
use parsley_rust::pdf_lib::pdf_obj::{PDFObjContext, PDFObjT};
use parsley_rust::pdf_lib::pdf_streams::ObjStreamP;

fn main() {
    run_lines(|t| {
        if t[0] != "os" {
            return "badcase".to_string()
        }
        let depth: usize = t[1].parse().unwrap();
        let enc = t[2] == "1";
        let mut ctxt = PDFObjContext::new(depth);
        pdfobj::read_ctx(t[3], &mut ctxt);
        if enc {
            ctxt.set_encrypted();
        }
        let o = pdfobj::read(t[4]);
        let s = match o {
            PDFObjT::Stream(s) => s,
            _ => return "badcase".to_string(),
        };
        let mut pb = ParseBuffer::new(Vec::from(s.content()));
        let res = {
            let mut p = ObjStreamP::new(&mut ctxt, &s);
            match p.parse(&mut pb) {
                Ok(x) => {
                    let ents: Vec<String> = x
                        .val()
                        .objs()
                        .iter()
                        .map(|i| {
                            format!(
                                "{}.{}={}@{}-{}",
                                i.val().num(),
                                i.val().gen(),
                                pdfobj::show(i.val().obj().val()),
                                i.loc_start(),
                                i.loc_end()
                            )
                        })
                        .collect();
                    format!("ok {}", if ents.is_empty() { "-".to_string() } else { ents.join(",") })
                },
                Err(e) => format!("err {}", ekind(e.val())),
            }
        };
        let q = if t[6] == "-" {
            "-".to_string()
        } else {
            t[6].split(',')
                .map(|id| {
                    let mut it = id.split('.');
                    let n: usize = it.next().unwrap().parse().unwrap();
                    let g: usize = it.next().unwrap().parse().unwrap();
                    match ctxt.lookup_obj((n, g)) {
                        Some(o) => format!("{}={}", id, pdfobj::show(o.val())),
                        None => format!("{}=-", id),
                    }
                })
                .collect::<Vec<String>>()
                .join(";")
        };
        format!("{} | {}", res, q)
    })
}
