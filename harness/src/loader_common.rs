// Shared by c03.rs and c04.rs (included with #[path]): runs the real loader
// parsley_rust::pdf_lib::pdf_traverse_xref::parse_data in-process on the rendered file of a case.
//
// case:  L <flen> <magic> <startxref|-> <probes> <spec> <hex of the file> item*
// Only <probes> (ids to look up, `num.gen+num.gen+…` or `-`) and <hex> are used here; the other
// tokens are the abstract description read by the Coq model (coq/Model/Loader.v) and the
// specification-level expectation read by the python oracle.
//
// observation:  rejected                      an exit_log! (feature `verif`: unwinds with VerifExit)
//               panic                         any other unwinding
//               loaded root=n.g n.g=<obj> …   for every probe bound in the returned PDFObjContext, in
//                                             probe order; xref-stream / object-stream containers
//                                             (bookkeeping objects of the layout) print as *xref / *objstm
use implrun::*;
use parsley_rust::pdf_lib::pdf_obj::PDFObjT;
use parsley_rust::pdf_lib::pdf_traverse_xref::{parse_data, VerifExit};
use std::panic::{catch_unwind, AssertUnwindSafe};
use std::path::Path;

fn show_val(o: &PDFObjT) -> String {
    if let PDFObjT::Stream(s) = o {
        match s.dict().val().get_name(b"Type") {
            Some(t) if t == b"XRef" => return "*xref".to_string(),
            Some(t) if t == b"ObjStm" => return "*objstm".to_string(),
            _ => (),
        }
    }
    pdfobj::show(o)
}

pub fn run_case(t: &[&str]) -> String {
    if t.len() < 7 || t[0] != "L" {
        return "badcase".to_string()
    }
    let mut probes: Vec<(usize, usize)> = Vec::new();
    if t[4] != "-" {
        for p in t[4].split('+') {
            let mut it = p.split('.');
            let n: usize = it.next().unwrap().parse().unwrap();
            let g: usize = it.next().unwrap().parse().unwrap();
            probes.push((n, g));
        }
    }
    let data = unhex(t[6]);
    let path = Path::new("case.pdf");
    let r = catch_unwind(AssertUnwindSafe(|| parse_data(path, &data)));
    match r {
        Err(payload) => {
            if payload.downcast_ref::<VerifExit>().is_some() {
                "rejected".to_string()
            } else {
                "panic".to_string()
            }
        },
        Ok((_fi, ctxt, root)) => {
            let mut out = format!("loaded root={}.{}", root.0, root.1);
            for id in probes {
                if let Some(o) = ctxt.lookup_obj(id) {
                    out.push_str(&format!(" {}.{}={}", id.0, id.1, show_val(o.val())));
                }
            }
            out
        },
    }
}

pub fn main_loader() { run_lines(run_case) }
