// Shared by c03.rs and c04.rs (included with #[path]): runs the real loader
// parsley_rust::pdf_lib::pdf_traverse_xref::parse_data in-process on the rendered file of a case, and
// VALIDATES the abstract description of the file (the item tokens read by the Coq model,
// coq/Model/Loader.v) against the real byte-level parsers applied to the file bytes.
//
// case:  L <flen> <magic> <startxref|-> <probes> <spec> <hex of the file> item*
//   <probes>  ids to look up, `num.gen+num.gen+…` or `-`
//   <spec>    the specification-level expectation, read by the python oracle only
//   item      X;off;next;ents;root;prev;xrefstm | T;off;next;num.gen;ents;root;prev | O;off;next;num.gen;objtext
//             | M;off;next;num.gen;clen;lenref;num=objtext+… | G;off;next          (see coq/Model/Loader.v)
//
// observation:  <outcome> items=ok | <outcome> items=bad:<item index>:<what differs>
//   outcome = rejected                      an exit_log! (feature `verif`: unwinds with VerifExit)
//             panic                         any other unwinding
//             loaded root=n.g n.g=<obj> …   for every probe bound in the returned PDFObjContext, in probe order;
//                                           xref-stream / object-stream containers print as *xref / *objstm
//
// Validation (every item in a PDFObjContext of its own, so that it does not depend on load order):
//   header fields  flen = length of the view that starts at `%PDF-`; magic; startxref = what the two backward
//                  scans + StartXrefP of parse_data yield
//   X   XrefSectP at off: the entries; then scan("trailer") + TrailerP: /Root, /Prev, /XRefStm (or no trailer)
//   T   IndirectP at off: a stream object with that id, /Length direct; XrefStreamP on its content: the entries,
//       /Root, /Prev
//   O   IndirectP at off: that id and canonical value; when /Length is a reference: InsufficientContext in an
//       empty context, success once the holder (an integer = payload length) is defined
//   M   IndirectP at off (same treatment of a referenced /Length, holder = clen): a stream of clen bytes;
//       ObjStreamP on its content: the members
//   G   neither XrefSectP nor IndirectP succeeds at off
//   O/T/M: white space / comments lead from the end of the object to offset `next`
//   every offset that the description mentions (entries, /Prev, /XRefStm, startxref) and that is inside the
//   file but not the offset of an item is validated as G
use implrun::*;
use parsley_rust::pcore::parsebuffer::ParsleyParser;
use parsley_rust::pcore::transforms::{BufferTransformT, RestrictView};
use parsley_rust::pdf_lib::pdf_file::{StartXrefP, TrailerP, XrefSectP};
use parsley_rust::pdf_lib::pdf_obj::{IndirectP, PDFObjContext, PDFObjT};
use parsley_rust::pdf_lib::pdf_prim::WhitespaceEOL;
use parsley_rust::pdf_lib::pdf_streams::{ObjStreamP, XrefEntStatus, XrefEntT, XrefStreamP};
use parsley_rust::pdf_lib::pdf_traverse_xref::{parse_data, VerifExit};
use std::collections::BTreeSet;
use std::panic::{catch_unwind, AssertUnwindSafe};
use std::path::Path;

fn show_val(o: &PDFObjT) -> String {
    if let PDFObjT::Stream(s) = o {
        match s.dict().val().get_name(b"Type") {
            Some(t) if t == b"XRef" => return "*xref".to_string(),
            Some(t) if t == b"ObjStm" => return "*objstm".to_string(),
            _ => (),
        }
    }
    pdfobj::show(o)
}

fn find_sub(h: &[u8], n: &[u8]) -> Option<usize> { h.windows(n.len()).position(|w| w == n) }

fn opt_usize(o: Option<usize>) -> String {
    match o {
        Some(v) => v.to_string(),
        None => "-".to_string(),
    }
}

fn ents_text(ents: &[LocatedVal<XrefEntT>]) -> String {
    if ents.is_empty() {
        return "-".to_string()
    }
    let v: Vec<String> = ents
        .iter()
        .map(|e| {
            let e = e.val();
            match e.status() {
                XrefEntStatus::Free { next } => format!("{}.{}.f.{}", e.obj(), e.gen(), next),
                XrefEntStatus::InUse { file_ofs } => format!("{}.{}.n.{}", e.obj(), e.gen(), file_ofs),
                XrefEntStatus::InStream {
                    stream_obj,
                    obj_index,
                } => format!("{}.{}.s.{}.{}", e.obj(), e.gen(), stream_obj, obj_index),
            }
        })
        .collect();
    v.join("+")
}

// offsets mentioned by an entry list text
fn ent_offsets(txt: &str, out: &mut BTreeSet<usize>) {
    if txt == "-" {
        return
    }
    for e in txt.split('+') {
        let p: Vec<&str> = e.split('.').collect();
        if p.len() >= 4 && p[2] == "n" {
            if let Ok(o) = p[3].parse::<usize>() {
                out.insert(o);
            }
        }
    }
}

struct View {
    body: Vec<u8>,
}

impl View {
    fn at(&self, off: usize) -> Option<ParseBuffer> {
        let mut pb = ParseBuffer::new(self.body.clone());
        if pb.set_cursor(off).is_err() {
            return None
        }
        Some(pb)
    }

    // "garbage": no xref section and no indirect object parse at `off`
    fn is_garbage(&self, off: usize) -> Result<(), String> {
        match self.at(off) {
            None => Ok(()),
            Some(mut pb) => {
                if XrefSectP.parse(&mut pb).is_ok() {
                    return Err("an xref section parses here".to_string())
                }
                let mut pb = self.at(off).unwrap();
                let mut ctxt = PDFObjContext::new(50);
                match IndirectP::new(&mut ctxt).parse(&mut pb) {
                    Ok(_) => Err("an indirect object parses here".to_string()),
                    Err(e) => {
                        if let ErrorKind::InsufficientContext = e.val() {
                            Err("an indirect object with a referenced /Length starts here".to_string())
                        } else {
                            Ok(())
                        }
                    },
                }
            },
        }
    }

    // white space and comments lead from `from` to `next`
    fn leads_to(&self, from: usize, next: usize) -> Result<(), String> {
        let mut pb = match self.at(from) {
            Some(pb) => pb,
            None => return Err("end cursor outside the file".to_string()),
        };
        let _ = WhitespaceEOL::new(true).parse(&mut pb);
        let c = pb.get_cursor();
        if c == next || (next >= self.body.len() && c >= self.body.len()) {
            Ok(())
        } else {
            Err(format!("after the object the next token is at {} not {}", c, next))
        }
    }

    // IndirectP at off; a referenced /Length (lenref, n) must give InsufficientContext in an empty
    // context and succeed once lenref is an integer n.  Returns (num, gen, object, end cursor).
    fn indirect(
        &self, off: usize, lenref: Option<((usize, usize), usize)>,
    ) -> Result<(usize, usize, std::rc::Rc<LocatedVal<PDFObjT>>, usize), String> {
        if let Some(_) = lenref {
            let mut pb = self.at(off).ok_or("offset outside the file")?;
            let mut ctxt = PDFObjContext::new(50);
            match IndirectP::new(&mut ctxt).parse(&mut pb) {
                Err(e) => {
                    if let ErrorKind::InsufficientContext = e.val() {
                    } else {
                        return Err(format!("empty context: error {} instead of InsufficientContext", ekind(e.val())))
                    }
                },
                Ok(_) => return Err("parses in an empty context although /Length is a reference".to_string()),
            }
        }
        let mut pb = self.at(off).ok_or("offset outside the file")?;
        let mut ctxt = PDFObjContext::new(50);
        if let Some(((n, g), len)) = lenref {
            pdfobj::read_ctx(&format!("{}.{}=i{}", n, g, len), &mut ctxt);
        }
        match IndirectP::new(&mut ctxt).parse(&mut pb) {
            Err(e) => Err(format!("IndirectP fails: {}", ekind(e.val()))),
            Ok(io) => {
                let end = pb.get_cursor();
                let io = io.unwrap();
                Ok((io.num(), io.gen(), std::rc::Rc::clone(io.obj()), end))
            },
        }
    }
}

fn parse_id(s: &str) -> Option<(usize, usize)> {
    let mut it = s.split('.');
    let n = it.next()?.parse().ok()?;
    let g = it.next()?.parse().ok()?;
    Some((n, g))
}

fn check_item(v: &View, tok: &str, keys: &BTreeSet<usize>, mentioned: &mut BTreeSet<usize>) -> Result<(), String> {
    let p: Vec<&str> = tok.split(';').collect();
    if p.len() < 3 {
        return Err("malformed item".to_string())
    }
    let off: usize = p[1].parse().map_err(|_| "bad offset")?;
    let next: usize = p[2].parse().map_err(|_| "bad next")?;
    let _ = keys;
    match p[0] {
        "G" => v.is_garbage(off),
        "X" => {
            if p.len() < 7 {
                return Err("malformed X item".to_string())
            }
            let mut pb = v.at(off).ok_or("offset outside the file")?;
            let xs = XrefSectP.parse(&mut pb).map_err(|e| format!("XrefSectP fails: {}", ekind(e.val())))?;
            let got = ents_text(&xs.val().ents());
            if got != p[3] {
                return Err(format!("entries {} vs described {}", got, p[3]))
            }
            ent_offsets(p[3], mentioned);
            let (root, prev, xstm) = match pb.scan(b"trailer") {
                Err(_) => ("!".to_string(), "-".to_string(), "-".to_string()),
                Ok(_) => {
                    let mut ctxt = PDFObjContext::new(50);
                    match TrailerP::new(&mut ctxt).parse(&mut pb) {
                        Err(_) => ("!".to_string(), "-".to_string(), "-".to_string()),
                        Ok(t) => {
                            let d = t.val().dict();
                            (
                                match d.get(b"Root") {
                                    Some(r) => pdfobj::show(r.val()),
                                    None => "-".to_string(),
                                },
                                opt_usize(d.get_usize(b"Prev")),
                                opt_usize(d.get_usize(b"XRefStm")),
                            )
                        },
                    }
                },
            };
            if root != p[4] || prev != p[5] || xstm != p[6] {
                return Err(format!("trailer {};{};{} vs described {};{};{}", root, prev, xstm, p[4], p[5], p[6]))
            }
            for f in [p[5], p[6]] {
                if let Ok(o) = f.parse::<usize>() {
                    mentioned.insert(o);
                }
            }
            Ok(())
        },
        "T" => {
            if p.len() < 7 {
                return Err("malformed T item".to_string())
            }
            let id = parse_id(p[3]).ok_or("bad id")?;
            let (n, g, obj, end) = v.indirect(off, None)?;
            if (n, g) != id {
                return Err(format!("object id {}.{} vs described {}", n, g, p[3]))
            }
            let s = match obj.val() {
                PDFObjT::Stream(s) => s,
                _ => return Err("not a stream".to_string()),
            };
            let content = s.stream().val();
            let pb = v.at(0).unwrap();
            let mut view = RestrictView::new(content.start(), content.size())
                .transform(&pb)
                .map_err(|_| "cannot restrict to the stream content")?;
            let xs = XrefStreamP::new(false, s)
                .parse(&mut view)
                .map_err(|e| format!("XrefStreamP fails: {}", ekind(e.val())))?;
            let got = ents_text(xs.val().ents());
            if got != p[4] {
                return Err(format!("entries {} vs described {}", got, p[4]))
            }
            ent_offsets(p[4], mentioned);
            let root = match xs.val().dict().get(b"Root") {
                Some(r) => pdfobj::show(r.val()),
                None => "-".to_string(),
            };
            let prev = opt_usize(xs.val().dict().get_usize(b"Prev"));
            if root != p[5] || prev != p[6] {
                return Err(format!("stream dictionary {};{} vs described {};{}", root, prev, p[5], p[6]))
            }
            if let Ok(o) = p[6].parse::<usize>() {
                mentioned.insert(o);
            }
            v.leads_to(end, next)
        },
        "O" => {
            if p.len() < 5 {
                return Err("malformed O item".to_string())
            }
            let id = parse_id(p[3]).ok_or("bad id")?;
            // a referenced /Length, read off the described value
            let mut lenref = None;
            if p[4].starts_with("S(") {
                if let PDFObjT::Stream(s) = pdfobj::read(p[4]) {
                    if let Some(l) = s.dict().val().get(b"Length") {
                        if let PDFObjT::Reference(r) = l.val() {
                            lenref = Some((r.id(), s.content().len()));
                        }
                    }
                }
            }
            let (n, g, obj, end) = v.indirect(off, lenref)?;
            if (n, g) != id {
                return Err(format!("object id {}.{} vs described {}", n, g, p[3]))
            }
            let got = pdfobj::show(obj.val());
            if got != p[4] {
                return Err(format!("value {} vs described {}", got, p[4]))
            }
            v.leads_to(end, next)
        },
        "M" => {
            if p.len() < 7 {
                return Err("malformed M item".to_string())
            }
            let id = parse_id(p[3]).ok_or("bad id")?;
            let clen: usize = p[4].parse().map_err(|_| "bad clen")?;
            let lenref = if p[5] == "-" { None } else { Some((parse_id(p[5]).ok_or("bad lenref")?, clen)) };
            let (n, g, obj, end) = v.indirect(off, lenref)?;
            if (n, g) != id {
                return Err(format!("object id {}.{} vs described {}", n, g, p[3]))
            }
            let s = match obj.val() {
                PDFObjT::Stream(s) => s,
                _ => return Err("not a stream".to_string()),
            };
            let content = s.stream().val();
            if content.size() != clen {
                return Err(format!("payload of {} bytes vs described {}", content.size(), clen))
            }
            let pb = v.at(0).unwrap();
            let mut view = RestrictView::new(content.start(), content.size())
                .transform(&pb)
                .map_err(|_| "cannot restrict to the stream content")?;
            let mut ctxt = PDFObjContext::new(50);
            let os = ObjStreamP::new(&mut ctxt, s)
                .parse(&mut view)
                .map_err(|e| format!("ObjStreamP fails: {}", ekind(e.val())))?;
            let got: Vec<String> = os
                .val()
                .objs()
                .iter()
                .map(|o| format!("{}={}", o.val().num(), pdfobj::show(o.val().obj().val())))
                .collect();
            let got = if got.is_empty() { "-".to_string() } else { got.join("+") };
            if got != p[6] {
                return Err(format!("members {} vs described {}", got, p[6]))
            }
            v.leads_to(end, next)
        },
        _ => Err("unknown item kind".to_string()),
    }
}

fn validate(t: &[&str], data: &[u8]) -> Result<(), String> {
    let hdr = find_sub(data, b"%PDF-");
    let magic = if hdr.is_some() { "1" } else { "0" };
    if magic != t[2] {
        return Err(format!("h:magic {} vs described {}", magic, t[2]))
    }
    let hdr = match hdr {
        Some(h) => h,
        None => return Ok(()), // nothing else is looked at by the loader
    };
    let v = View {
        body: data[hdr ..].to_vec(),
    };
    let flen = v.body.len();
    if flen.to_string() != t[1] {
        return Err(format!("h:flen {} vs described {}", flen, t[1]))
    }
    // startxref as parse_data finds it
    let sx = {
        let mut pb = v.at(flen).unwrap();
        let _ = pb.backward_scan(b"%%EOF");
        match pb.backward_scan(b"startxref") {
            Err(_) => "-".to_string(),
            Ok(_) => match StartXrefP.parse(&mut pb) {
                Err(_) => "-".to_string(),
                Ok(s) => s.val().offset().to_string(),
            },
        }
    };
    if sx != t[3] {
        return Err(format!("h:startxref {} vs described {}", sx, t[3]))
    }
    let mut keys = BTreeSet::new();
    for tok in &t[7 ..] {
        let p: Vec<&str> = tok.split(';').collect();
        if p.len() >= 2 {
            if let Ok(o) = p[1].parse::<usize>() {
                keys.insert(o);
            }
        }
    }
    let mut mentioned = BTreeSet::new();
    if let Ok(o) = t[3].parse::<usize>() {
        mentioned.insert(o);
    }
    for (i, tok) in t[7 ..].iter().enumerate() {
        let r = catch_unwind(AssertUnwindSafe(|| check_item(&v, tok, &keys, &mut mentioned)));
        match r {
            Ok(Ok(())) => (),
            Ok(Err(m)) => return Err(format!("{}:{}", i, m.replace(' ', "_"))),
            Err(_) => return Err(format!("{}:a_parser_panicked", i)),
        }
    }
    // offsets that the description mentions but does not key behave like garbage in the model
    for o in mentioned {
        if o < flen && !keys.contains(&o) {
            let r = catch_unwind(AssertUnwindSafe(|| v.is_garbage(o)));
            match r {
                Ok(Ok(())) => (),
                Ok(Err(m)) => return Err(format!("u{}:{}", o, m.replace(' ', "_"))),
                Err(_) => return Err(format!("u{}:a_parser_panicked", o)),
            }
        }
    }
    Ok(())
}

pub fn run_case(t: &[&str]) -> String {
    if t.len() < 7 || t[0] != "L" {
        return "badcase".to_string()
    }
    let mut probes: Vec<(usize, usize)> = Vec::new();
    if t[4] != "-" {
        for p in t[4].split('+') {
            if let Some(id) = parse_id(p) {
                probes.push(id);
            }
        }
    }
    let data = unhex(t[6]);
    let path = Path::new("case.pdf");
    let r = catch_unwind(AssertUnwindSafe(|| parse_data(path, &data)));
    let mut out = match r {
        Err(payload) => {
            if payload.downcast_ref::<VerifExit>().is_some() {
                "rejected".to_string()
            } else {
                "panic".to_string()
            }
        },
        Ok((_fi, ctxt, root)) => {
            let mut out = format!("loaded root={}.{}", root.0, root.1);
            for id in probes {
                if let Some(o) = ctxt.lookup_obj(id) {
                    out.push_str(&format!(" {}.{}={}", id.0, id.1, show_val(o.val())));
                }
            }
            out
        },
    };
    match validate(t, &data) {
        Ok(()) => out.push_str(" items=ok"),
        Err(m) => out.push_str(&format!(" items=bad:{}", m.replace(' ', "_"))),
    }
    out
}

pub fn main_loader() { run_lines(run_case) }
