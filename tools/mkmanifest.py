#!/usr/bin/env python3
"""Regenerates MANIFEST.json from props/*.py metadata (MANIFEST_* fields) — run after adding a property."""
import json, os, sys, glob, importlib
ROOT = os.path.dirname(os.path.dirname(os.path.abspath(__file__)))
sys.path.insert(0, ROOT)
ALL = ['C%02d' % i for i in range(1, 21)]
checks, na = [], []
for pid in ALL:
    p = os.path.join(ROOT, 'props', pid.lower() + '.py')
    ready = [l.strip() for l in open(os.path.join(ROOT, 'ready.txt')) if l.strip()]
    if not os.path.exists(p) or pid not in ready:
        na.append({'property_id': pid, 'reason': 'not yet built in this revision of /verif (planned: DESIGN.md section 6 %s); no check is claimed until model, theorems and correspondence exist' % pid})
        continue
    P = importlib.import_module('props.' + pid.lower())
    checks.append({
        'property_id': pid,
        'quick_cmd': './pv check %s --tier quick' % pid,
        'thorough_cmd': './pv check %s --tier thorough' % pid,
        'evidence_file': 'evidence/%s.json' % pid,
        'replay_cmd_template': './pv replay {path}',
        'engine': 'coq-model+correspondence',
        'level_claimed': {'category': 'proof', 'text': P.LEVEL_TEXT, 'design_ref': 'DESIGN.md section 6, %s' % pid},
        'level_note': P.LEVEL_NOTE,
        'technique': P.TECHNIQUE,
    })
m = {
    'version': 1,
    'setup_cmd': './pv setup',
    'hooks': {
        'guard': 'verif',
        'enable': 'cargo feature: harness/Cargo.toml depends on parsley-rust { path = "/repo", features = ["verif"] }',
        'baseline_off_cmd': 'cd /repo && cargo test --workspace --no-fail-fast --offline',
        'source_commits': [l.strip() for l in open(os.path.join(ROOT, 'hooks_commits.txt')) if l.strip()] if os.path.exists(os.path.join(ROOT, 'hooks_commits.txt')) else [],
        'add_only': True,
    },
    'engines': [{'name': 'coq-model+correspondence', 'path': 'pv',
                 'serves_properties': [c['property_id'] for c in checks],
                 'kind_free_text': 'Coq 8.16 theorems about a hand-written executable model (coq/), extracted to OCaml and run against the Rust implementation on generated cases (harness/, props/); translated tables regenerated from /repo into coq/gen'}],
    'checks': checks,
    'not_applicable': na,
    'notes': 'All checks: ./pv check <id> --tier quick|thorough (VERIF_SEED honoured). Known findings (open and fixed): known_findings.d/*.json; repairs committed to /repo as fix: commits, copies in fixes/. Seeded changes: seeded/. See DESIGN.md section 11 (as built).',
}
json.dump(m, open(os.path.join(ROOT, 'MANIFEST.json'), 'w'), indent=1)
print('checks:', [c['property_id'] for c in checks], 'n/a:', len(na))
