#!/bin/bash
# usage: tools/verify_seed.sh <prop-lowercase> <n> [name]
# Confirms a seeded change in its scratch worktree /tmp/seed/<prop>: (1) patch applies, builds, the 132
# existing tests pass; (2) the demonstration fails with the change; (3) passes without it.
# On success stores it as /verif/seeded/<PROP>-<n>/ {patch.diff, demo, meta.json (+ "verified" block)}.
p=$1; n=$2; wt=/tmp/seed/$p; sd=$wt/SEED/$n
export CARGO_TARGET_DIR=/tmp/seed/target-verify-$p CARGO_NET_OFFLINE=true
cd $wt || exit 2
git checkout -q -- src 2>/dev/null; rm -f tests/seed_demo.rs examples/demo.rs
demo=$(ls $sd | grep -E '\.rs$' | head -1)
[ -z "$demo" ] && { echo "no demo in $sd"; exit 2; }
if grep -q "fn main" $sd/$demo && ! grep -q "#\[test\]" $sd/$demo; then kind=example; else kind=test; fi
place() { if [ $kind = example ]; then mkdir -p examples; cp $sd/$demo examples/demo.rs; else cp $sd/$demo tests/seed_demo.rs; fi; }
rundemo() { if [ $kind = example ]; then timeout 600 cargo run --offline ${FEATURES:+--features $FEATURES} --example demo >/tmp/seed/demo-$p-$n.log 2>&1; else timeout 600 cargo test --offline ${FEATURES:+--features $FEATURES} --test seed_demo >/tmp/seed/demo-$p-$n.log 2>&1; fi; }
# without change
place; rundemo; rc_without=$?
rm -f tests/seed_demo.rs examples/demo.rs
git apply $sd/patch.diff || { echo "patch does not apply"; exit 2; }
timeout 900 cargo test --offline --lib > /tmp/seed/tests-$p-$n.log 2>&1; rc_tests=$?
passed=$(grep -E "^test result" /tmp/seed/tests-$p-$n.log | head -1)
place; rundemo; rc_with=$?
rm -f tests/seed_demo.rs examples/demo.rs; rmdir examples 2>/dev/null
git checkout -q -- src
echo "tests: rc=$rc_tests $passed | demo without change rc=$rc_without | demo with change rc=$rc_with"
if [ $rc_tests = 0 ] && [ $rc_without = 0 ] && [ $rc_with != 0 ] && echo "$passed" | grep -q "132 passed"; then
  P=$(echo $p | tr a-z A-Z); P=${PROP:-$P}; d=/verif/seeded/${OUTID:-$P-$n}; mkdir -p $d
  cp $sd/patch.diff $d/patch.diff; cp $sd/$demo $d/$demo
  python3 - "$sd/meta.json" "$d/meta.json" "$P" "$kind" <<'PY'
import json,sys
try: m=json.load(open(sys.argv[1]))
except Exception: m={}
m['property']=sys.argv[3]
m['verified_by_coordinator']={'ran':['git apply patch.diff','cargo test --offline --lib (132 passed)','demo (%s) with change: fails'%sys.argv[4],'demo without change: passes'],'worktree':'scratch git worktree of /repo under /tmp/seed (removed afterwards)'}
json.dump(m,open(sys.argv[2],'w'),indent=1)
PY
  echo "VERIFIED -> $d"
else
  echo "NOT VERIFIED"; tail -5 /tmp/seed/demo-$p-$n.log
fi
