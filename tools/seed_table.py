#!/usr/bin/env python3
"""Generates the table of DESIGN.md section 11.8 from seeded/*/meta.json and seeded/*/results.txt
(the latest result per seed and check)."""
import os, json, glob, re, sys
ROOT = os.path.dirname(os.path.dirname(os.path.abspath(__file__)))
rows = []
for d in sorted(glob.glob(os.path.join(ROOT, 'seeded', '*'))):
    sid = os.path.basename(d)
    try:
        m = json.load(open(os.path.join(d, 'meta.json')))
    except Exception:
        m = {}
    res = {}
    rp = os.path.join(d, 'results.txt')
    if os.path.exists(rp):
        for line in open(rp):
            mm = re.search(r'head=(\S+) check=(\S+) tier=(\S+) rc=(\d+) (.*)$', line.strip())
            if mm:
                res[mm.group(2)] = (mm.group(1), mm.group(4), mm.group(5))
    summ = (m.get('summary') or m.get('what') or '').replace('|', '/').replace('\n', ' ')
    if len(summ) > 150:
        summ = summ[:147] + '…'
    if m.get('obsolete'):
        verdict = 'superseded (see meta.json)'
    elif not res:
        verdict = 'not run'
    else:
        parts = []
        for chk, (head, rc, txt) in sorted(res.items()):
            if rc == '1' and 'no-failing-input-found' in txt:
                parts.append('%s: tie broken (no-failing-input-found)' % chk)
            elif rc == '1':
                parts.append('%s: **VIOLATION** with replay' % chk)
            else:
                parts.append('%s: missed' % chk)
        verdict = '; '.join(parts)
    rows.append('| %s | %s | %s | %s |' % (sid, m.get('property', sid.split('-')[0]), summ, verdict))
print('| seed | property | change | quick check(s) on HEAD + change |')
print('|---|---|---|---|')
print('\n'.join(rows))
