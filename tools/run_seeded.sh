#!/bin/bash
# usage: tools/run_seeded.sh <SEED-ID e.g. C19-2> [PROP ...]   — runs the quick check(s) against a scratch
# worktree of /repo's HEAD with the seeded patch applied (never touches /repo's working tree).
id=$1; shift; props=${@:-${id%%-*}}
wt=/tmp/seedrun/$id; rm -rf $wt; mkdir -p /tmp/seedrun
git -C /repo worktree add -q --detach $wt HEAD || exit 2
cp /repo/Cargo.lock $wt/
if ! git -C $wt apply /verif/seeded/$id/patch.diff; then echo "$id: patch does not apply to current HEAD"; git -C /repo worktree remove --force $wt; exit 2; fi
cd /verif
for p in $props; do
  out=$(VERIF_REPO=$wt timeout 1800 ./pv check $p --tier ${TIER:-quick} 2>&1); rc=$?
  v=$(echo "$out" | grep -m1 '^VIOLATION')
  echo "$id check=$p rc=$rc ${v:-no-violation}"
  echo "$(date -u +%FT%TZ) head=$(git -C /repo rev-parse --short HEAD) check=$p tier=${TIER:-quick} rc=$rc ${v:-no-violation}" >> /verif/seeded/$id/results.txt
done
git -C /repo worktree remove --force $wt
rm -rf /verif/.cache/alt-$(python3 -c "import hashlib,sys;print(hashlib.sha1(sys.argv[1].encode()).hexdigest()[:8])" $wt)
