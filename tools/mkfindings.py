#!/usr/bin/env python3
"""Merges known_findings.d/*.json into the single committed file known_findings.json, adding to every entry
the literal line required by the interface:
   open  : "KNOWN-FINDING: property=<id> <what fails>"     (printed by the check while the witness still fails)
   fixed : "fixed: property=<id> <commit> <what failed>"   (suppresses nothing)"""
import json, glob, os
ROOT = os.path.dirname(os.path.dirname(os.path.abspath(__file__)))
out = []
for f in sorted(glob.glob(os.path.join(ROOT, 'known_findings.d', '*.json'))):
    for k in json.load(open(f)):
        k = dict(k)
        if k.get('status', 'open') == 'fixed':
            k['line'] = 'fixed: property=%s %s %s' % (k['property'], k.get('commit', '?'), k['what'])
        else:
            k['line'] = 'KNOWN-FINDING: property=%s %s' % (k['property'], k['what'])
        out.append(k)
json.dump({'findings': out}, open(os.path.join(ROOT, 'known_findings.json'), 'w'), indent=1)
print(len(out), 'findings;', sum(1 for k in out if k.get('status', 'open') == 'open'), 'open')
